"""symx core: symbolic scalars over z3 that flow through the *real* Aegean source under CPython.

SN   symbolic number (z3 Int/Real term, optional linear angle form for the units-aware trig algebra)
SB   symbolic boolean; bool(SB) asks the path oracle (fork by re-execution)
PathCtx / explore   depth-first re-execution with decision traces, optional fan-out to processes

Floats are modelled as reals here (see DESIGN.md section 1); the bit-precise mode lives in symx/fp.py.
"""
import builtins
import math
import os
import sys
import time
from fractions import Fraction

import numpy as real_np
import z3

QUERY_TIMEOUT_MS = int(os.environ.get('SYMX_QUERY_TIMEOUT_MS', '30000'))


class HarnessError(Exception):
    """the harness (not the code under test) is wrong: vacuous obligation, executor mismatch, ..."""


class Unsupported(Exception):
    """the real code did something the executor cannot model on this path -> path is inconclusive"""


class Infeasible(Exception):
    """the current path was entered through an `unknown` feasibility answer and is in fact infeasible"""


class Cut(Exception):
    """raised by stubs to end a path after the statements of interest"""

    def __init__(self, state=None):
        Exception.__init__(self, 'cut')
        self.state = state


# ----------------------------------------------------------------------------------------------
# per-path context
# ----------------------------------------------------------------------------------------------
class PathCtx:
    def __init__(self, trace=()):
        self.solver = z3.Solver()
        self.solver.set('timeout', QUERY_TIMEOUT_MS)
        self.trace = list(trace)
        self.pos = 0
        self.nq = 0
        self.solver_s = 0.0
        self.unknown_forks = 0
        self.n = 0
        self.assumes = []        # z3 bools added by the harness
        self.pathcond = []       # z3 bools added by decisions
        self.obligations = []
        # trig / algebra state
        self.K = z3.Real('K')    # pi/180 as a symbolic constant
        self.cons = [self.K > z3.RealVal('0.0174'), self.K < z3.RealVal('0.0175')]
        self.atoms = {}          # angle var name -> (cos term, sin term)
        self.exps = {}           # E symbol name -> (E, exponent term)
        self.defs = {}           # derived symbol name -> list of defining constraints
        self.rads = {}           # radicand sexpr -> radical symbol
        self.radicand = {}       # radical symbol name -> radicand term
        self.halfs = {}          # half-angle symbol name -> its square
        self.angdefs = {}        # derived angle name -> (x, y) direction (unnormalised)
        self.angval = {}         # derived angle name -> z3 value symbol (radians)
        self.tokens = {}         # format tokens
        self.notes = []
        self.synced = set()
        self.decided = {}

    # -- fresh names are deterministic per path so that re-execution reproduces them
    def fresh(self, prefix, sort='real'):
        self.n += 1
        nm = '%s!%d' % (prefix, self.n)
        return z3.Real(nm) if sort == 'real' else (z3.Int(nm) if sort == 'int' else z3.Bool(nm))

    def assume(self, c):
        c = c.e if isinstance(c, SB) else c
        self.assumes.append(c)
        self.solver.add(c)

    def check(self, *extra):
        # the wall budget of the exploration also ends a path in mid-flight (a path whose every fork needs a long
        # solver call would otherwise outlive the budget by hours): the path is recorded as unsupported / truncated
        if _DEADLINE[0] and time.time() > _DEADLINE[0] + 5:
            raise Unsupported('wall budget of this exploration used up inside a path (%d solver calls on it)' % self.nq)
        self.nq += 1
        t = time.time()
        r = str(self.solver.check(*extra))
        self.solver_s += time.time() - t
        return r

    def feasible(self, c):
        r = self.check(c)
        if r == 'unknown':
            self.unknown_forks += 1
            return True     # explore it; any finding is replayed on real code anyway
        return r == 'sat'

    def decide(self, cond):
        cond = z3.simplify(cond)
        if z3.is_true(cond):
            return True
        if z3.is_false(cond):
            return False
        # a condition (or its negation) already decided on this path needs no solver call and no trace entry
        pol = True
        key = cond
        if z3.is_not(key):
            key = key.arg(0)
            pol = False
        kid = key.get_id()
        if kid in self.decided:
            return self.decided[kid][0] == pol
        self.sync([cond])
        if self.pos < len(self.trace):
            v = self.trace[self.pos]
            if v in ('TU', 'FU'):
                self.unknown_forks += 1      # this prefix was entered through an `unknown` feasibility answer
        else:
            u0 = self.unknown_forks
            t = self.feasible(cond)
            f = self.feasible(z3.Not(cond))
            if not t and not f:
                if self.unknown_forks:
                    # an earlier `unknown` fork was explored optimistically and turned out infeasible
                    raise Infeasible()
                raise HarnessError('path condition became infeasible at %s' % cond)
            v = True if (t and f) else ('T' if t else 'F')
            if v is True and self.unknown_forks > u0:
                v = 'TU'
            self.trace.append(v)
        self.pos += 1
        b = v in (True, 'T', 'TU')
        c = cond if b else z3.Not(cond)
        self.pathcond.append(c)
        self.solver.add(c)
        self.decided[kid] = (b == pol, key)
        return b

    def sync(self, terms):
        """make the definitions of derived symbols occurring in terms known to the path solver"""
        if not (self.defs or self.atoms):
            return
        for c in self.closure(terms):
            i = c.get_id()
            if i not in self.synced:
                self.synced.add(i)
                self.solver.add(c)

    # ---- definitional closure of the derived symbols that occur in a set of terms
    def closure(self, terms):
        vs = set()
        for c in terms:
            vars_of(c, vs)
        use = []
        done = set()
        ch = True
        while ch:
            ch = False
            for v in list(vs):
                if v in self.defs and v not in done:
                    done.add(v)
                    use += self.defs[v]
                    ch = True
                    for c in self.defs[v]:
                        vars_of(c, vs)
        es = [(E, g) for nm, (E, g) in self.exps.items() if nm in done or nm in vs]
        for a in range(len(es)):
            for b in range(a + 1, len(es)):
                use.append(z3.Implies(es[a][1] == es[b][1], es[a][0] == es[b][0]))
        for v, (c, s) in self.atoms.items():
            if z3.is_const(c) and z3.is_const(s) and (str(c) in vs or str(s) in vs):
                use.append(c * c + s * s == 1)
        if 'K' in vs:
            use += self.cons
        return use

    def oblige(self, name, claim, assume=(), info=None, timeout_ms=None):
        """claim must hold on this path: ask the solver for a model of its negation.
        Records and returns a dict with result in {'unsat','sat','unknown'}; a model is a dict name->str."""
        claim = claim.e if isinstance(claim, SB) else claim
        if isinstance(claim, bool):
            claim = z3.BoolVal(claim)
        assume = [a.e if isinstance(a, SB) else a for a in assume]
        claim = z3.simplify(claim)
        stamp = (len(self.assumes), len(self.pathcond))
        if z3.is_true(claim) and not assume and self.__dict__.get('reach_stamp') == stamp:
            rec = dict(name=name, result='unsat', model=None, reach='sat', trace=list(self.trace[:self.pos]), info=info, trivial=True)
            self.obligations.append(rec)
            return rec
        s = self.solver
        s.push()
        if timeout_ms:
            s.set('timeout', timeout_ms)
        try:
            extra = self.closure([claim] + assume + self.assumes + self.pathcond)
            s.add(extra)
            s.add(assume)
            if not assume and not extra and self.__dict__.get('reach_stamp') == stamp:
                reach = 'sat'
            else:
                reach = self.check()
                if reach == 'sat' and not assume:
                    self.reach_stamp = stamp
            if reach == 'unsat':
                rec = dict(name=name, result='vacuous', model=None)
            else:
                s.add(z3.Not(claim))
                r = self.check()
                model = None
                if r == 'sat':
                    m = s.model()
                    model = {}
                    for d in m.decls():
                        if d.arity() == 0:
                            model[d.name()] = _val(m[d])
                        else:
                            model[d.name()] = str(m[d])
                    model['__z3model__'] = m
                rec = dict(name=name, result=r, model=model, reach=reach)
        finally:
            if timeout_ms:
                s.set('timeout', QUERY_TIMEOUT_MS)
            s.pop()
        rec['trace'] = list(self.trace[:self.pos])
        rec['info'] = info
        self.obligations.append(rec)
        return rec


def _val(v):
    if z3.is_rational_value(v):
        return Fraction(v.numerator_as_long(), v.denominator_as_long())
    if z3.is_int_value(v):
        return v.as_long()
    if z3.is_true(v):
        return True
    if z3.is_false(v):
        return False
    if z3.is_algebraic_value(v):
        a = v.approx(30)
        return Fraction(a.numerator_as_long(), a.denominator_as_long())
    return str(v)


CTX = None


def ctx():
    return CTX


def vars_of(e, acc=None):
    acc = set() if acc is None else acc
    todo = [e]
    seen = set()
    while todo:
        t = todo.pop()
        if t.get_id() in seen:
            continue
        seen.add(t.get_id())
        if z3.is_const(t) and t.decl().kind() == z3.Z3_OP_UNINTERPRETED:
            acc.add(str(t))
        todo.extend(t.children())
    return acc


# ----------------------------------------------------------------------------------------------
# symbolic booleans
# ----------------------------------------------------------------------------------------------
def lb(o):
    if isinstance(o, SB):
        return o.e
    if isinstance(o, (bool, real_np.bool_)):
        return z3.BoolVal(bool(o))
    if z3.is_expr(o):
        return o
    raise TypeError('not a boolean: %r' % (o,))


class SB:

    def __init__(self, e):
        self.e = e if z3.is_expr(e) else z3.BoolVal(bool(e))

    def __bool__(self):
        return CTX.decide(self.e)

    def __or__(self, o):
        if isinstance(o, real_np.ndarray):
            return NotImplemented
        return SB(z3.Or(self.e, lb(o)))
    __ror__ = __or__

    def __and__(self, o):
        if isinstance(o, real_np.ndarray):
            return NotImplemented
        return SB(z3.And(self.e, lb(o)))
    __rand__ = __and__

    def __xor__(self, o):
        if isinstance(o, real_np.ndarray):
            return NotImplemented
        return SB(z3.Xor(self.e, lb(o)))
    __rxor__ = __xor__

    def __invert__(self):
        return SB(z3.Not(self.e))

    def logical_not(self):
        return SB(z3.Not(self.e))

    def __repr__(self):
        return 'SB(%s)' % self.e

    def __deepcopy__(self, memo):
        return self


# ----------------------------------------------------------------------------------------------
# symbolic numbers
# ----------------------------------------------------------------------------------------------
def isnum(o):
    return isinstance(o, (int, float, real_np.integer, real_np.floating, Fraction)) and not isinstance(o, (bool, real_np.bool_))


def const(o):
    """exact z3 value of a concrete python/numpy number (floats -> exact rational of the literal)"""
    if isinstance(o, (bool, real_np.bool_)):
        return z3.IntVal(int(o))
    if isinstance(o, (int, real_np.integer)):
        return z3.IntVal(int(o))
    if isinstance(o, Fraction):
        return z3.RealVal(str(o))
    if isinstance(o, (float, real_np.floating)):
        f = float(o)
        if f != f or f in (float('inf'), float('-inf')):
            raise Unsupported('non-finite constant meets a symbolic value')
        return z3.RealVal(str(Fraction(f)))
    raise TypeError('cannot lift %r' % type(o))


def lift(o):
    if isinstance(o, SN):
        return o.e
    if isinstance(o, SB):
        return z3.If(o.e, z3.IntVal(1), z3.IntVal(0))
    return const(o)


def _is_int(e):
    return e.sort().kind() == z3.Z3_INT_SORT


def _coerce(a, b):
    if _is_int(a) and not _is_int(b):
        a = z3.ToReal(a)
    elif _is_int(b) and not _is_int(a):
        b = z3.ToReal(b)
    return a, b


def _toreal(a):
    return z3.ToReal(a) if _is_int(a) else a


def _frac(o, lim=10**9):
    return Fraction(float(o)).limit_denominator(lim) if not isinstance(o, Fraction) else o


class SN:

    def __init__(self, e, ang=None):
        self.e = e
        self.ang = ang  # (coeffs {var: Fraction}, const_deg Fraction, power of pi/180)

    # ---- helpers
    @property
    def is_int(self):
        return _is_int(self.e)

    def _lin(self, o, sign):
        if self.ang is None:
            return None
        if isinstance(o, SN):
            if o.ang is None or o.ang[2] != self.ang[2]:
                return None
            co = dict(self.ang[0])
            for k, v in o.ang[0].items():
                co[k] = co.get(k, 0) + sign * v
            return (co, self.ang[1] + sign * o.ang[1], self.ang[2])
        if isnum(o):
            if self.ang[2] == 0:
                return (dict(self.ang[0]), self.ang[1] + sign * _frac(o), 0)
            if self.ang[2] == 1:
                q = float(o) / (math.pi / 2)
                if abs(q - round(q)) < 1e-12:
                    return (dict(self.ang[0]), self.ang[1] + sign * 90 * round(q), 1)
                q = float(o) / (math.pi / 4)
                if abs(q - round(q)) < 1e-12:
                    return (dict(self.ang[0]), self.ang[1] + sign * 45 * round(q), 1)
        return None

    # ---- arithmetic
    def __add__(self, o):
        a, b = _coerce(self.e, lift(o))
        return SN(a + b, self._lin(o, 1))
    __radd__ = __add__

    def __sub__(self, o):
        a, b = _coerce(self.e, lift(o))
        return SN(a - b, self._lin(o, -1))

    def __rsub__(self, o):
        return (-self).__add__(o)

    def __neg__(self):
        return SN(-self.e, None if self.ang is None else
                  ({k: -v for k, v in self.ang[0].items()}, -self.ang[1], self.ang[2]))

    def __pos__(self):
        return self

    def __mul__(self, o):
        ang = None
        if self.ang is not None and isnum(o):
            f = _frac(o, 10**6)
            ang = ({k: v * f for k, v in self.ang[0].items()}, self.ang[1] * f, self.ang[2])
        a, b = _coerce(self.e, lift(o))
        return SN(a * b, ang)
    __rmul__ = __mul__

    def __truediv__(self, o):
        ang = None
        if self.ang is not None and isnum(o):
            f = 1 / _frac(o, 10**6)
            ang = ({k: v * f for k, v in self.ang[0].items()}, self.ang[1] * f, self.ang[2])
        return SN(_toreal(self.e) / _toreal(lift(o)), ang)

    def __rtruediv__(self, o):
        return SN(_toreal(lift(o)) / _toreal(self.e))

    def __floordiv__(self, o):
        b = lift(o)
        if self.is_int and _is_int(b):
            return SN(_floordiv_int(self.e, b))
        q = _toreal(self.e) / _toreal(b)
        return SN(z3.ToReal(z3.ToInt(q)))

    def __rfloordiv__(self, o):
        return SN(lift(o)).__floordiv__(self)

    def __mod__(self, o):
        b = lift(o)
        if self.is_int and _is_int(b):
            return SN(self.e - b * _floordiv_int(self.e, b))
        a, b = _toreal(self.e), _toreal(b)
        return SN(a - b * z3.ToReal(z3.ToInt(a / b)))

    def __rmod__(self, o):
        return SN(lift(o)).__mod__(self)

    def __divmod__(self, o):
        return self.__floordiv__(o), self.__mod__(o)

    def __rdivmod__(self, o):
        return self.__rfloordiv__(o), self.__rmod__(o)

    def __pow__(self, n):
        if isinstance(n, float) and n == 0.5:
            return self.sqrt()
        if isinstance(n, (float, real_np.floating)) and float(n) == int(n):
            n = int(n)
        if not isinstance(n, (int, real_np.integer)):
            raise Unsupported('symbolic ** %r' % (n,))
        n = int(n)
        if n == 0:
            return SN(z3.IntVal(1))
        if n < 0:
            return 1 / self.__pow__(-n)
        if n == 2 and str(self.e) in CTX.halfs:
            return SN(CTX.halfs[str(self.e)])
        r = self.e
        for _ in range(n - 1):
            r = r * self.e
        return SN(r)

    def __rpow__(self, o):
        # concrete positive base, symbolic exponent: an opaque positive value, the same for the same exponent, on the right
        # side of 1 (all that is known about an exponential without transcendental reasoning)
        if isinstance(o, (int, float)) and not isinstance(o, bool) and o > 0 and o == o and o != _INF:
            return SN(exponential(o, _toreal(self.e)))
        raise Unsupported('%r ** symbolic' % (o,))

    def __abs__(self):
        return SN(z3.If(self.e >= 0, self.e, -self.e))

    def __floor__(self):
        return self.floor()

    def __ceil__(self):
        return self.ceil()

    def __round__(self, nd=None):
        return sym_round(self, nd)

    def floor(self):
        return self if self.is_int else SN(z3.ToInt(self.e))

    def ceil(self):
        return self if self.is_int else SN(-z3.ToInt(-self.e))

    def rint(self):
        return sym_round(self)

    # ---- comparisons
    def _cmp(self, o, op):
        a, b = _coerce(self.e, lift(o))
        return SB(op(a, b))

    def __lt__(self, o):
        return self._cmp(o, lambda a, b: a < b)

    def __le__(self, o):
        return self._cmp(o, lambda a, b: a <= b)

    def __gt__(self, o):
        return self._cmp(o, lambda a, b: a > b)

    def __ge__(self, o):
        return self._cmp(o, lambda a, b: a >= b)

    def __eq__(self, o):
        if o is None or isinstance(o, str):
            return False
        return self._cmp(o, lambda a, b: a == b)

    def __ne__(self, o):
        if o is None or isinstance(o, str):
            return True
        return self._cmp(o, lambda a, b: a != b)

    def __hash__(self):
        return id(self)

    def __bool__(self):
        return CTX.decide(self.e != 0)

    def __deepcopy__(self, memo):
        return self

    def __copy__(self):
        return self

    def __repr__(self):
        return 'SN(%s)' % self.e

    def __format__(self, spec):
        k = '\x00%d\x00' % len(CTX.tokens)
        CTX.tokens[k] = (self, spec)
        return k

    def __int__(self):
        if getattr(CTX, 'index_range', None) is not None and self.is_int:
            return self.__index__()
        raise Unsupported('int() of a symbolic value reached CPython (module not patched?)')

    def __float__(self):
        raise Unsupported('float() of a symbolic value reached CPython')

    def __index__(self):
        # concretise by bounded case split: the harness states the admissible range in CTX.index_range
        rng = getattr(CTX, 'index_range', None)
        if rng is None:
            raise Unsupported('symbolic value used as an index')
        e = self.e if self.is_int else None
        if e is None:
            if not CTX.decide(self.e == z3.ToReal(z3.ToInt(self.e))):
                raise Unsupported('non-integral symbolic value used as an index')
            e = z3.ToInt(self.e)
        for k in range(rng[0], rng[1] + 1):
            if CTX.decide(e == k):
                return k
        raise Unsupported('symbolic index outside the stated range %s' % (rng,))

    # ---- numpy ufunc method protocol (object-dtype loops call these)
    def radians(self):
        return SN(_toreal(self.e) * CTX.K, None if self.ang is None else (self.ang[0], self.ang[1], self.ang[2] + 1))
    deg2rad = radians

    def degrees(self):
        return SN(_toreal(self.e) / CTX.K, None if self.ang is None else (self.ang[0], self.ang[1], self.ang[2] - 1))
    rad2deg = degrees

    def _cs(self):
        if self.ang is None or self.ang[2] != 1:
            return None
        c, sn = z3.RealVal(1), z3.RealVal(0)
        for v, n in sorted(self.ang[0].items()):
            if n == 0:
                continue
            if n.denominator != 1:
                return None
            cv, sv = atoms(v)
            n = int(n)
            if n < 0:
                sv = -sv
                n = -n
            for _ in range(n):
                c, sn = c * cv - sn * sv, sn * cv + c * sv
        k = self.ang[1]
        if k % 90 != 0:
            return None
        cc, ss = [(1, 0), (0, 1), (-1, 0), (0, -1)][int(k // 90) % 4]
        return c * cc - sn * ss, sn * cc + c * ss

    def _half(self):
        if self.ang is not None and self.ang[2] == 1:
            vals = list(self.ang[0].values())
            if any(v.denominator == 2 for v in vals) or (self.ang[1] % 90 != 0 and self.ang[1] % 45 == 0):
                if all((2 * v).denominator == 1 for v in vals) and (2 * self.ang[1]) % 90 == 0:
                    return SN(self.e * 2, ({k: v * 2 for k, v in self.ang[0].items()}, self.ang[1] * 2, 1))
        return None

    def _uf(self, name):
        # trig of something that is not a radian-valued linear angle form: uninterpreted application
        f = z3.Function('uf_' + name, z3.RealSort(), z3.RealSort())
        CTX.notes.append('uninterpreted %s(%s)' % (name, str(self.e)[:60]))
        return SN(f(_toreal(self.e)))

    def sin(self):
        d = self._half()
        if d is not None:
            cs = d._cs()
            if cs is not None:
                r = CTX.fresh('hs')
                sq = (1 - cs[0]) / 2
                CTX.defs[str(r)] = [r * r == sq]
                CTX.halfs[str(r)] = sq
                return SN(r)
        cs = self._cs()
        if cs is None:
            return self._uf('sin')
        return SN(z3.simplify(cs[1]))

    def cos(self):
        d = self._half()
        if d is not None:
            cs = d._cs()
            if cs is not None:
                r = CTX.fresh('hc')
                sq = (1 + cs[0]) / 2
                CTX.defs[str(r)] = [r * r == sq]
                CTX.halfs[str(r)] = sq
                return SN(r)
        cs = self._cs()
        if cs is None:
            return self._uf('cos')
        return SN(z3.simplify(cs[0]))

    def tan(self):
        return self.sin() / self.cos()

    def arcsin(self):
        v = _toreal(self.e)
        CTX.n += 1
        nm = 'as!%d' % CTX.n
        cr = radical(1 - v * v)
        CTX.atoms[nm] = (cr, v)
        val = z3.Real('ang_' + nm)
        CTX.angval[nm] = val
        CTX.angdefs[nm] = (cr, v)
        CTX.defs[str(val)] = [val >= -90 * CTX.K, val <= 90 * CTX.K]
        return SN(val, ({nm: Fraction(1)}, Fraction(0), 1))

    def arccos(self):
        v = _toreal(self.e)
        CTX.n += 1
        nm = 'ac!%d' % CTX.n
        sr = radical(1 - v * v)
        CTX.atoms[nm] = (v, sr)
        val = z3.Real('ang_' + nm)
        CTX.angval[nm] = val
        CTX.angdefs[nm] = (v, sr)
        return SN(val, ({nm: Fraction(1)}, Fraction(0), 1))

    def arctan2(self, o):
        y, x = _toreal(self.e), _toreal(lift(o))
        h = radical(x * x + y * y)
        CTX.n += 1
        nm = 'at!%d' % CTX.n
        CTX.atoms[nm] = (x / h, y / h)
        CTX.defs[str(h)].append(h > 0)
        val = z3.Real('ang_' + nm)
        CTX.angval[nm] = val
        CTX.angdefs[nm] = (x, y)
        CTX.defs[str(val)] = [val > -180 * CTX.K, val <= 180 * CTX.K]       # principal value
        return SN(val, ({nm: Fraction(1)}, Fraction(0), 1))

    def arctan(self):
        return self.arctan2(1)

    def exp(self):
        g = z3.simplify(_toreal(self.e), som=True, sort_sums=True)
        key = g.sexpr()
        cache = CTX.__dict__.setdefault('expcache', {})
        if key in cache:
            return SN(cache[key])
        E = CTX.fresh('E')
        cache[key] = E
        CTX.exps[str(E)] = (E, g)
        CTX.defs[str(E)] = [E > 0]
        return SN(E)

    def log(self):
        return self._uf('log')

    def sqrt(self):
        return SN(radical(_toreal(self.e)))

    def hypot(self, o):
        a, b = _toreal(self.e), _toreal(lift(o))
        return SN(radical(a * a + b * b))

    def conjugate(self):
        return self

    def isfinite(self):
        return True

    def isnan(self):
        return False


def _floordiv_int(a, b):
    # python floor division on z3 Ints (z3 div is euclidean: differs for negative divisors)
    q = a / b
    return z3.If(b > 0, q, z3.If(a == b * q, q, q - 1)) if not (z3.is_int_value(b) and b.as_long() > 0) else q


_INF = float('inf')


def _defer(fn):
    name = fn.__name__
    iscmp = name in ('__lt__', '__le__', '__gt__', '__ge__', '__eq__', '__ne__')

    def w(s, o):
        if isinstance(o, real_np.ndarray):
            return NotImplemented
        if isinstance(o, (float, real_np.floating)) and o != o:
            # IEEE semantics of a NaN operand: comparisons are False (!= True), arithmetic gives NaN
            if iscmp:
                return name == '__ne__'
            return float('nan')
        if isinstance(o, (float, real_np.floating)) and o in (_INF, -_INF):
            # an infinite operand next to a finite symbolic value: sums/differences and comparisons are decided by the
            # sign of the infinity alone; products/quotients would need the sign of the symbolic value
            pos = o > 0
            if name in ('__add__', '__radd__', '__rsub__'):
                return float(o)
            if name == '__sub__':
                return -float(o)
            if name in ('__lt__', '__le__'):
                return bool(pos)
            if name in ('__gt__', '__ge__'):
                return not pos
            if name == '__eq__':
                return False
            if name == '__ne__':
                return True
            if name == '__truediv__':
                return SN(z3.RealVal(0))
            raise Unsupported('infinite constant in %s with a symbolic value' % name)
        return fn(s, o)
    w.__name__ = name
    return w


for _n in ['__add__', '__radd__', '__sub__', '__rsub__', '__mul__', '__rmul__', '__truediv__', '__rtruediv__',
           '__floordiv__', '__rfloordiv__', '__mod__', '__rmod__',
           '__lt__', '__le__', '__gt__', '__ge__', '__eq__', '__ne__']:
    setattr(SN, _n, _defer(getattr(SN, _n)))
SN.__hash__ = lambda self: self.e.hash()      # structural: equal terms are equal dictionary keys


def atoms(v):
    c = CTX
    if v not in c.atoms:
        cc, ss = z3.Real('c_' + v), z3.Real('s_' + v)
        c.atoms[v] = (cc, ss)
    return c.atoms[v]


def radical(p):
    c = CTX
    key = z3.simplify(p, som=True, sort_sums=True, mul_to_power=True)
    ks = key.sexpr()
    if ks not in c.rads:
        r = c.fresh('rad')
        c.rads[ks] = r
        c.radicand[str(r)] = key
        c.defs[str(r)] = [r >= 0, r * r == key]
    return c.rads[ks]


def exponential(base, x):
    c = CTX
    key = z3.simplify(x, som=True, sort_sums=True, mul_to_power=True)
    ks = '%r**%s' % (float(base), key.sexpr())
    pows = c.__dict__.setdefault('pows', {})
    if ks not in pows:
        r = c.fresh('pow')
        pows[ks] = r
        side = [r == 1] if base == 1 else ([z3.Implies(key >= 0, r >= 1), z3.Implies(key <= 0, r <= 1)] if base > 1 else [z3.Implies(key >= 0, r <= 1), z3.Implies(key <= 0, r >= 1)])
        c.defs[str(r)] = [r > 0] + side
    return pows[ks]


# ---- declared variables
def real(name):
    return SN(z3.Real(name))


def integer(name):
    return SN(z3.Int(name))


def boolean(name):
    return SB(z3.Bool(name))


def angle_deg(name):
    return SN(z3.Real(name), ({name: Fraction(1)}, Fraction(0), 0))


def angle_rad(name):
    return SN(z3.Real(name), ({name: Fraction(1)}, Fraction(0), 1))


# ---- symbolic-aware builtins to be patched into module globals
def sym_int(x, *a):
    if isinstance(x, SN):
        if x.is_int:
            return x
        fl = z3.ToInt(x.e)
        ce = -z3.ToInt(-x.e)
        return SN(z3.If(x.e >= 0, fl, ce))
    if isinstance(x, SB):
        return SN(z3.If(x.e, z3.IntVal(1), z3.IntVal(0)))
    if isinstance(x, str) and '\x00' in x:
        return sym_float(x)
    return builtins.int(x, *a)


def sym_float(x):
    if isinstance(x, SN):
        return SN(_toreal(x.e), x.ang)
    if isinstance(x, str) and '\x00' in x:
        return token_value(x)
    return builtins.float(x)


def sym_round(x, nd=None):
    if isinstance(x, SN):
        if nd is not None:
            # decimal rounding: the same fresh decimal a '.Nf' rendering of this value denotes
            return token_number(x, '.%df' % nd)
        if x.is_int:
            return x
        # python rounds half to even; ties are excluded/accepted both ways by the caller
        fl = z3.ToInt(x.e + z3.RealVal('1/2'))
        tie = (x.e + z3.RealVal('1/2') == z3.ToReal(fl))
        return SN(z3.If(z3.And(tie, fl % 2 != 0), fl - 1, fl))
    return builtins.round(x) if nd is None else builtins.round(x, nd)


def sym_abs(x):
    return x.__abs__() if isinstance(x, SN) else builtins.abs(x)


def _mm(args, pick_first_if):
    if len(args) == 1:
        args = list(args[0])
    if not any(isinstance(a, SN) for a in args):
        return None
    r = args[0]
    for a in args[1:]:
        ra, aa = _coerce(lift(r), lift(a))
        r = SN(z3.If(pick_first_if(ra, aa), ra, aa))
    return r


def sym_min(*args, **kw):
    r = _mm(args, lambda a, b: a <= b)
    return builtins.min(*args, **kw) if r is None else r


def sym_max(*args, **kw):
    r = _mm(args, lambda a, b: a >= b)
    return builtins.max(*args, **kw) if r is None else r


def sym_bool(x):
    return builtins.bool(x)


def sym_range(*args):
    if any(isinstance(a, SN) for a in args):
        raise Unsupported('range() over a symbolic bound')
    return builtins.range(*args)


class _IntMeta(type):
    def __instancecheck__(cls, o):
        return isinstance(o, builtins.int) or (isinstance(o, SN) and o.is_int)

    def __call__(cls, *a):
        return sym_int(*a)


class SymIntType(metaclass=_IntMeta):
    """stands for the builtin `int` in patched modules: callable like int(), usable in isinstance()"""


class _FloatMeta(type):
    def __instancecheck__(cls, o):
        return isinstance(o, builtins.float) or (isinstance(o, SN) and not o.is_int)

    def __call__(cls, *a):
        return sym_float(*a)


class SymFloatType(metaclass=_FloatMeta):
    """stands for the builtin `float` in patched modules"""


BUILTINS = dict(int=SymIntType, float=SymFloatType, round=sym_round, abs=sym_abs, min=sym_min, max=sym_max)


def token_value(x):
    """numeric value denoted by a string that is (sign +) one format token"""
    sign = 1
    x = x.strip()
    if x and x[0] in '+-':
        sign = -1 if x[0] == '-' else 1
        x = x[1:]
    if x not in CTX.tokens:
        raise Unsupported('cannot parse token string %r' % x)
    v, spec = CTX.tokens[x]
    r = token_number(v, spec)
    return r * sign if sign != 1 else r


def token_number(v, spec):
    """the number a reader of the printed text sees: an integer for 'd', a decimal with N places for '.Nf'"""
    if spec.endswith('d') or spec == '':
        return v
    if spec.endswith('f') and '.' in spec:
        nd = builtins.int(spec.split('.')[1][:-1])
        q = 10 ** nd
        key = ('tok', v.e.get_id(), nd)
        cache = CTX.__dict__.setdefault('tokcache', {})
        if key not in cache:
            r = CTX.fresh('pr')
            k = CTX.fresh('pk', 'int')
            CTX.assume(z3.And(r * q == z3.ToReal(k), r - _toreal(v.e) <= z3.RealVal(1) / (2 * q),
                              _toreal(v.e) - r <= z3.RealVal(1) / (2 * q)))
            cache[key] = SN(r)
        return cache[key]
    raise Unsupported('format spec %r' % spec)


# ----------------------------------------------------------------------------------------------
# exploration
# ----------------------------------------------------------------------------------------------
_VERIF_ROOT = os.path.dirname(os.path.dirname(os.path.abspath(__file__)))


def _mentions_harness_type(e):
    """a TypeError/AttributeError/ValueError whose message names a class defined by the harness ('SN', a stub, ...): library
    code was handed a symbolic stand-in it cannot digest (e.g. a new astype(float32)) -- the harness's limit, not a finding"""
    if not isinstance(e, (TypeError, AttributeError, ValueError)):
        return False
    import re
    names = set(re.findall(r"'([A-Za-z_][A-Za-z0-9_]*)'", str(e)))
    # a harness function standing in for a builtin (int -> sym_int, ...) handed to a library as if it were the builtin
    for fn_name in re.findall(r"<function ([A-Za-z_][A-Za-z0-9_.<>]*) at 0x", str(e)):
        base = fn_name.split('.')[-1]
        for m in list(sys.modules.values()):
            f = getattr(m, '__file__', None)
            if f and os.path.abspath(f).startswith(_VERIF_ROOT) and callable(getattr(m, base, None)):
                return True
    if not names:
        return False
    for m in list(sys.modules.values()):
        f = getattr(m, '__file__', None)
        if f and os.path.abspath(f).startswith(_VERIF_ROOT):
            for n in names:
                if isinstance(getattr(m, n, None), type):
                    return True
    if names & {'SN', 'SB'}:
        return True
    # classes defined inside harness functions: look at the objects travelling with the traceback
    tb = e.__traceback__
    while tb is not None:
        for v in list(tb.tb_frame.f_locals.values())[:200]:
            t = type(v)
            if t.__name__ in names and os.path.abspath(getattr(sys.modules.get(t.__module__), '__file__', '') or '').startswith(_VERIF_ROOT):
                return True
        tb = tb.tb_next
    return False


class Stats:
    def __init__(self):
        self.paths = 0
        self.queries = 0
        self.solver_s = 0.0
        self.unknown_forks = 0
        self.unsupported = []
        self.truncated = False
        self.wall = 0.0

    def add(self, o):
        self.paths += o.paths
        self.queries += o.queries
        self.solver_s += o.solver_s
        self.unknown_forks += o.unknown_forks
        self.unsupported += o.unsupported
        self.truncated = self.truncated or o.truncated


_DEADLINE = [None]


def _run_path(fn, trace):
    global CTX
    CTX = PathCtx(trace)
    c = CTX
    status = 'ok'
    out = None
    try:
        out = fn(c)
    except Cut as e:
        out = e.state
    except Unsupported as e:
        status = 'unsupported: %s' % e
    except Infeasible:
        status = 'infeasible'
        c.obligations = []
    except Exception as e:
        # an exception raised by the harness, a stub or a synthetic slice (not by the repository's own code) means the
        # code under test could not be executed in this form -- e.g. a refactor moved a statement out of the slice:
        # that path is inconclusive, not a crash.  Exceptions raised inside the repository's code propagate.
        tb, last = e.__traceback__, None
        while tb is not None:
            last = tb.tb_frame.f_code.co_filename
            tb = tb.tb_next
        if last and (last.startswith('<') or os.path.abspath(last).startswith(_VERIF_ROOT) or _mentions_harness_type(e)):
            status = 'unsupported: harness/slice not executable here: %s: %s' % (type(e).__name__, str(e)[:200])
            c.obligations = []
        else:
            raise
    return c, out, status


def _dfs(fn, start, max_paths, deadline, collect):
    _DEADLINE[0] = deadline
    stack = [list(start)]
    st = Stats()
    res = []
    while stack:
        if (max_paths and st.paths >= max_paths) or (deadline and time.time() > deadline):
            st.truncated = True
            break
        tr = stack.pop()
        c, out, status = _run_path(fn, tr)
        st.paths += 1
        st.queries += c.nq
        st.solver_s += c.solver_s
        st.unknown_forks += c.unknown_forks
        if status not in ('ok', 'infeasible'):
            st.unsupported.append((status, list(c.trace[:c.pos])))
        for i in range(len(tr), len(c.trace)):
            if c.trace[i] is True:
                stack.append(c.trace[:i] + [False])
            elif c.trace[i] == 'TU':
                stack.append(c.trace[:i] + ['FU'])
        for ob in c.obligations:
            ob.pop('__keep__', None)
            if ob.get('model'):
                ob['model'].pop('__z3model__', None)
        res.append(collect(c, out, status))
    return st, res, stack


_FN = None
_COLLECT = None


def _worker(args):
    start, max_paths, deadline = args
    st, res, rest = _dfs(_FN, start, max_paths, deadline, _COLLECT)
    if rest:
        st.truncated = True
    return st, res


def default_collect(c, out, status):
    return dict(out=out, status=status, obligations=c.obligations, trace=list(c.trace[:c.pos]), notes=c.notes)


def explore(fn, workers=1, max_paths=None, wall_s=None, collect=default_collect, split_at=None):
    """run fn(ctx) over every feasible decision trace. Returns (Stats, [collected per path])."""
    global _FN, _COLLECT
    t0 = time.time()
    deadline = t0 + wall_s if wall_s else None
    if workers <= 1:
        st, res, rest = _dfs(fn, [], max_paths, deadline, collect)
        if rest:
            st.truncated = True
        st.wall = time.time() - t0
        return st, res
    # seed: sequential expansion until enough open prefixes exist
    want = split_at or workers * 4
    stack = [[]]
    st = Stats()
    res = []
    while stack and len(stack) < want:
        tr = stack.pop(0)
        c, out, status = _run_path(fn, tr)
        st.paths += 1
        st.queries += c.nq
        st.solver_s += c.solver_s
        st.unknown_forks += c.unknown_forks
        if status != 'ok':
            st.unsupported.append((status, list(c.trace[:c.pos])))
        for i in range(len(tr), len(c.trace)):
            if c.trace[i] is True:
                stack.append(c.trace[:i] + [False])
            elif c.trace[i] == 'TU':
                stack.append(c.trace[:i] + ['FU'])
        for ob in c.obligations:
            if ob.get('model'):
                ob['model'].pop('__z3model__', None)
        res.append(collect(c, out, status))
    if stack:
        import multiprocessing as mp
        _FN, _COLLECT = fn, collect
        per = None
        if max_paths:
            per = max(1, (max_paths - st.paths) // max(1, len(stack)))
        with mp.get_context('fork').Pool(workers) as pool:
            for s2, r2 in pool.imap_unordered(_worker, [(p, per, deadline) for p in stack], chunksize=1):
                st.add(s2)
                res += r2
    st.wall = time.time() - t0
    return st, res


# ----------------------------------------------------------------------------------------------
# numeric evaluation of terms (executor validation: the encoding vs the real function in floats)
# ----------------------------------------------------------------------------------------------
def numeval(t, env, c=None):
    """evaluate a z3 arithmetic/boolean term in floats. env: base variable name -> float.
    Derived symbols (trig atoms, radicals, exp atoms, half angles, derived angles) are computed from their definitions."""
    c = c or CTX
    cache = {}

    def atom_angle(nm):
        # angle (radians) of a named angle variable
        if nm in c.angdefs:
            x, y = c.angdefs[nm]
            return math.atan2(ev(y), ev(x))
        return math.radians(env[nm]) if not env.get('__rad__', {}).get(nm) else env[nm]

    def sym(n):
        if n in env:
            return env[n]
        if n == 'K':
            return math.pi / 180
        if n.startswith('c_') or n.startswith('s_'):
            a = atom_angle(n[2:])
            return math.cos(a) if n[0] == 'c' else math.sin(a)
        if n in c.radicand:
            return math.sqrt(max(0.0, ev(c.radicand[n])))
        if n in c.exps:
            return math.exp(ev(c.exps[n][1]))
        if n in c.halfs:
            raise KeyError('half-angle symbol %s has a sign the evaluator cannot know' % n)
        if n.startswith('ang_'):
            return atom_angle(n[4:])
        raise KeyError(n)

    def ev(t):
        i = t.get_id()
        if i in cache:
            return cache[i]
        r = ev1(t)
        cache[i] = r
        return r

    def ev1(t):
        if z3.is_rational_value(t):
            return t.numerator_as_long() / t.denominator_as_long()
        if z3.is_int_value(t):
            return t.as_long()
        if z3.is_true(t):
            return True
        if z3.is_false(t):
            return False
        k = t.decl().kind()
        ch = t.children()
        if z3.is_const(t) and k == z3.Z3_OP_UNINTERPRETED:
            return sym(str(t))
        if k == z3.Z3_OP_ADD:
            return sum(ev(x) for x in ch)
        if k == z3.Z3_OP_MUL:
            r = 1
            for x in ch:
                r = r * ev(x)
            return r
        if k == z3.Z3_OP_SUB:
            r = ev(ch[0])
            for x in ch[1:]:
                r = r - ev(x)
            return r
        if k == z3.Z3_OP_UMINUS:
            return -ev(ch[0])
        if k == z3.Z3_OP_DIV:
            return ev(ch[0]) / ev(ch[1])
        if k == z3.Z3_OP_IDIV:
            a, b = ev(ch[0]), ev(ch[1])
            q = a // b
            return q if b > 0 or a == b * q else q  # euclidean for b<0 is rarely needed
        if k == z3.Z3_OP_MOD:
            return ev(ch[0]) % abs(ev(ch[1]))
        if k == z3.Z3_OP_POWER:
            return ev(ch[0]) ** ev(ch[1])
        if k == z3.Z3_OP_TO_REAL:
            return ev(ch[0])
        if k == z3.Z3_OP_TO_INT:
            return math.floor(ev(ch[0]))
        if k == z3.Z3_OP_ITE:
            return ev(ch[1]) if ev(ch[0]) else ev(ch[2])
        if k == z3.Z3_OP_LE:
            return ev(ch[0]) <= ev(ch[1])
        if k == z3.Z3_OP_LT:
            return ev(ch[0]) < ev(ch[1])
        if k == z3.Z3_OP_GE:
            return ev(ch[0]) >= ev(ch[1])
        if k == z3.Z3_OP_GT:
            return ev(ch[0]) > ev(ch[1])
        if k == z3.Z3_OP_EQ:
            return ev(ch[0]) == ev(ch[1])
        if k == z3.Z3_OP_DISTINCT:
            return ev(ch[0]) != ev(ch[1])
        if k == z3.Z3_OP_AND:
            return all(ev(x) for x in ch)
        if k == z3.Z3_OP_OR:
            return any(ev(x) for x in ch)
        if k == z3.Z3_OP_NOT:
            return not ev(ch[0])
        if k == z3.Z3_OP_XOR:
            return bool(ev(ch[0])) != bool(ev(ch[1]))
        if k == z3.Z3_OP_IMPLIES:
            return (not ev(ch[0])) or ev(ch[1])
        raise NotImplementedError(str(t.decl()))
    return ev(t)


# ----------------------------------------------------------------------------------------------
# many independent harnesses in parallel (each explored sequentially inside one worker)
# ----------------------------------------------------------------------------------------------
_PLANS = None


def _plan_worker(i):
    fn, kw = _PLANS[i]
    st, res = explore(fn, workers=1, **kw)
    return i, st, res


def explore_many(plans, workers=16):
    """plans: list of (fn, kwargs for explore). Returns list of (Stats, results) in plan order."""
    global _PLANS
    _PLANS = plans
    out = [None] * len(plans)
    if workers <= 1 or len(plans) <= 1:
        for i in range(len(plans)):
            _, st, res = _plan_worker(i)
            out[i] = (st, res)
        return out
    import multiprocessing as mp
    with mp.get_context('fork').Pool(min(workers, len(plans))) as pool:
        for i, st, res in pool.imap_unordered(_plan_worker, range(len(plans)), chunksize=1):
            out[i] = (st, res)
    return out


# ----------------------------------------------------------------------------------------------
# directions of angle-valued symbolic numbers
# ----------------------------------------------------------------------------------------------
def direction(sn, c=None):
    """unnormalised (cos-like, sin-like) direction of an angle-valued SN (degrees or radians) that is
    +-(one derived arctan2/arcsin angle) + k*90deg, or a linear form of declared angle variables"""
    c = c or CTX
    a = sn if sn.ang[2] == 1 else sn.radians()
    co = {k: v for k, v in a.ang[0].items() if v != 0}
    if len(co) == 1:
        (nm, n), = co.items()
        if nm in c.angdefs and n in (1, -1):
            x, y = c.angdefs[nm]
            if n == -1:
                y = -y
            k = a.ang[1]
            if k % 90 != 0:
                raise Unsupported('direction: constant %s' % k)
            cc, ss = [(1, 0), (0, 1), (-1, 0), (0, -1)][int(k // 90) % 4]
            return x * cc - y * ss, y * cc + x * ss
    r = a._cs()
    if r is None:
        raise Unsupported('direction of a non-angle value')
    return r
