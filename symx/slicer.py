"""AST slicer: build a synthetic function from the statements of a real function that match anchors.

Anchors are names / unparsed-target prefixes / call patterns, never line numbers. The enclosing control structure
(if/for/with/try) of a kept statement is kept with its test; everything else is dropped. Free variables become
parameters. A missing anchor raises AnchorMissing (the check reports INCONCLUSIVE anchor-missing, exit 0)."""
import ast
import os

from .loader import REPO


class AnchorMissing(Exception):
    pass


def get_function(relpath, func, cls=None):
    src = open(os.path.join(REPO, relpath)).read()
    tree = ast.parse(src)
    scope = tree
    if cls:
        cs = [n for n in ast.walk(tree) if isinstance(n, ast.ClassDef) and n.name == cls]
        if not cs:
            raise AnchorMissing('class %s not found in %s' % (cls, relpath))
        scope = cs[0]
    fs = [n for n in ast.walk(scope) if isinstance(n, (ast.FunctionDef,)) and n.name == func]
    if not fs:
        raise AnchorMissing('function %s not found in %s' % (func, relpath))
    return fs[0]


def _own_function(obj, relpath):
    code = getattr(obj, '__code__', None)
    return code is not None and os.path.realpath(code.co_filename) == os.path.realpath(os.path.join(REPO, relpath))


def module_env(relpath, glob):
    """namespace for executing a slice: the module-level helper functions and simple constants of the source file (so that
    a statement refactored into a helper still resolves), overlaid with the caller's stubs/proxies `glob` (which win).
    Definitions that cannot be evaluated in this namespace (imports missing, decorators, ...) are skipped."""
    tree = ast.parse(open(os.path.join(REPO, relpath)).read())
    ns = dict(glob)
    pending = [n for n in tree.body if (isinstance(n, ast.FunctionDef) and not n.decorator_list) or
               (isinstance(n, ast.Assign) and all(isinstance(t, ast.Name) for t in n.targets))]
    for _ in range(4):
        rest = []
        for n in pending:
            names = [n.name] if isinstance(n, ast.FunctionDef) else [t.id for t in n.targets]
            if any(k in glob and not _own_function(glob[k], relpath) for k in names):
                continue                      # the caller's stub wins (the module's own functions are re-made so that they see the stubs)
            mod = ast.Module(body=[n], type_ignores=[])
            try:
                exec(compile(mod, '<module helpers of %s>' % relpath, 'exec'), ns)
            except Exception:
                rest.append(n)
        if not rest or len(rest) == len(pending):
            break
        pending = rest
    return ns


def _targets(st):
    if isinstance(st, ast.Assign):
        out = []
        for t in st.targets:
            if isinstance(t, (ast.Tuple, ast.List)):
                out += [ast.unparse(e) for e in t.elts]
            else:
                out.append(ast.unparse(t))
        return out
    if isinstance(st, (ast.AugAssign, ast.AnnAssign)):
        return [ast.unparse(st.target)]
    if isinstance(st, ast.FunctionDef):
        return [st.name]
    if isinstance(st, ast.Delete):
        return ['del ' + ast.unparse(t) for t in st.targets]
    return []


def _matches(st, targets, calls, raises):
    hit = [a for t in _targets(st) for a in targets if t == a or (a.endswith('*') and t.startswith(a[:-1]))]
    if hit:
        return hit
    if isinstance(st, ast.Raise) and raises and (raises is True or raises in ast.unparse(st)):
        return 'raise'
    if isinstance(st, ast.Return) and 'return' in targets:
        return 'return'
    if isinstance(st, ast.Expr) and calls:
        u = ast.unparse(st.value)
        for cpat in calls:
            if cpat in u:
                return cpat
    return None


def functions_of(relpath):
    tree = ast.parse(open(os.path.join(REPO, relpath)).read())
    return [n for n in tree.body if isinstance(n, ast.FunctionDef)]


def slice_function(relpath, func, targets, params, cls=None, calls=(), raises=False, returns=None, name='sliced', verbose=False, flatten_loops=False, closure=True, closure_exclude=None,
                   search=False, optional_calls=False):
    """returns (callable_factory, source_text). callable_factory(globals_dict) -> function(*params)
    search: if the anchors are not in `func`, take the first other module-level function that has them all (a statement moved
    into a helper keeps its names more often than its place).  optional_calls: call anchors that are missing are dropped."""
    try:
        return _slice_function(relpath, func, targets, params, cls, calls, raises, returns, name, verbose, flatten_loops, closure, closure_exclude)
    except AnchorMissing as first:
        if optional_calls and calls:
            try:
                return _slice_function(relpath, func, targets, params, cls, (), raises, returns, name, verbose, flatten_loops, closure, closure_exclude)
            except AnchorMissing:
                pass
        if search and cls is None:
            for f in functions_of(relpath):
                if f.name == func:
                    continue
                try:
                    return _slice_function(relpath, f.name, targets, params, None, calls, raises, returns, name, verbose, flatten_loops, closure, closure_exclude)
                except AnchorMissing:
                    continue
        raise first


def _slice_function(relpath, func, targets, params, cls=None, calls=(), raises=False, returns=None, name='sliced', verbose=False, flatten_loops=False, closure=True, closure_exclude=None):
    f = get_function(relpath, func, cls)
    found = set()

    def prune(stmts):
        out = []
        for st in stmts:
            m = _matches(st, targets, calls, raises)
            if m:
                found.update(m if isinstance(m, list) else [m])
                out.append(st)
                continue
            if isinstance(st, ast.If):
                b = prune(st.body)
                o = prune(st.orelse)
                if b or o:
                    out.append(ast.If(test=st.test, body=b or [ast.Pass()], orelse=o))
            elif isinstance(st, (ast.For, ast.While)):
                b = prune(st.body)
                if b and flatten_loops:
                    out += b
                elif b:
                    n = ast.For(target=st.target, iter=st.iter, body=b, orelse=[]) if isinstance(st, ast.For) else ast.While(test=st.test, body=b, orelse=[])
                    out.append(n)
            elif isinstance(st, ast.With):
                out += prune(st.body)
            elif isinstance(st, ast.Try):
                out += prune(st.body)
        return out
    if closure_exclude is None:
        closure_exclude = tuple(params)
    if closure:
        # backward slice on names: keep every assignment to a name that a kept statement reads (transitively)
        targets = list(targets)
        for _ in range(50):
            found.clear()
            body = prune(f.body)
            used = set()

            def collect(node, local):
                if isinstance(node, ast.FunctionDef):
                    loc = set(local) | {a.arg for a in node.args.args}
                    for sub in ast.walk(node):
                        if isinstance(sub, ast.Name) and isinstance(sub.ctx, ast.Store):
                            loc.add(sub.id)
                    for ch in node.body:
                        collect(ch, loc)
                    return
                if isinstance(node, ast.Name) and isinstance(node.ctx, ast.Load) and node.id not in local:
                    used.add(node.id)
                for ch in ast.iter_child_nodes(node):
                    collect(ch, local)
            for st in body:
                collect(st, set())
            assigned = set()
            for n in ast.walk(f):
                for t in _targets(n) if isinstance(n, (ast.Assign, ast.AugAssign, ast.AnnAssign)) else []:
                    assigned.add(t)
            new = [u for u in used if u in assigned and u not in targets and u not in closure_exclude]
            if not new:
                break
            targets += new
    body = prune(f.body)
    missing = [a for a in list(targets) + list(calls) if a not in found and a != 'return']
    if missing:
        raise AnchorMissing('%s.%s: no statement matches anchor(s) %s' % (relpath, func, missing))
    if returns is not None:
        body.append(ast.Return(value=ast.Tuple(elts=[ast.parse(r, mode='eval').body for r in returns], ctx=ast.Load())))
    new = ast.FunctionDef(name=name, args=ast.arguments(posonlyargs=[], args=[ast.arg(arg=p) for p in params], kwonlyargs=[], kw_defaults=[], defaults=[]),
                          body=body, decorator_list=[], type_params=[])
    mod = ast.Module(body=[new], type_ignores=[])
    ast.fix_missing_locations(mod)
    text = ast.unparse(mod)
    if verbose:
        print(text)
    code = compile(mod, '<slice of %s:%s>' % (relpath, func), 'exec')

    def factory(glob):
        ns = module_env(relpath, glob)
        exec(code, ns)
        return ns[name]
    return factory, text


def find_calls(relpath, func, attr, cls=None):
    """all Call nodes inside func whose function is an attribute/name called `attr`"""
    f = get_function(relpath, func, cls)
    out = []
    for n in ast.walk(f):
        if isinstance(n, ast.Call):
            nm = n.func.attr if isinstance(n.func, ast.Attribute) else (n.func.id if isinstance(n.func, ast.Name) else None)
            if nm == attr:
                out.append(n)
    return out


def find_if_test(relpath, func, mentions, cls=None):
    """the test expression of the first `if` inside func whose source mentions all the given substrings -> (code, text)"""
    f = get_function(relpath, func, cls)
    for n in ast.walk(f):
        if isinstance(n, ast.If):
            u = ast.unparse(n.test)
            if all(m in u for m in mentions):
                expr = ast.Expression(body=n.test)
                ast.fix_missing_locations(expr)
                return compile(expr, '<if-test of %s:%s>' % (relpath, func), 'eval'), u, n
    raise AnchorMissing('%s.%s: no if-test mentions %s' % (relpath, func, mentions))


def names_by_role(relpath, func, role, cls=None):
    """discover anchor names by the role they play instead of by spelling.
    role 'interp-axes': the two names handed as the grid axes to RegularGridInterpolator((rows, cols), ...)
    role 'section-rows': (lower, upper) names of the row slice of the first `.section[...]` subscript"""
    f = get_function(relpath, func, cls)
    if role == 'interp-axes':
        for n in ast.walk(f):
            if isinstance(n, ast.Call) and (getattr(n.func, 'id', None) == 'RegularGridInterpolator' or getattr(n.func, 'attr', None) == 'RegularGridInterpolator'):
                a = n.args[0] if n.args else None
                if isinstance(a, ast.Tuple) and len(a.elts) == 2 and all(isinstance(e, ast.Name) for e in a.elts):
                    return a.elts[0].id, a.elts[1].id
    if role == 'section-rows':
        for n in ast.walk(f):
            if isinstance(n, ast.Subscript) and isinstance(n.value, ast.Attribute) and n.value.attr == 'section':
                sl = n.slice.elts if isinstance(n.slice, ast.Tuple) else [n.slice]
                for e in sl:
                    if isinstance(e, ast.Slice) and isinstance(e.lower, ast.Name) and isinstance(e.upper, ast.Name):
                        return e.lower.id, e.upper.id
    return None
