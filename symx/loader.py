"""load the AegeanTools source from REPO_ROOT's working tree: (a) as the real package for replays,
(b) as a private copy whose module globals are patched with symbolic-aware builtins / numpy proxy / stubs."""
import importlib
import importlib.util
import os
import sys
import types
import logging

import numpy as real_np
import z3

from . import core
from .core import SN, SB

REPO = os.environ.get('REPO_ROOT', '/repo')
builtins_abs = abs
MODS = ['angle_tools', 'flags', 'exceptions', 'fits_tools', 'wcs_helpers', 'models', 'catalogs', 'regions',
        'fitting', 'cluster', 'BANE', 'MIMAS', 'AeRes', 'source_finder', 'msq2']


def real_package():
    """import the real package from the working tree (never from site-packages)"""
    if REPO not in sys.path:
        sys.path.insert(0, REPO)
    import AegeanTools
    p = os.path.dirname(os.path.abspath(AegeanTools.__file__))
    if not p.startswith(os.path.abspath(REPO)):
        raise core.HarnessError('AegeanTools imported from %s, not from %s' % (p, REPO))
    return AegeanTools


def real(name):
    real_package()
    return importlib.import_module('AegeanTools.' + name)


_private_n = 0


def load_private(mods=None, alias=None):
    """a fresh copy of the package from source; returns {name: module}. The real package stays importable."""
    global _private_n
    _private_n += 1
    alias = alias or 'symrepo%d' % _private_n
    root = os.path.join(REPO, 'AegeanTools')
    saved = {k: v for k, v in sys.modules.items() if k == 'AegeanTools' or k.startswith('AegeanTools.')}
    for k in saved:
        del sys.modules[k]
    try:
        spec = importlib.util.spec_from_file_location('AegeanTools', root + '/__init__.py', submodule_search_locations=[root])
        pkg = importlib.util.module_from_spec(spec)
        sys.modules['AegeanTools'] = pkg
        spec.loader.exec_module(pkg)
        out = {}
        for name in (mods or MODS):
            out[name] = importlib.import_module('AegeanTools.' + name)
        priv = {k: v for k, v in sys.modules.items() if k == 'AegeanTools' or k.startswith('AegeanTools.')}
    finally:
        for k in [k for k in sys.modules if k == 'AegeanTools' or k.startswith('AegeanTools.')]:
            del sys.modules[k]
        sys.modules.update(saved)
    for k, v in priv.items():
        sys.modules[k.replace('AegeanTools', alias, 1)] = v
    return out


def load_file(relpath, name, extra=None):
    """one module from a source file, independent of the package (for stdlib/numpy-only modules)"""
    path = os.path.join(REPO, relpath)
    spec = importlib.util.spec_from_file_location(name, path)
    m = importlib.util.module_from_spec(spec)
    sys.modules[name] = m
    spec.loader.exec_module(m)
    for k, v in (extra or {}).items():
        setattr(m, k, v)
    return m


def source(relpath):
    return open(os.path.join(REPO, relpath)).read()


# ----------------------------------------------------------------------------------------------
# numpy proxy
# ----------------------------------------------------------------------------------------------
def _has_sym(a):
    if isinstance(a, (SN, SB)):
        return True
    if isinstance(a, real_np.ndarray) and a.dtype == object:
        return any(isinstance(v, (SN, SB)) for v in a.flat)
    if isinstance(a, (list, tuple)):
        return any(_has_sym(v) for v in a)
    return False


def _map(a, f, dtype=object):
    if isinstance(a, real_np.ndarray):
        out = real_np.empty(a.shape, dtype=dtype)
        for idx, v in real_np.ndenumerate(a):
            out[idx] = f(v)
        return out
    if isinstance(a, (list, tuple)):
        return _map(real_np.array(a, dtype=object), f, dtype)
    return f(a)


class _GridProxy:
    """np.mgrid/ogrid whose slice bounds may be symbolic integers (concretised by bounded case split)"""
    def __init__(self, g):
        self.g = g

    def __getitem__(self, key):
        def conc(v):
            return v.__index__() if isinstance(v, SN) else v

        def cs(k):
            return slice(conc(k.start), conc(k.stop), conc(k.step)) if isinstance(k, slice) else k
        if isinstance(key, tuple):
            return self.g[tuple(cs(k) for k in key)]
        return self.g[cs(key)]


class _UfuncProxy:
    def __init__(self, uf, symop):
        self.uf = uf
        self.symop = symop

    def __call__(self, a, b, *args, **kw):
        if _has_sym(a) or _has_sym(b):
            a2, b2 = real_np.broadcast_arrays(real_np.asarray(a, dtype=object), real_np.asarray(b, dtype=object))
            out = real_np.empty(a2.shape, dtype=object)
            for idx in real_np.ndindex(a2.shape):
                out[idx] = SB(self.symop(core.lb(a2[idx]), core.lb(b2[idx])))
            return out if out.shape else out[()]
        return self.uf(a, b, *args, **kw)

    def __getattr__(self, n):
        return getattr(self.uf, n)


class NPProxy:
    """thin proxy over numpy: functions that do not dispatch to methods on foreign scalars are overridden"""
    def __init__(self, **over):
        self._over = over

    def __getattr__(self, n):
        if n in self._over:
            return self._over[n]
        return getattr(real_np, n)

    @property
    def pi(self):
        if self._over.get('sym_pi'):
            # pi as 180*K with the angle form "180 degrees, in radians" (K = pi/180 symbolic)
            from fractions import Fraction
            return SN(180 * core.CTX.K, ({}, Fraction(180), 1))
        return real_np.pi

    @property
    def mgrid(self):
        return _GridProxy(real_np.mgrid)

    @property
    def ogrid(self):
        return _GridProxy(real_np.ogrid)

    # -- predicates
    def isfinite(self, a):
        if _has_sym(a):
            return _map(a, lambda v: True if isinstance(v, SN) else bool(real_np.isfinite(v)), dtype=bool)
        return real_np.isfinite(a)

    def isnan(self, a):
        if _has_sym(a):
            return _map(a, lambda v: False if isinstance(v, SN) else bool(real_np.isnan(v)), dtype=bool)
        return real_np.isnan(a)

    def nan_to_num(self, a, *args, **kw):
        if _has_sym(a):
            return _map(a, lambda v: v if isinstance(v, SN) else (0.0 if v != v else v))
        return real_np.nan_to_num(a, *args, **kw)

    def ceil(self, a):
        if _has_sym(a):
            return _map(a, lambda v: v.ceil() if isinstance(v, SN) else real_np.ceil(v))
        return real_np.ceil(a)

    def floor(self, a):
        if _has_sym(a):
            return _map(a, lambda v: v.floor() if isinstance(v, SN) else real_np.floor(v))
        return real_np.floor(a)

    def abs(self, a):
        if _has_sym(a):
            return _map(a, lambda v: abs(v))
        return real_np.abs(a)
    fabs = abs
    absolute = abs

    def sign(self, a):
        if _has_sym(a):
            return _map(a, lambda v: SN(z3.If(v.e > 0, 1, z3.If(v.e < 0, -1, 0))) if isinstance(v, SN) else real_np.sign(v))
        return real_np.sign(a)

    def where(self, c, *xy):
        if _has_sym(c) or any(_has_sym(v) for v in xy):
            if len(xy) != 2:
                raise core.Unsupported('np.where(cond) with symbolic cond')
            c2, x, y = real_np.broadcast_arrays(real_np.asarray(c, dtype=object), real_np.asarray(xy[0], dtype=object), real_np.asarray(xy[1], dtype=object))
            out = real_np.empty(c2.shape, dtype=object)
            for idx in real_np.ndindex(c2.shape):
                out[idx] = ite(c2[idx], x[idx], y[idx])
            return out if out.shape else out[()]
        return real_np.where(c, *xy)

    def any(self, a, *args, **kw):
        if _has_sym(a):
            vals = list(real_np.asarray(a, dtype=object).flat)
            if not vals:
                return False
            return SB(z3.Or([core.lb(v) for v in vals]))
        return real_np.any(a, *args, **kw)

    def all(self, a, *args, **kw):
        if _has_sym(a):
            vals = list(real_np.asarray(a, dtype=object).flat)
            return SB(z3.And([core.lb(v) for v in vals]))
        return real_np.all(a, *args, **kw)

    def logical_not(self, a):
        if _has_sym(a):
            return _map(a, lambda v: ~v if isinstance(v, SB) else (not v))
        return real_np.logical_not(a)
    bitwise_not = logical_not

    @property
    def logical_and(self):
        return _UfuncProxy(real_np.logical_and, lambda x, y: z3.And(x, y))

    @property
    def logical_or(self):
        return _UfuncProxy(real_np.logical_or, lambda x, y: z3.Or(x, y))

    def sum(self, a, *args, **kw):
        if _has_sym(a) and not args and not kw:
            r = 0
            for v in real_np.asarray(a, dtype=object).flat:
                r = r + v
            return r
        return real_np.sum(a, *args, **kw)
    nansum = sum

    def mean(self, a, *args, **kw):
        if _has_sym(a) and not args and not kw:
            vals = list(real_np.asarray(a, dtype=object).flat)
            return self.sum(a) / len(vals)
        return real_np.mean(a, *args, **kw)
    nanmean = mean

    def std(self, a, *args, **kw):
        if _has_sym(a) and not args and not kw:
            vals = list(real_np.asarray(a, dtype=object).flat)
            m = self.mean(a)
            v = 0
            for x in vals:
                v = v + (x - m) * (x - m)
            v = v / len(vals)
            return v.sqrt() if isinstance(v, SN) else real_np.sqrt(v)
        return real_np.std(a, *args, **kw)
    nanstd = std

    def minimum(self, a, b):
        if _has_sym(a) or _has_sym(b):
            return core.sym_min(a, b)
        return real_np.minimum(a, b)

    def maximum(self, a, b):
        if _has_sym(a) or _has_sym(b):
            return core.sym_max(a, b)
        return real_np.maximum(a, b)

    def min(self, a, *args, **kw):
        if _has_sym(a):
            return core.sym_min(list(real_np.asarray(a, dtype=object).flat))
        return real_np.min(a, *args, **kw)
    amin = min

    def max(self, a, *args, **kw):
        if _has_sym(a):
            return core.sym_max(list(real_np.asarray(a, dtype=object).flat))
        return real_np.max(a, *args, **kw)
    amax = max

    def nanmin(self, a, *args, **kw):
        if _has_sym(a):
            vals = [v for v in real_np.asarray(a, dtype=object).flat if not _isnanf(v)]
            return core.sym_min(vals) if len(vals) > 1 else vals[0]
        return real_np.nanmin(a, *args, **kw)

    def nanmax(self, a, *args, **kw):
        if _has_sym(a):
            vals = [v for v in real_np.asarray(a, dtype=object).flat if not _isnanf(v)]
            return core.sym_max(vals) if len(vals) > 1 else vals[0]
        return real_np.nanmax(a, *args, **kw)

    def _argext(self, a, better):
        flat = list(real_np.asarray(a, dtype=object).flat)
        best = None
        for i, v in enumerate(flat):
            if _isnanf(v):
                continue
            if best is None or bool(better(v, flat[best])):      # strict: first extremum wins, like numpy
                best = i
        if best is None:
            raise ValueError('All-NaN slice encountered')
        return best

    def nanargmax(self, a, *args, **kw):
        if _has_sym(a):
            return self._argext(a, lambda v, b: v > b)
        return real_np.nanargmax(a, *args, **kw)
    argmax = nanargmax

    def nanargmin(self, a, *args, **kw):
        if _has_sym(a):
            return self._argext(a, lambda v, b: v < b)
        return real_np.nanargmin(a, *args, **kw)
    argmin = nanargmin

    def isclose(self, a, b, rtol=1e-05, atol=1e-08, equal_nan=False):
        if _has_sym(a) or _has_sym(b):
            # numpy's definition: |a - b| <= atol + rtol * |b|
            a2, b2 = real_np.broadcast_arrays(real_np.asarray(a, dtype=object), real_np.asarray(b, dtype=object))
            out = real_np.empty(a2.shape, dtype=object)
            for idx in real_np.ndindex(a2.shape):
                x, y = a2[idx], b2[idx]
                d = x - y
                out[idx] = (abs(d) if isinstance(d, SN) else builtins_abs(d)) <= (abs(y) * rtol + atol)
            return out if out.shape else out[()]
        return real_np.isclose(a, b, rtol=rtol, atol=atol, equal_nan=equal_nan)

    def clip(self, a, lo, hi):
        if _has_sym(a) or _has_sym(lo) or _has_sym(hi):
            return core.sym_min(core.sym_max(a, lo), hi)
        return real_np.clip(a, lo, hi)

    def array(self, a, *args, **kw):
        dtype = kw.get('dtype', args[0] if args else None)
        if _has_sym(a) and dtype not in (None, object):
            if dtype is bool:
                return _map(real_np.asarray(a, dtype=object), lambda v: bool(v != 0) if isinstance(v, SN) else bool(v), dtype=bool)
            kw = dict(kw)
            kw.pop('dtype', None)
            return real_np.array(a, dtype=object, **kw)
        return real_np.array(a, *args, **kw)

    def asarray(self, a, *args, **kw):
        if _has_sym(a):
            return real_np.asarray(a, dtype=object)
        return real_np.asarray(a, *args, **kw)



def _isnanf(v):
    return isinstance(v, (float, real_np.floating)) and v != v


def ite(c, x, y):
    if isinstance(c, SB):
        if _isnanf(x) or _isnanf(y):
            return x if bool(c) else y      # a blank on one side: fork
        if not isinstance(x, (SN, SB)) and not isinstance(y, (SN, SB)) and not (core.isnum(x) and core.isnum(y)):
            return x if bool(c) else y
        if isinstance(x, SB) or isinstance(y, SB) or isinstance(x, (bool, real_np.bool_)):
            return SB(z3.If(c.e, core.lb(x), core.lb(y)))
        a, b = core._coerce(core.lift(x), core.lift(y))
        return SN(z3.If(c.e, a, b))
    return x if c else y


class MathProxy:
    def __getattr__(self, n):
        import math
        f = getattr(math, n)
        if not callable(f):
            return f

        def w(*a):
            if a and isinstance(a[0], SN):
                if n == 'atan2':
                    return a[0].arctan2(a[1])
                m = {'asin': 'arcsin', 'acos': 'arccos', 'atan': 'arctan', 'fabs': '__abs__'}.get(n, n)
                return getattr(a[0], m)(*a[1:])
            if len(a) > 1 and isinstance(a[1], SN):
                if n == 'atan2':
                    return SN(core.lift(a[0])).arctan2(a[1])
                if n == 'hypot':
                    return a[1].hypot(a[0])
            return f(*a)
        return w


class NullLog:
    def __getattr__(self, n):
        return lambda *a, **k: None


def patch(mod, np=True, math=True, builtins=True, log=True, extra=None):
    if np and hasattr(mod, 'np'):
        mod.np = np if isinstance(np, NPProxy) else NPProxy()
    if np and hasattr(mod, 'numpy'):
        mod.numpy = mod.np
    if math and hasattr(mod, 'math'):
        mod.math = MathProxy()
    if builtins:
        for k, v in core.BUILTINS.items():
            setattr(mod, k, v)
    if log:
        for nm in ('log', 'logger', 'logging'):
            if hasattr(mod, nm) and nm != 'logging':
                setattr(mod, nm, NullLog())
    for k, v in (extra or {}).items():
        setattr(mod, k, v)
    return mod
