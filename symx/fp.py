"""bit-precise mode for the rounding-sensitive integer kernels (C20 band rows, C07 stripe width):
python ints as 32-bit signed bit-vectors (value ranges are asserted small enough never to wrap),
python floats as IEEE Float64 with round-to-nearest-even, int() as round-toward-zero."""
import builtins

import z3

from .core import SB

W = 32
RNE = z3.RNE()
F64 = z3.Float64()


def bv(o):
    if isinstance(o, FInt):
        return o.bv
    if isinstance(o, bool):
        return z3.BitVecVal(int(o), W)
    if isinstance(o, int):
        return z3.BitVecVal(o, W)
    raise TypeError('not an int: %r' % (o,))


def fpv(o):
    if isinstance(o, FFloat):
        return o.fp
    if isinstance(o, FInt):
        return o.tofp()
    if isinstance(o, (int, float)):
        return z3.FPVal(float(o), F64)
    raise TypeError(o)


class FInt:
    def __init__(self, b):
        self.bv = b

    def tofp(self):
        return z3.fpSignedToFP(RNE, self.bv, F64)

    def __add__(self, o):
        if isinstance(o, (FFloat, float)):
            return FFloat(self.tofp()) + o
        return FInt(self.bv + bv(o))
    __radd__ = __add__

    def __sub__(self, o):
        if isinstance(o, (FFloat, float)):
            return FFloat(self.tofp()) - o
        return FInt(self.bv - bv(o))

    def __rsub__(self, o):
        if isinstance(o, float):
            return FFloat(z3.FPVal(o, F64)) - self
        return FInt(bv(o) - self.bv)

    def __neg__(self):
        return FInt(-self.bv)

    def __mul__(self, o):
        if isinstance(o, (FFloat, float)):
            return FFloat(self.tofp()) * o
        return FInt(self.bv * bv(o))
    __rmul__ = __mul__

    def __truediv__(self, o):
        return FFloat(z3.fpDiv(RNE, self.tofp(), fpv(o)))

    def __rtruediv__(self, o):
        return FFloat(z3.fpDiv(RNE, fpv(o), self.tofp()))

    def __floordiv__(self, o):
        if isinstance(o, (FFloat, float)):
            raise TypeError('float floor division not modelled')
        a, b = self.bv, bv(o)
        q = a / b      # signed, truncating
        r = z3.SRem(a, b)
        adj = z3.And(r != 0, (r < 0) != (b < 0))
        return FInt(z3.If(adj, q - 1, q))

    def __rfloordiv__(self, o):
        return FInt(bv(o)).__floordiv__(self)

    def __mod__(self, o):
        a, b = self.bv, bv(o)
        r = z3.SRem(a, b)
        adj = z3.And(r != 0, (r < 0) != (b < 0))
        return FInt(z3.If(adj, r + b, r))

    def __rmod__(self, o):
        return FInt(bv(o)).__mod__(self)

    def __divmod__(self, o):
        return self.__floordiv__(o), self.__mod__(o)

    def __rdivmod__(self, o):
        return self.__rfloordiv__(o), self.__rmod__(o)

    def _cmp(self, o, iop, fop):
        if isinstance(o, (FFloat, float)):
            return SB(fop(self.tofp(), fpv(o)))
        return SB(iop(self.bv, bv(o)))

    def __lt__(self, o):
        return self._cmp(o, lambda a, b: a < b, z3.fpLT)

    def __le__(self, o):
        return self._cmp(o, lambda a, b: a <= b, z3.fpLEQ)

    def __gt__(self, o):
        return self._cmp(o, lambda a, b: a > b, z3.fpGT)

    def __ge__(self, o):
        return self._cmp(o, lambda a, b: a >= b, z3.fpGEQ)

    def __eq__(self, o):
        return self._cmp(o, lambda a, b: a == b, z3.fpEQ)

    def __ne__(self, o):
        return self._cmp(o, lambda a, b: a != b, lambda a, b: z3.Not(z3.fpEQ(a, b)))

    def __hash__(self):
        return id(self)

    def __index__(self):
        raise TypeError('symbolic int used as an index')

    def __repr__(self):
        return 'FInt(%s)' % self.bv

    def __format__(self, spec):
        return '<int>'


class FFloat:
    def __init__(self, fp):
        self.fp = fp

    def __add__(self, o):
        return FFloat(z3.fpAdd(RNE, self.fp, fpv(o)))
    __radd__ = __add__

    def __sub__(self, o):
        return FFloat(z3.fpSub(RNE, self.fp, fpv(o)))

    def __rsub__(self, o):
        return FFloat(z3.fpSub(RNE, fpv(o), self.fp))

    def __mul__(self, o):
        return FFloat(z3.fpMul(RNE, self.fp, fpv(o)))
    __rmul__ = __mul__

    def __truediv__(self, o):
        return FFloat(z3.fpDiv(RNE, self.fp, fpv(o)))

    def __rtruediv__(self, o):
        return FFloat(z3.fpDiv(RNE, fpv(o), self.fp))

    def __neg__(self):
        return FFloat(z3.fpNeg(self.fp))

    def _cmp(self, o, fop):
        return SB(fop(self.fp, fpv(o)))

    def __lt__(self, o):
        return self._cmp(o, z3.fpLT)

    def __le__(self, o):
        return self._cmp(o, z3.fpLEQ)

    def __gt__(self, o):
        return self._cmp(o, z3.fpGT)

    def __ge__(self, o):
        return self._cmp(o, z3.fpGEQ)

    def __hash__(self):
        return id(self)

    def __format__(self, spec):
        return '<float>'


def fp_int(x, *a):
    if isinstance(x, FFloat):
        return FInt(z3.fpToSBV(z3.RTZ(), x.fp, z3.BitVecSort(W)))
    if isinstance(x, FInt):
        return x
    return builtins.int(x, *a)


def fp_float(x):
    if isinstance(x, FInt):
        return FFloat(x.tofp())
    if isinstance(x, FFloat):
        return x
    return builtins.float(x)


def fp_round(x, nd=None):
    if isinstance(x, FFloat):
        return FInt(z3.fpToSBV(RNE, x.fp, z3.BitVecSort(W)))    # python round(): half to even
    if isinstance(x, FInt):
        return x
    return builtins.round(x) if nd is None else builtins.round(x, nd)


def _mm(args, ge):
    if len(args) == 1:
        args = list(args[0])
    if not any(isinstance(a, (FInt, FFloat)) for a in args):
        return None
    r = args[0]
    for a in args[1:]:
        if isinstance(r, (FFloat, float)) or isinstance(a, (FFloat, float)):
            fa, fb = fpv(r), fpv(a)
            r = FFloat(z3.If((z3.fpGEQ if ge else z3.fpLEQ)(fa, fb), fa, fb))
        else:
            ba, bb = bv(r), bv(a)
            r = FInt(z3.If((ba >= bb) if ge else (ba <= bb), ba, bb))
    return r


def fp_max(*args, **kw):
    r = _mm(args, True)
    return builtins.max(*args, **kw) if r is None else r


def fp_min(*args, **kw):
    r = _mm(args, False)
    return builtins.min(*args, **kw) if r is None else r


def fp_abs(x):
    if isinstance(x, FInt):
        return FInt(z3.If(x.bv >= 0, x.bv, -x.bv))
    if isinstance(x, FFloat):
        return FFloat(z3.fpAbs(x.fp))
    return builtins.abs(x)


def fp_isinstance(o, t):
    if isinstance(o, FInt):
        return t is int or (isinstance(t, tuple) and int in t)
    if isinstance(o, FFloat):
        return t is float or (isinstance(t, tuple) and float in t)
    return builtins.isinstance(o, t)


BUILTINS = dict(int=fp_int, float=fp_float, round=fp_round, max=fp_max, min=fp_min, abs=fp_abs, isinstance=fp_isinstance)


def ivar(name):
    return FInt(z3.BitVec(name, W))
