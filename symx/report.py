"""evidence, known findings, VIOLATION / KNOWN-FINDING lines, exit codes (0 held, 1 violation, 2 harness error)"""
import hashlib
import json
import os
import re
import sys
import time
import traceback

VERIF = os.path.dirname(os.path.dirname(os.path.abspath(__file__)))
REPO = os.environ.get('REPO_ROOT', '/repo')


def jsonable(o):
    from fractions import Fraction
    if isinstance(o, dict):
        return {str(k): jsonable(v) for k, v in o.items() if k != '__z3model__'}
    if isinstance(o, (list, tuple, set)):
        return [jsonable(v) for v in o]
    if isinstance(o, Fraction):
        return str(o) if o.denominator != 1 else int(o)
    if isinstance(o, (int, float, str, bool)) or o is None:
        if isinstance(o, float) and (o != o or o in (float('inf'), float('-inf'))):
            return str(o)
        return o
    try:
        import numpy as np
        if isinstance(o, np.generic):
            return jsonable(o.item())
        if isinstance(o, np.ndarray):
            return jsonable(o.tolist())
    except Exception:
        pass
    return str(o)


def sha1_of(path):
    try:
        return hashlib.sha1(open(path, 'rb').read()).hexdigest()
    except Exception:
        return None


def load_known():
    p = os.path.join(VERIF, 'known_findings.json')
    if not os.path.exists(p):
        return {'open': [], 'fixed': []}
    return json.load(open(p))


class Report:
    def __init__(self, pid, tier, seed):
        self.pid = pid
        self.tier = tier
        self.seed = seed
        self.t0 = time.time()
        self.kernels = {}
        self.order = []
        self.violations = []      # reproduced, not known
        self.known_hits = []      # reproduced, listed open
        self.inconclusive = []
        self.harness_errors = []
        self.samples = []
        self.functions = {}
        self.assumptions = []
        self.paths = 0
        self.queries = 0
        self.solver_s = 0.0
        self.replays = 0
        self.validated = 0
        self.known = load_known()
        self.not_decided = []
        self.cur = None

    # ---- bookkeeping
    def kernel(self, name, functions=(), bounds='', stubs=(), assumes=(), outside=()):
        k = self.kernels.get(name)
        if k is None:
            k = dict(name=name, functions=list(functions), bounds=bounds, stubs=list(stubs), assumes=list(assumes),
                     outside=list(outside), obligations=0, unsat=0, sat=0, unknown=0, vacuous=0,
                     sat_reproduced=0, sat_not_reproduced=0, paths=0, queries=0, solver_s=0.0, wall_s=0.0,
                     unsupported_paths=0, truncated=False, distinct=set())
            self.kernels[name] = k
            self.order.append(name)
        self.cur = k
        k['_t'] = time.time()
        for f in functions:
            fn = f.split(':')[0]
            path = os.path.join(REPO, fn)
            if os.path.exists(path):
                self.functions[fn] = sha1_of(path)
        return k

    def end_kernel(self):
        if self.cur is not None:
            self.cur['wall_s'] += time.time() - self.cur.pop('_t', time.time())

    def stats(self, st):
        k = self.cur
        k['paths'] += st.paths
        k['queries'] += st.queries
        k['solver_s'] += st.solver_s
        k['unsupported_paths'] += len(st.unsupported)
        k['truncated'] = k['truncated'] or st.truncated
        self.paths += st.paths
        self.queries += st.queries
        self.solver_s += st.solver_s
        if st.unknown_forks:
            self.inconclusive.append('%s: %d fork feasibility queries returned unknown (both sides explored)' % (k['name'], st.unknown_forks))
        for status, tr in st.unsupported[:3]:
            self.inconclusive.append('%s: path %s %s' % (k['name'], ''.join('T' if x in (True, 'T') else 'F' for x in tr)[:40], status))
        if st.truncated:
            self.inconclusive.append('%s: exploration truncated by the path/wall budget (bound not exhausted)' % k['name'])

    def count(self, result, name=None, n=1, queries=0, solver_s=0.0):
        """record n obligations with a solver verdict"""
        k = self.cur
        k['obligations'] += n
        k[result] = k.get(result, 0) + n
        if name:
            k['distinct'].add(re.sub(r'\d+', '#', name))
        if queries:
            k['queries'] += queries
            self.queries += queries
        if solver_s:
            k['solver_s'] += solver_s
            self.solver_s += solver_s
        if result == 'unknown':
            self.inconclusive.append('%s: %s solver returned unknown' % (k['name'], name))
        if result == 'vacuous':
            self.harness_errors.append('%s: obligation %s is vacuous (assumptions unsatisfiable)' % (k['name'], name))

    def sample(self, s):
        if len(self.samples) < 12:
            self.samples.append(jsonable(s))

    def assume(self, *a):
        for x in a:
            if x not in self.assumptions:
                self.assumptions.append(x)

    def inconc(self, msg):
        self.inconclusive.append(msg)
        print('INCONCLUSIVE %s' % msg)

    def harness_error(self, msg):
        self.harness_errors.append(msg)
        print('HARNESS-ERROR %s' % msg)

    def validated_runs(self, n):
        self.validated += n

    # ---- findings
    def finding(self, fingerprint, witness, what, reproduced=True, kernel=None):
        """a solver model turned into a witness and replayed on the real code by the caller."""
        self.replays += 1
        k = self.kernels.get(kernel) if kernel else self.cur
        if not reproduced:
            if k is not None:
                k['sat_not_reproduced'] += 1
            self.inconclusive.append('%s: solver model did not reproduce on the real code (%s)' % (fingerprint, what))
            return 'not-reproduced'
        if k is not None:
            k['sat_reproduced'] += 1
        for e in self.known.get('open', []):
            if e['property'] == self.pid and e['fingerprint'] == fingerprint:
                if not any(h[0] == fingerprint for h in self.known_hits):
                    self.known_hits.append((fingerprint, e.get('what', what)))
                return 'known'
        if any(v['fingerprint'] == fingerprint for v in self.violations):
            return 'violation'
        slug = re.sub(r'[^A-Za-z0-9_.-]+', '_', fingerprint)
        path = os.path.join(VERIF, 'replays', '%s.json' % slug)
        os.makedirs(os.path.dirname(path), exist_ok=True)
        with open(path, 'w') as f:
            json.dump(jsonable(dict(property=self.pid, fingerprint=fingerprint, kernel=(k or {}).get('name'), what=what, witness=witness)), f, indent=1)
        self.violations.append(dict(fingerprint=fingerprint, what=what, replay=path, witness=jsonable(witness)))
        return 'violation'

    # ---- output
    def finish(self):
        self.end_kernel()
        wall = time.time() - self.t0
        obligations = sum(k['obligations'] for k in self.kernels.values())
        discharged = sum(k['unsat'] for k in self.kernels.values())
        distinct = sum(len(k['distinct']) for k in self.kernels.values())
        kern = []
        for n in self.order:
            k = dict(self.kernels[n])
            k['distinct'] = len(k['distinct'])
            k.pop('_t', None)
            k['solver_s'] = round(k['solver_s'], 3)
            k['wall_s'] = round(k['wall_s'], 3)
            kern.append(k)
        ev = dict(
            property_id=self.pid, tier=self.tier, seed=self.seed, level='model_checking',
            coverage=dict(
                states=max(1, self.paths), transitions=max(1, self.queries),
                traces_validated_against_impl=self.replays + self.validated,
                samples=self.samples or ['(no sample recorded)'],
                evaluations=max(1, obligations), distinct_nontrivial=max(2, distinct) if obligations >= 2 else distinct,
                rule='states = symbolic execution paths of the real functions; transitions = solver queries (fork feasibility + obligations); '
                     'an obligation is one negated assertion posed to z3 on one path; distinct = obligation names with indices erased; '
                     'traces_validated = solver models replayed on the real code + concrete executor-validation runs',
                obligations=obligations, discharged=discharged,
                solver_unknown=sum(k['unknown'] for k in self.kernels.values()),
                solver_sat=sum(k['sat'] for k in self.kernels.values()),
                models_reproduced=sum(k['sat_reproduced'] for k in self.kernels.values()),
                models_not_reproduced=sum(k['sat_not_reproduced'] for k in self.kernels.values()),
                solver_seconds=round(self.solver_s, 2),
                kernels=kern, functions_encoded=self.functions,
                inconclusive=self.inconclusive[:60], not_decided=self.not_decided,
                known_findings_hit=[f for f, _ in self.known_hits],
                harness_errors=self.harness_errors[:20],
                exhaustive=False,
                explanation='bounded symbolic execution of the real source with z3 deciding each obligation; bounds per kernel in kernels[].bounds'),
            assumptions=self.assumptions, wall_s=round(wall, 2), violations=len(self.violations))
        os.makedirs(os.path.join(VERIF, 'evidence'), exist_ok=True)
        with open(os.path.join(VERIF, 'evidence', self.pid + '.json'), 'w') as f:
            json.dump(jsonable(ev), f, indent=1)
        for n in self.order:
            k = self.kernels[n]
            print('KERNEL %s: obligations=%d unsat=%d sat=%d (reproduced %d, not reproduced %d) unknown=%d paths=%d queries=%d solver=%.1fs wall=%.1fs%s'
                  % (n, k['obligations'], k['unsat'], k['sat'], k['sat_reproduced'], k['sat_not_reproduced'], k['unknown'], k['paths'], k['queries'],
                     k['solver_s'], k['wall_s'], ' TRUNCATED' if k['truncated'] else ''))
        for m in self.inconclusive[:30]:
            print('INCONCLUSIVE', m)
        for f, what in self.known_hits:
            print('KNOWN-FINDING: property=%s %s [%s]' % (self.pid, what, f))
        for v in self.violations:
            print('VIOLATION property=%s replay=%s' % (self.pid, v['replay']))
            print('  what: %s' % v['what'])
        print('SUMMARY %s tier=%s obligations=%d discharged=%d violations=%d known=%d inconclusive=%d wall=%.1fs'
              % (self.pid, self.tier, obligations, discharged, len(self.violations), len(self.known_hits), len(self.inconclusive), wall))
        sys.stdout.flush()
        if self.violations:
            return 1
        if self.harness_errors:
            return 2
        return 0


def main(check_module):
    """common entry point: python -m checks.Cxx --tier quick|thorough [--replay path]"""
    import argparse
    ap = argparse.ArgumentParser()
    ap.add_argument('--tier', default=os.environ.get('VERIF_TIER', 'quick'))
    ap.add_argument('--replay', default=None)
    a = ap.parse_args()
    seed = int(os.environ.get('VERIF_SEED', '0') or 0)
    pid = check_module.PID
    if a.replay:
        w = json.load(open(a.replay))
        ok, detail = check_module.replay(w)
        print('REPLAY %s %s: %s' % (pid, w.get('fingerprint'), 'reproduced' if ok else 'not reproduced'))
        print(detail)
        sys.exit(1 if ok else 0)
    rep = Report(pid, a.tier, seed)
    try:
        check_module.run(rep)
    except Exception as e:
        traceback.print_exc()
        rep.harness_error('check crashed: %r' % (e,))
    sys.exit(rep.finish())
