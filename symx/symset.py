"""finite sets with guards: a SymSet maps concrete integer ids to z3 Booleans ("this element is present").
Iterating yields guarded numbers G(value, guard); arithmetic propagates the guard; mutating methods apply
their effect under the element's guard, so `for p in s: t.update((4*p, ...))` runs once without forking."""
import builtins

import z3

from . import core
from .core import SB

TRUE = z3.BoolVal(True)
FALSE = z3.BoolVal(False)


class G:
    """guarded number: concrete value, symbolic presence guard"""
    __slots__ = ('v', 'g')

    def __init__(self, v, g=TRUE):
        self.v = v
        self.g = g

    def _o(self, o):
        return (o.v, z3.And(self.g, o.g)) if isinstance(o, G) else (o, self.g)

    def __add__(self, o):
        v, g = self._o(o)
        return G(self.v + v, g)
    __radd__ = __add__

    def __sub__(self, o):
        v, g = self._o(o)
        return G(self.v - v, g)

    def __rsub__(self, o):
        v, g = self._o(o)
        return G(v - self.v, g)

    def __mul__(self, o):
        v, g = self._o(o)
        return G(self.v * v, g)
    __rmul__ = __mul__

    def __truediv__(self, o):
        v, g = self._o(o)
        return G(self.v / v, g)

    def __floordiv__(self, o):
        v, g = self._o(o)
        return G(self.v // v, g)

    def __mod__(self, o):
        v, g = self._o(o)
        return self.v % v

    def __rshift__(self, o):
        v, g = self._o(o)
        return G(self.v >> v, g)

    def __lshift__(self, o):
        v, g = self._o(o)
        return G(self.v << v, g)

    def __eq__(self, o):
        return self.v == (o.v if isinstance(o, G) else o)

    def __ne__(self, o):
        return not self.__eq__(o)

    def __lt__(self, o):
        return self.v < (o.v if isinstance(o, G) else o)

    def __le__(self, o):
        return self.v <= (o.v if isinstance(o, G) else o)

    def __gt__(self, o):
        return self.v > (o.v if isinstance(o, G) else o)

    def __ge__(self, o):
        return self.v >= (o.v if isinstance(o, G) else o)

    def __hash__(self):
        return hash(self.v)

    def __int__(self):
        return builtins.int(self.v)

    def __index__(self):
        return builtins.int(self.v)

    def __repr__(self):
        return 'G(%r)' % (self.v,)


def vg(x):
    return (x.v, x.g) if isinstance(x, G) else (x, TRUE)


class SymSet:
    def __init__(self, bits=None):
        self.bits = dict(bits) if bits is not None else {}
        self.frac = {}     # non-integral values that were added, with the guard under which that happened

    @staticmethod
    def fresh(universe, name):
        return SymSet({u: z3.Bool('%s_%d' % (name, u)) for u in universe})

    @staticmethod
    def concrete(values):
        return SymSet({builtins.int(v): TRUE for v in values})

    @property
    def U(self):
        return tuple(builtins.sorted(self.bits))

    def _key(self, v, g):
        if isinstance(v, float) and v != builtins.int(v):
            self.frac[v] = z3.Or(self.frac.get(v, FALSE), g)
            return None
        try:
            k = builtins.int(v)
        except (TypeError, ValueError):
            self.frac[repr(v)] = z3.Or(self.frac.get(repr(v), FALSE), g)
            return None
        if k != v:
            self.frac[v] = z3.Or(self.frac.get(v, FALSE), g)
            return None
        self.bits.setdefault(k, FALSE)
        return k

    def add(self, x):
        v, g = vg(x)
        k = self._key(v, g)
        if k is not None:
            self.bits[k] = z3.Or(self.bits[k], g)

    def discard(self, x):
        v, g = vg(x)
        if v in self.bits:
            self.bits[v] = z3.And(self.bits[v], z3.Not(g))
    remove = discard

    def update(self, *its):
        for it in its:
            if isinstance(it, SymSet):
                for u in it.U:
                    k = self._key(u, it.bits[u])
                    if k is not None:
                        self.bits[k] = z3.Or(self.bits[k], it.bits[u])
                for v, g in it.frac.items():
                    self.frac[v] = z3.Or(self.frac.get(v, FALSE), g)
            else:
                for x in it:
                    self.add(x)

    def _other(self, it):
        if isinstance(it, SymSet):
            return {u: it.bits[u] for u in it.U}
        d = {}
        for x in it:
            v, g = vg(x)
            d[v] = z3.Or(d.get(v, FALSE), g)
        return d

    def difference_update(self, it):
        for v, g in self._other(it).items():
            if v in self.bits:
                self.bits[v] = z3.And(self.bits[v], z3.Not(g))

    def intersection_update(self, it):
        o = self._other(it)
        for u in self.U:
            self.bits[u] = z3.And(self.bits[u], o.get(u, FALSE))

    def symmetric_difference_update(self, it):
        for v, g in self._other(it).items():
            k = self._key(v, g)
            if k is not None:
                self.bits[k] = z3.Xor(self.bits[k], g)

    def _binop(self, it, meth):
        c = self.copy()
        getattr(c, meth)(it)
        return c

    def union(self, it):
        return self._binop(it, 'update')
    __or__ = union

    def difference(self, it):
        return self._binop(it, 'difference_update')
    __sub__ = difference

    def intersection(self, it):
        return self._binop(it, 'intersection_update')
    __and__ = intersection

    def symmetric_difference(self, it):
        return self._binop(it, 'symmetric_difference_update')
    __xor__ = symmetric_difference

    def __ior__(self, it):
        self.update(it)
        return self

    def __isub__(self, it):
        self.difference_update(it)
        return self

    def __iand__(self, it):
        self.intersection_update(it)
        return self

    def __ixor__(self, it):
        self.symmetric_difference_update(it)
        return self

    def copy(self):
        c = SymSet(self.bits)
        c.frac = dict(self.frac)
        return c

    def clear(self):
        self.bits = {}
        self.frac = {}

    def __iter__(self):
        for u in self.U:
            b = z3.simplify(self.bits[u])
            if not z3.is_false(b):
                yield G(u, b)
        for v, g in list(self.frac.items()):
            if not z3.is_false(z3.simplify(g)):
                yield G(v, g)

    def __contains__(self, x):
        v, g = vg(x)
        try:
            k = builtins.int(v)
        except (TypeError, ValueError):
            return False
        if k != v or k not in self.bits:
            return False
        return bool(SB(self.bits[k]))

    def has(self, v):
        return self.bits.get(v, FALSE)

    def count(self):
        return z3.Sum([z3.IntVal(0)] + [z3.If(b, 1, 0) for b in self.bits.values()] + [z3.If(b, 1, 0) for b in self.frac.values()])

    def __bool__(self):
        return bool(SB(z3.Or([FALSE] + list(self.bits.values()) + list(self.frac.values()))))

    def __repr__(self):
        return 'SymSet(%d ids)' % len(self.bits)

    def __reduce__(self):
        raise core.Unsupported('pickling a SymSet')


def sym_len(x):
    if isinstance(x, SymSet):
        return core.SN(x.count())
    return builtins.len(x)


def sym_set(x=()):
    if isinstance(x, SymSet):
        return x.copy()
    if isinstance(x, (builtins.set, builtins.frozenset)):
        return builtins.set(x)
    if isinstance(x, (tuple, list)) and len(x) > 0 and not any(isinstance(e, G) and not z3.is_true(e.g) for e in x) and False:
        return builtins.set(x)
    r = SymSet()
    r.update(x)
    return r


def sym_int(x, *a):
    if isinstance(x, G):
        return G(builtins.int(x.v), x.g)
    return core.sym_int(x, *a)


def sym_sorted(x, **kw):
    return builtins.sorted(x, key=lambda a: a.v if isinstance(a, G) else a)


def sym_list(x=()):
    return builtins.list(x)


BUILTINS = dict(len=sym_len, set=sym_set, int=sym_int, sorted=sym_sorted)
