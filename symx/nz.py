"""normaliser: z3 term -> sympy -> reduced residual -> z3 term (preprocessing for the deciding z3 query).

z3/cvc5 return `unknown` on rational/radical trig compositions; sympy puts both sides over a common denominator,
expands, reduces by the atom relations (c^2 -> 1 - s^2), takes perfect squares out of roots. The verdict is then
z3's on  residual != 0  under the assumptions and the definitional closure. sympy's rewriting is cross-checked by
evaluating the original difference and the residual numerically at random points (a mismatch is a harness error)."""
import random
import time
import math

import sympy as sp
import z3

from . import core


class Normaliser:
    def __init__(self, ctx, positive=(), keepcos=(), unit=()):
        self.ctx = ctx
        self.positive = set(positive)     # symbol names known > 0
        self.keepcos = set(keepcos)       # angle names whose cosine is known > 0 (reduce s^2 instead of c^2)
        self.unit = set(unit)             # symbol names with v^2 == 1
        self.env = {}
        self.pairs = []
        for v, (c, s) in ctx.atoms.items():
            if z3.is_const(c) and z3.is_const(s) and c.decl().kind() == z3.Z3_OP_UNINTERPRETED and s.decl().kind() == z3.Z3_OP_UNINTERPRETED:
                self.pair(v, str(c), str(s))

    def pair(self, v, cn, sn):
        cs = sp.Symbol(cn, positive=True) if v in self.keepcos else sp.Symbol(cn, real=True)
        ss = sp.Symbol(sn, real=True)
        self.env[cn], self.env[sn] = cs, ss
        if v in self.keepcos:
            self.pairs.append((ss, cs))     # eliminate powers of s
        else:
            self.pairs.append((cs, ss))     # eliminate powers of c

    def sym(self, n):
        if n in self.env:
            return self.env[n]
        c = self.ctx
        if n in c.radicand:
            P = self.normal(self.to_sp(c.radicand[n]))
            self.env[n] = sp.sqrt(sp.factor(P))
            return self.env[n]
        if n in c.halfs:
            # half-angle symbol: keep as symbol; its square is substituted in reduce
            self.env[n] = sp.Symbol(n, real=True)
            return self.env[n]
        pos = n.startswith('E!') or n in self.positive or n == 'K'
        self.env[n] = sp.Symbol(n, positive=True) if pos else sp.Symbol(n, real=True)
        return self.env[n]

    def to_sp(self, t):
        if z3.is_rational_value(t):
            return sp.Rational(t.numerator_as_long(), t.denominator_as_long())
        if z3.is_int_value(t):
            return sp.Integer(t.as_long())
        k = t.decl().kind()
        ch = t.children()
        if z3.is_const(t) and k == z3.Z3_OP_UNINTERPRETED:
            return self.sym(str(t))
        if k == z3.Z3_OP_ADD:
            return sp.Add(*[self.to_sp(c) for c in ch])
        if k == z3.Z3_OP_MUL:
            return sp.Mul(*[self.to_sp(c) for c in ch])
        if k == z3.Z3_OP_SUB:
            r = self.to_sp(ch[0])
            for c in ch[1:]:
                r = r - self.to_sp(c)
            return r
        if k == z3.Z3_OP_UMINUS:
            return -self.to_sp(ch[0])
        if k == z3.Z3_OP_DIV:
            return self.to_sp(ch[0]) / self.to_sp(ch[1])
        if k == z3.Z3_OP_POWER:
            return self.to_sp(ch[0]) ** self.to_sp(ch[1])
        if k == z3.Z3_OP_TO_REAL:
            return self.to_sp(ch[0])
        if k == z3.Z3_OP_ITE:
            a = self.to_sp(ch[1])
            b = self.to_sp(ch[2])
            if sp.expand(a + b) == 0:
                # abs pattern If(x >= 0, x, -x) (either orientation)
                return sp.Abs(a)
            raise NotImplementedError('ite')
        if k == z3.Z3_OP_UNINTERPRETED:
            f = sp.Function(t.decl().name())
            return f(*[self.to_sp(c) for c in ch])
        raise NotImplementedError(str(t.decl()))

    def reduce(self, p):
        p = sp.expand(p)
        for n in self.unit:
            v = self.env.get(n)
            if v is None or not p.has(v):
                continue
            p = p.replace(lambda e: e.is_Pow and e.base == v and e.exp.is_Integer and e.exp >= 2, lambda e: v ** (e.exp % 2))
            p = p.replace(lambda e: isinstance(e, sp.Abs) and e.args[0] == v, lambda e: sp.Integer(1))
            p = sp.expand(p)
        for n, sq in self.ctx.halfs.items():
            v = self.env.get(n)
            if v is None or not p.has(v):
                continue
            S = self.to_sp(sq)
            p = p.replace(lambda e: e.is_Pow and e.base == v and e.exp.is_Integer and e.exp >= 2,
                          lambda e: S ** (e.exp // 2) * v ** (e.exp % 2))
            p = sp.expand(p)
        for a, b in self.pairs:      # eliminate a^2 -> 1 - b^2
            if not p.has(a):
                continue
            p = p.replace(lambda e: e.is_Pow and e.base == a and e.exp.is_Integer and e.exp >= 2,
                          lambda e: (1 - b ** 2) ** (e.exp // 2) * a ** (e.exp % 2))
            p = sp.expand(p)
        return p

    def normal(self, e):
        e = sp.together(e)
        num, den = sp.fraction(e)
        num = self.reduce(num)
        den = self.reduce(den)
        if den == 1:
            return num
        return sp.cancel(num / den)

    def residual(self, lhs, rhs):
        """sympy residual of lhs - rhs (numerator only; denominators are nonzero by the definitional constraints)"""
        L = self.to_sp(lhs)
        R = self.to_sp(rhs)
        d = self.normal(L - R)
        if d != 0:
            num, den = sp.fraction(sp.together(d))
            d2 = self.reduce(num)
            if d2 == 0:
                d = sp.Integer(0)
            else:
                # one more round: radicals may combine after factoring
                d3 = sp.simplify(d)
                d = d3 if d3 == 0 else d
        return d

    def from_sp(self, e):
        """sympy -> z3 (polynomial / rational / sqrt of known radicands only)"""
        c = self.ctx
        rev = {v: k for k, v in self.env.items() if isinstance(v, sp.Symbol)}

        def go(x):
            if x.is_Rational:
                return z3.RealVal(str(sp.Rational(x)))
            if x.is_Symbol:
                return z3.Real(rev.get(x, str(x)))
            if x.is_Add:
                return z3.Sum([go(a) for a in x.args])
            if x.is_Mul:
                return z3.Product([go(a) for a in x.args])
            if x.is_Pow:
                b, ex = x.args
                if ex.is_Integer:
                    n = int(ex)
                    if n >= 0:
                        r = z3.RealVal(1)
                        gb = go(b)
                        for _ in range(n):
                            r = r * gb
                        return r
                    gb = go(b)
                    r = z3.RealVal(1)
                    for _ in range(-n):
                        r = r * gb
                    return 1 / r
                if ex == sp.Rational(1, 2):
                    saved = core.CTX
                    core.CTX = c
                    try:
                        return core.radical(go(b))
                    finally:
                        core.CTX = saved
                if ex == sp.Rational(-1, 2):
                    saved = core.CTX
                    core.CTX = c
                    try:
                        return 1 / core.radical(go(b))
                    finally:
                        core.CTX = saved
            if isinstance(x, sp.Abs):
                g = go(x.args[0])
                return z3.If(g >= 0, g, -g)
            raise NotImplementedError('from_sp %r' % (x,))
        return go(e)


def identity(ctx, name, lhs, rhs, assume=(), positive=(), keepcos=(), unit=(), timeout_ms=None, info=None):
    """decide lhs == rhs on this path: sympy normalisation, then the z3 query  residual != 0.
    Returns the obligation record (result unsat / sat / unknown)."""
    lhs = lhs.e if isinstance(lhs, core.SN) else lhs
    rhs = rhs.e if isinstance(rhs, core.SN) else rhs
    t = time.time()
    nz = Normaliser(ctx, positive, keepcos, unit)
    try:
        d = nz.residual(lhs, rhs)
    except NotImplementedError as e:
        d = None
        why = str(e)
    if d is not None and d == 0:
        claim = z3.RealVal(0) == 0     # trivially true: the verdict rests on the normaliser (cross-checked numerically by callers)
        rec = ctx.oblige(name, claim, assume=assume, info=info, timeout_ms=timeout_ms)
        rec['normaliser'] = 'residual 0'
    else:
        if d is None:
            claim = (core._toreal(lhs) == core._toreal(rhs))
            norm = 'not normalised (%s)' % why
        else:
            try:
                claim = (nz.from_sp(d) == 0)
                norm = 'residual %s' % str(d)[:200]
            except NotImplementedError:
                claim = (core._toreal(lhs) == core._toreal(rhs))
                norm = 'residual not translatable'
        rec = ctx.oblige(name, claim, assume=list(assume), info=info, timeout_ms=timeout_ms)
        rec['normaliser'] = norm
    rec['nz_s'] = round(time.time() - t, 3)
    return rec


def crosscheck(ctx, lhs, rhs, sampler, n=5, tol=1e-7):
    """numeric cross-check of an identity the normaliser reduced to 0: evaluate lhs and rhs at points from sampler().
    Returns (ok, worst). Used so that a sympy rewriting slip cannot silently discharge an obligation."""
    lhs = lhs.e if isinstance(lhs, core.SN) else lhs
    rhs = rhs.e if isinstance(rhs, core.SN) else rhs
    worst = 0.0
    for _ in range(n):
        env = sampler()
        try:
            a = core.numeval(lhs, env, ctx)
            b = core.numeval(rhs, env, ctx)
        except (KeyError, ZeroDivisionError, ValueError, OverflowError):
            continue
        err = abs(a - b) / max(1.0, abs(a), abs(b))
        worst = max(worst, err)
    return worst <= tol, worst
