#!/bin/bash
# Build the overlay venv used by every check (offline; idempotent).
set -e
cd "$(dirname "$0")"
V=/verif/.venv
if [ -x $V/bin/python ] && $V/bin/python -c "import z3, sympy, numpy, crosshair" 2>/dev/null; then exit 0; fi
rm -rf $V
/venv/bin/python -m venv $V
echo "import site; site.addsitedir('/venv/lib/python3.12/site-packages')" > $V/lib/python3.12/site-packages/base.pth
PIP_NO_INDEX=1 $V/bin/pip install -q --no-index --find-links /opt/veriftools/wheels z3-solver sympy crosshair-tool >/dev/null
$V/bin/python -c "import z3, sympy, numpy, crosshair; print('verif venv ready: z3', z3.get_version_string())"
