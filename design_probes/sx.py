"""prototype symx core: SymNum with units-aware trig algebra (probe only)"""
import z3, math, sys, importlib.util, builtins, time
import numpy as real_np
from fractions import Fraction
K=z3.Real('K')
class St:  # per-run state
    def __init__(s): s.atoms={}; s.exps={}; s.cons=[K>0.0174,K<0.0175]; s.n=0; s.angdefs={}; s.defs={}; s.rads={}; s.halfs={}
S=St()
def reset():
    global S; S=St()
def fresh(p):
    S.n+=1; return z3.Real(f'{p}{S.n}')
def atoms(v):
    if v not in S.atoms:
        c,s=z3.Real('c_'+v),z3.Real('s_'+v); S.atoms[v]=(c,s); S.cons.append(c*c+s*s==1)
    return S.atoms[v]
def lift(o):
    if isinstance(o,SN): return o.e
    if isinstance(o,(bool,)): raise TypeError
    if isinstance(o,(int,real_np.integer)): return z3.RealVal(int(o))
    if isinstance(o,(float,real_np.floating)): return z3.RealVal(str(Fraction(float(o))))
    raise TypeError(type(o))
def isnum(o): return isinstance(o,(int,float,real_np.integer,real_np.floating)) and not isinstance(o,bool)
class SB:
    def __init__(s,e): s.e=e if z3.is_expr(e) else z3.BoolVal(bool(e))
    def __bool__(s): raise RuntimeError('fork needed: %s'%s.e)
class SN:
    pass
    def __init__(s,e,ang=None): s.e=e; s.ang=ang   # ang=(coeffs{var:Fraction}, const_deg Fraction, power)
    # ---- linear angle bookkeeping
    def _lin(s,o,sign):
        if s.ang is None: return None
        if isinstance(o,SN):
            if o.ang is None or o.ang[2]!=s.ang[2]: return None
            co=dict(s.ang[0])
            for k,v in o.ang[0].items(): co[k]=co.get(k,0)+sign*v
            return (co, s.ang[1]+sign*o.ang[1], s.ang[2])
        if isnum(o):
            if s.ang[2]==0: return (dict(s.ang[0]), s.ang[1]+sign*Fraction(float(o)).limit_denominator(10**9), 0)
            if s.ang[2]==1:
                # radians constant: recognise multiples of pi/2
                q=float(o)/(math.pi/2)
                if abs(q-round(q))<1e-12: return (dict(s.ang[0]), s.ang[1]+sign*90*round(q), 1)
        return None
    def __add__(s,o): return SN(s.e+lift(o), s._lin(o,1))
    __radd__=__add__
    def __sub__(s,o): return SN(s.e-lift(o), s._lin(o,-1))
    def __rsub__(s,o): return (-s).__add__(o)
    def __neg__(s): return SN(-s.e, None if s.ang is None else ({k:-v for k,v in s.ang[0].items()},-s.ang[1],s.ang[2]))
    def __mul__(s,o):
        ang=None
        if s.ang is not None and isnum(o): f=Fraction(float(o)).limit_denominator(10**6); ang=({k:v*f for k,v in s.ang[0].items()}, s.ang[1]*f, s.ang[2])
        return SN(s.e*lift(o),ang)
    __rmul__=__mul__
    def __truediv__(s,o):
        ang=None
        if s.ang is not None and isnum(o): f=1/Fraction(float(o)).limit_denominator(10**6); ang=({k:v*f for k,v in s.ang[0].items()}, s.ang[1]*f, s.ang[2])
        return SN(s.e/lift(o),ang)
    def __rtruediv__(s,o): return SN(lift(o)/s.e)
    def __pow__(s,n):
        assert isinstance(n,int) and n>=1; r=s.e
        if n==2 and str(s.e) in S.halfs: return SN(S.halfs[str(s.e)])
        for _ in range(n-1): r=r*s.e
        return SN(r)
    def __abs__(s): return SN(z3.If(s.e>=0,s.e,-s.e))
    def __lt__(s,o): return SB(s.e<lift(o))
    def __le__(s,o): return SB(s.e<=lift(o))
    def __gt__(s,o): return SB(s.e>lift(o))
    def __ge__(s,o): return SB(s.e>=lift(o))
    # ---- numpy ufunc method protocol
    def radians(s): return SN(s.e*K, None if s.ang is None else (s.ang[0],s.ang[1],s.ang[2]+1))
    def degrees(s): return SN(s.e/K, None if s.ang is None else (s.ang[0],s.ang[1],s.ang[2]-1))
    def _cs(s):
        if s.ang is None or s.ang[2]!=1: raise RuntimeError('trig of non-radian value')
        c,sn=z3.RealVal(1),z3.RealVal(0)
        for v,n in s.ang[0].items():
            if n==0: continue
            assert n.denominator==1,('fractional multiple',v,n)
            cv,sv=atoms(v); n=int(n)
            if n<0: sv=-sv; n=-n
            for _ in range(n): c,sn = c*cv-sn*sv, sn*cv+c*sv
        k=s.ang[1]
        assert k%90==0,('const angle',k)
        cc,ss=[(1,0),(0,1),(-1,0),(0,-1)][int(k//90)%4]
        return c*cc-sn*ss, sn*cc+c*ss
    def _half(s):
        if s.ang is not None and s.ang[2]==1 and any(v.denominator==2 for v in list(s.ang[0].values())+[s.ang[1]/90 if s.ang[1]%45==0 and s.ang[1]%90!=0 else Fraction(0)]):
            return SN(s.e*2,({k:v*2 for k,v in s.ang[0].items()},s.ang[1]*2,1))
        return None
    def sin(s):
        d=s._half()
        if d is not None:
            c,_=d._cs(); r=fresh('hs'); S.defs[str(r)]=[r*r==(1-c)/2]; S.halfs[str(r)]=(1-c)/2; return SN(r)
        return SN(z3.simplify(s._cs()[1]))
    def cos(s):
        d=s._half()
        if d is not None:
            c,_=d._cs(); r=fresh('hc'); S.defs[str(r)]=[r*r==(1+c)/2]; S.halfs[str(r)]=(1+c)/2; return SN(r)
        return SN(z3.simplify(s._cs()[0]))
    def arcsin(s):
        S.n+=1; nm='as%d'%S.n; v=s.e
        cr=radical(1-v*v); S.atoms[nm]=(cr,v); val=fresh('ang')
        return SN(val,({nm:Fraction(1)},Fraction(0),1))
    def exp(s):
        E=fresh('E'); S.exps[E]=z3.simplify(s.e); S.defs[str(E)]=[E>0]; return SN(E)
    def sqrt(s): return SN(radical(s.e))
    def hypot(s,o): return SN(radical(s.e*s.e+lift(o)*lift(o)))
    def arctan2(s,o):
        # angle of direction (x=o, y=s); returns radians value
        y,x=s.e,lift(o); h=radical(x*x+y*y); S.n+=1; nm='at%d'%S.n
        S.atoms[nm]=(x/h,y/h); S.defs[str(h)].append(h>0)
        val=fresh('ang')
        S.angdefs[nm]=(x,y)
        return SN(val,({nm:Fraction(1)},Fraction(0),1))
def radical(p):
    key=z3.simplify(p,som=True,sort_sums=True,mul_to_power=True)
    ks=key.sexpr()
    if not hasattr(S,'rads'): S.rads={}
    if ks not in S.rads:
        r=fresh('rad'); S.rads[ks]=r; S.defs[str(r)]=[r>=0, r*r==key]
    return S.rads[ks]
def vars_of(e,acc=None):
    acc=set() if acc is None else acc
    todo=[e]; seen=set()
    while todo:
        t=todo.pop()
        if t.get_id() in seen: continue
        seen.add(t.get_id())
        if z3.is_const(t) and t.decl().kind()==z3.Z3_OP_UNINTERPRETED: acc.add(str(t))
        todo.extend(t.children())
    return acc
def coi(claims,cons):
    vs=set()
    for c in claims: vars_of(c,vs)
    cv=[(c,vars_of(c)) for c in cons]
    used=[False]*len(cv); ch=True
    while ch:
        ch=False
        for i,(c,v) in enumerate(cv):
            if not used[i] and v&vs: used[i]=True; vs|=v; ch=True
    return [c for (c,v),u in zip(cv,used) if u]
def angle_deg(name):
    return SN(z3.Real(name),({name:Fraction(1)},Fraction(0),0))
def real(name): return SN(z3.Real(name))
class MathProxy:
    sin=staticmethod(lambda x: x.sin() if isinstance(x,SN) else math.sin(x))
    cos=staticmethod(lambda x: x.cos() if isinstance(x,SN) else math.cos(x))
    def __getattr__(s,n): return getattr(math,n)
def load(path,name,extra={}):
    spec=importlib.util.spec_from_file_location(name,path); m=importlib.util.module_from_spec(spec)
    sys.modules[name]=m; spec.loader.exec_module(m)
    for k,v in extra.items(): setattr(m,k,v)
    return m
def prove(name,claims,assume=(),timeout=60000):
    """claims: list of z3 bools that must hold; returns result of checking negation"""
    sol=z3.Solver(); sol.set('timeout',timeout)
    allc=list(S.cons)+list(assume)
    Es=list(S.exps.items())
    for a in range(len(Es)):
        for b in range(a+1,len(Es)): allc.append(z3.Implies(Es[a][1]==Es[b][1], Es[a][0]==Es[b][0]))
    # definitional closure
    vs=set()
    for c in list(claims)+list(assume): vars_of(c,vs)
    use=list(S.cons)+list(assume); done=set(); ch=True
    while ch:
        ch=False
        for v in list(vs):
            if v in S.defs and v not in done:
                done.add(v); use+=S.defs[v]; ch=True
                for c in S.defs[v]: vars_of(c,vs)
    for a in range(len(Es)):
        for b in range(a+1,len(Es)):
            if str(Es[a][0]) in done and str(Es[b][0]) in done: use.append(z3.Implies(Es[a][1]==Es[b][1], Es[a][0]==Es[b][0]))
    sol.add(use)
    t=time.time(); reach=str(sol.check())
    sol.add(z3.Not(z3.And(claims))); r=str(sol.check())
    print(f'{name}: cons={len(use)}/{len(allc)} reach={reach} neg={r} {time.time()-t:.2f}s'); sys.stdout.flush()
    return r, (sol.model() if r=='sat' else None)
def radicand_of(sn):
    for ks,r in S.rads.items():
        if r.eq(sn.e):
            return [c for c in S.defs[str(r)] if c.decl().kind()==z3.Z3_OP_EQ][0].arg(1)
    return None
def direction(sn):
    """unnormalised (cos,sin)-direction of an angle-valued SymNum in degrees/radians made of ONE arctan2 angle +- const, else atoms"""
    a=sn if sn.ang[2]==1 else sn.radians()
    co={k:v for k,v in a.ang[0].items() if v!=0}
    if len(co)==1:
        (nm,n),=co.items()
        if nm in S.angdefs and n in (1,-1):
            x,y=S.angdefs[nm]
            if n==-1: y=-y
            k=a.ang[1]; assert k%90==0
            cc,ss=[(1,0),(0,1),(-1,0),(0,-1)][int(k//90)%4]
            return x*cc-y*ss, y*cc+x*ss
    return a._cs()
def same_dir(a,b,mod180=False):
    ax,ay=direction(a); bx,by=direction(b)
    cl=[ax*by-ay*bx==0]
    cl.append(ax*bx+ay*by!=0 if mod180 else ax*bx+ay*by>0)
    return cl
def _defer(fn):
    def w(s,o):
        if isinstance(o,real_np.ndarray): return NotImplemented
        return fn(s,o)
    return w
for _n in ['__add__','__radd__','__sub__','__rsub__','__mul__','__rmul__','__truediv__','__rtruediv__','__lt__','__le__','__gt__','__ge__']:
    setattr(SN,_n,_defer(getattr(SN,_n)))
