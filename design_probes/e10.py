"""probe: real MIMAS.mask_plane with WCS and region membership as uninterpreted functions (C10).
Oracle: element [i,j] blanked iff not Inside(W_fits(x=j+1, y=i+1)) (origin-1 FITS pixel of the element's centre)."""
import z3, numpy as real_np, sys, time
exec(open('pk1.py').read().split("t=time.time(); m=load_private()")[0])
M=load_private(); mim=M['MIMAS']
R2=z3.RealSort(); B=z3.BoolSort()
Wra=z3.Function('Wra',R2,R2,R2); Wdec=z3.Function('Wdec',R2,R2,R2)   # W_0: 0-based pixel (x,y) -> sky
Inside=z3.Function('Inside',R2,R2,B)
class SB:
    def __init__(s,e): s.e=e
    def __invert__(s): return SB(z3.Not(s.e))
class Sky:  # opaque sky coordinate value
    def __init__(s,e): s.e=e
class FakeWCS:
    calls=[]
    def wcs_pix2world(s,pix,origin):
        FakeWCS.calls.append(origin)
        out=real_np.empty((len(pix),2),dtype=object)
        for n,(x,y) in enumerate(pix):
            X=z3.RealVal(int(x)-origin); Y=z3.RealVal(int(y)-origin)    # W_o(p)=W_0(p-o)
            out[n,0]=Sky(Wra(X,Y)); out[n,1]=Sky(Wdec(X,Y))
        return out
class FakeRegion:
    def sky_within(s,ra,dec,degin=False):
        assert degin
        return real_np.array([SB(Inside(a.e,d.e)) for a,d in zip(ra,dec)],dtype=object)
class SymArray(real_np.ndarray):
    def __setitem__(s,idx,val):
        if isinstance(idx,real_np.ndarray) and idx.dtype==object:
            for k in real_np.ndindex(idx.shape):
                old=real_np.ndarray.__getitem__(s,k)
                real_np.ndarray.__setitem__(s,k,('ite',idx[k].e,'NaN',old))
        else: real_np.ndarray.__setitem__(s,idx,val)
class NP:
    def __getattr__(s,n): return getattr(real_np,n)
    def bitwise_not(s,a): return real_np.array([~v for v in a],dtype=object) if a.dtype==object else real_np.bitwise_not(a)
mim.np=NP()
ROWS,COLS=int(sys.argv[1]),int(sys.argv[2])
data=real_np.empty((ROWS,COLS),dtype=object).view(SymArray)
for i in range(ROWS):
    for j in range(COLS): real_np.ndarray.__setitem__(data,(i,j),('px',i,j))
out=mim.mask_plane(data,FakeWCS(),FakeRegion(),negate=False)
sol=z3.Solver(); bad=[]
for i in range(ROWS):
    for j in range(COLS):
        v=real_np.ndarray.__getitem__(out,(i,j))
        assert v[0]=='ite' and v[3]==('px',i,j)
        blanked=v[1]
        expect=z3.Not(Inside(Wra(z3.RealVal(j),z3.RealVal(i)), Wdec(z3.RealVal(j),z3.RealVal(i))))   # W_fits(j+1,i+1) = W_0(j,i)
        bad.append(blanked!=expect)
sol.add(z3.Or(bad)); t=time.time(); r=sol.check()
print('mask_plane',ROWS,'x',COLS,'origin used',set(FakeWCS.calls),'negated claim:',r,round(time.time()-t,2),'s')
if str(r)=='sat':
    m=sol.model(); print('  model distinguishes e.g. Inside/W interpretation:', str(m[Inside])[:160].replace('\n',' '))
