"""concrete confirmations on the real code (run with /venv/bin/python)"""
from AegeanTools.angle_tools import dec2dms, dec2hms, dec2dec
x=0+59/60+59.996/3600
print(dec2dms(x), dec2hms(15*x), dec2hms(359.99999999))
from AegeanTools.regions import Region
r=Region(maxdepth=3); o=Region(maxdepth=4); o.add_pixels([5],4); r.union(o); print('mixed union', r.pixeldict)
r=Region(maxdepth=3); r.add_pixels([0,1,2,3,17],3); r._renorm(); print(r.pixeldict, r._uniq())
r.get_demoted(); print('after demote', r.pixeldict, r._uniq())
try: Region(maxdepth=1).get_demoted()
except Exception as e: print('depth1', type(e).__name__, e)
print('band', int(4/49*49))
# BANE: 101 rows, cores=2, nslice=2 -> ymins [0,50,100] = 3 stripes > 2 workers -> hangs (run under `timeout 40`)
# BANE: 96x64 gaussian noise, +1000 offset, grid 8 box 24: cores=1 -> max|drms| 3e-6 ; cores=2,nslice=2 -> 499
