"""slicer + FP-mode probe: (1) slice row_min/row_max out of the real load_image_band and run it on FP-exact symbolic ints;
(2) slice the stripe layout out of the real filter_mc_sharemem and compute the realised stripe count symbolically."""
import ast, z3, time, builtins, sys
RNE=z3.RNE()
class FInt:  # symbolic python int, bit-precise where it meets floats
    def __init__(s,bv): s.bv=bv   # 32-bit signed
    def _o(s,o): return o.bv if isinstance(o,FInt) else z3.BitVecVal(int(o),32)
    def __add__(s,o): return FInt(s.bv+s._o(o)); __radd__=__add__
    def __sub__(s,o): return FInt(s.bv-s._o(o))
    def __mul__(s,o):
        if isinstance(o,FFloat): return o.__rmul__(s)
        return FInt(s.bv*s._o(o))
    __rmul__=__mul__
    def tofp(s): return z3.fpSignedToFP(RNE,s.bv,z3.Float64())
    def __truediv__(s,o): return FFloat(z3.fpDiv(RNE,s.tofp(),(o.tofp() if isinstance(o,FInt) else z3.FPVal(float(o),z3.Float64()))))
class FFloat:
    def __init__(s,fp): s.fp=fp
    def _o(s,o):
        if isinstance(o,FFloat): return o.fp
        if isinstance(o,FInt): return o.tofp()
        return z3.FPVal(float(o),z3.Float64())
    def __mul__(s,o): return FFloat(z3.fpMul(RNE,s.fp,s._o(o))); __rmul__=__mul__
    def __truediv__(s,o): return FFloat(z3.fpDiv(RNE,s.fp,s._o(o)))
    def __add__(s,o): return FFloat(z3.fpAdd(RNE,s.fp,s._o(o)))
def sym_int(x):
    if isinstance(x,FFloat): return FInt(z3.fpToSBV(z3.RTZ(),x.fp,z3.BitVecSort(32)))
    if isinstance(x,FInt): return x
    return builtins.int(x)
def sym_max(a,b):
    if isinstance(a,FFloat) or isinstance(b,FFloat):
        fa=a.fp if isinstance(a,FFloat) else z3.FPVal(float(a),z3.Float64()); fb=b.fp if isinstance(b,FFloat) else z3.FPVal(float(b),z3.Float64())
        return FFloat(z3.If(z3.fpGEQ(fa,fb),fa,fb))
    return builtins.max(a,b)
def slice_fn(path,func,targets,params):
    tree=ast.parse(open(path).read())
    f=[n for n in ast.walk(tree) if isinstance(n,ast.FunctionDef) and n.name==func][0]
    keep=[]
    for st in ast.walk(f):
        if isinstance(st,ast.Assign) and any(isinstance(t,ast.Name) and t.id in targets for t in st.targets): keep.append(st)
    keep.sort(key=lambda s:s.lineno)
    body=keep+[ast.Return(value=ast.Tuple(elts=[ast.Name(id=t,ctx=ast.Load()) for t in targets],ctx=ast.Load()))]
    new=ast.FunctionDef(name='sliced',args=ast.arguments(posonlyargs=[],args=[ast.arg(arg=p) for p in params],kwonlyargs=[],kw_defaults=[],defaults=[]),body=body,decorator_list=[],type_params=[])
    mod=ast.Module(body=[new],type_ignores=[]); ast.fix_missing_locations(mod)
    print('--- slice of',func); print(ast.unparse(mod))
    ns={'int':sym_int,'max':sym_max}; exec(compile(mod,'<slice>','exec'),ns); return ns['sliced']
# (1) bands
f=slice_fn('/repo/AegeanTools/fits_tools.py','load_image_band',['row_min','row_max'],['header','band'])
rows=z3.BitVec('rows',32); n=z3.BitVec('n',32); i=z3.BitVec('i',32)
hdr={'NAXIS2':FInt(rows)}
rmin,rmax=f(hdr,(FInt(i),FInt(n)))
s=z3.Solver(); s.add(rows>=1,rows<=20000,n>=1,n<=64, i==n-1)
s.add(rmax.bv!=rows)
t=time.time(); r=s.check(); print('last band reaches last row? negation:',r,round(time.time()-t,1),'s')
if str(r)=='sat': m=s.model(); print('  rows',m[rows].as_long(),'bands',m[n].as_long(),'row_max',m.eval(rmax.bv).as_long())
# (2) stripe width
g=slice_fn('/repo/AegeanTools/BANE.py','filter_mc_sharemem',['width_y'],['img_y','nslice','step_size'])
H=z3.BitVec('H',32); ns_=z3.BitVec('ns',32); st=z3.BitVec('st',32); cores=z3.BitVec('cores',32)
(w,)=g(FInt(H),FInt(ns_),(FInt(st),FInt(st)))
s=z3.Solver(); s.add(H>=1,H<=4096,ns_>=2,ns_<=16,st>=1,st<=64, cores>=ns_, cores<=16)
# realised stripes = ceil(H/w) ; deadlock-free needs stripes <= cores
k=z3.BitVec('k',32)   # k = number of ymins = ceil(H/w)
s.add(w.bv>=1, (k-1)*w.bv<H, k*w.bv>=H, k>=1, k<=5000)
s.add(z3.UGT(k,cores))
t=time.time(); r=s.check(); print('stripes<=cores? negation:',r,round(time.time()-t,1),'s')
if str(r)=='sat': m=s.model(); print('  H',m[H].as_long(),'nslice',m[ns_].as_long(),'step',m[st].as_long(),'cores',m[cores].as_long(),'width',m.eval(w.bv).as_long(),'stripes',m[k].as_long())
