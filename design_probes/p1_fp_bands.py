"""z3 QF_FP probe: exists rows in [1,20000], n in [1,64] with int(rows/n*n) != rows  (sat in ~20 s: rows=4, n=49)"""
import z3, time
t=time.time()
rows=z3.BitVec('rows',16); n=z3.BitVec('n',16)
s=z3.Solver()
s.add(z3.ULE(1,rows), z3.ULE(rows,20000), z3.ULE(1,n), z3.ULE(n,64))
rm=z3.RNE()
fr=z3.fpSignedToFP(rm, z3.ZeroExt(16,rows), z3.Float64())
fn=z3.fpSignedToFP(rm, z3.ZeroExt(16,n), z3.Float64())
q=z3.fpMul(rm, z3.fpDiv(rm, fr, fn), fn)
iv=z3.fpToSBV(z3.RTZ(), q, z3.BitVecSort(32))
s.add(iv != z3.ZeroExt(16,rows))
print(s.check(), time.time()-t)
if str(s.check())=='sat':
    m=s.model(); r=m[rows].as_long(); nn=m[n].as_long(); print(r,nn,int(r/nn*nn))
