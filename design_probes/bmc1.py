"""BMC probe for the BANE worker protocol (C07). Skeleton extracted from /repo/AegeanTools/BANE.py AST;
Barrier/Pool semantics hand-modelled after CPython threading.Barrier / multiprocessing.Pool.
usage: bmc1.py n_stripes pool_size domask(0/1) [fault]"""
import ast, sys, time, z3
src=open('/repo/AegeanTools/BANE.py').read(); tree=ast.parse(src)
fn={f.name:f for f in ast.walk(tree) if isinstance(f,ast.FunctionDef)}
# ---- skeleton extraction
events=[]
def walk(stmts,guard):
    for s in stmts:
        if isinstance(s,ast.If):
            g=ast.unparse(s.test); walk(s.body,guard+[g]); walk(s.orelse,guard+['not '+g]); continue
        for node in ast.walk(s):
            if isinstance(node,ast.Call) and isinstance(node.func,ast.Attribute) and isinstance(node.func.value,ast.Name) and node.func.value.id=='barrier':
                events.append((node.func.attr,tuple(guard)))
        if isinstance(s,(ast.Assign,ast.AugAssign)):
            tg=s.targets[0] if isinstance(s,ast.Assign) else s.target
            t=ast.unparse(tg)
            if t.startswith('ibkg[') or t.startswith('irms['): events.append(('write '+t.split('[')[0],tuple(guard)))
            if isinstance(s,ast.AugAssign) and 'ibkg[' in ast.unparse(s.value): events.append(('read ibkg',tuple(guard)))
walk(fn['sigma_filter'].body,[])
print('skeleton:',events)
mc=fn['filter_mc_sharemem']
parties=[ast.unparse(k.value) for c in ast.walk(mc) if isinstance(c,ast.Call) and getattr(c.func,'attr','')=='Barrier' for k in c.keywords if k.arg=='parties']
procs=[ast.unparse(k.value) for c in ast.walk(mc) if isinstance(c,ast.Call) and getattr(c.func,'attr','')=='Pool' for k in c.keywords if k.arg=='processes']
sf2_abort=any(isinstance(c,ast.Call) and getattr(c.func,'attr','')=='abort' for c in ast.walk(fn['_sf2']))
print('parties=',parties,'processes=',procs,'abort in _sf2:',sf2_abort)
waits=[i for i,e in enumerate(events) if e[0]=='wait']
resets_after=[any(e[0]=='reset' for e in events[w+1:w+2]) for w in waits]
second_guard=events[waits[1]][1] if len(waits)>1 else None
print('waits',len(waits),'reset after each:',resets_after,'second wait guard:',second_guard)
# ---- model
n=int(sys.argv[1]); c=int(sys.argv[2]); domask=bool(int(sys.argv[3])); fault=len(sys.argv)>4
P=n   # parties=len(ymaxs)
HAS_RESET=all(resets_after)
Q,P1,ATB1,INB1,AFB1,P2,ATB2,INB2,AFB2,P3,DONE,ERR=range(12)
T=11*n+2
def mk(t): return dict(pc=[z3.Int(f'pc_{t}_{p}') for p in range(n)], idx=[z3.Int(f'idx_{t}_{p}') for p in range(n)], cnt=z3.Int(f'cnt_{t}'), st=z3.Int(f'st_{t}'))
S=[mk(t) for t in range(T+1)]
sched=[z3.Int(f'who_{t}') for t in range(T)]
fp,fl=z3.Int('fp'),z3.Int('fl')
sol=z3.Solver(); sol.set('timeout',120000)
sol.add([S[0]['pc'][p]==Q for p in range(n)]+[S[0]['idx'][p]==-1 for p in range(n)]+[S[0]['cnt']==0,S[0]['st']==0])
if fault: sol.add(fp>=0,fp<n,z3.Or(fl==P1,fl==P2,fl==P3))
else: sol.add(fp==-1,fl==-1)
def finished(s,p): return z3.Or(s['pc'][p]==DONE,s['pc'][p]==ERR)
def running(s): return z3.Sum([z3.If(z3.And(s['pc'][p]!=Q,z3.Not(finished(s,p))),1,0) for p in range(n)])
def enabled(s,p):
    pc=s['pc'][p]
    start=z3.And(pc==Q, running(s)<c, *[s['pc'][q]!=Q for q in range(p)])
    arrive=z3.And(z3.Or(pc==ATB1,pc==ATB2), z3.Or(s['st']==0,s['st']==-2))
    wake=z3.And(z3.Or(pc==INB1,pc==INB2), s['st']!=0)
    other=z3.Or(pc==P1,pc==AFB1,pc==P2,pc==AFB2,pc==P3)
    return z3.Or(start,arrive,wake,other)
def step(s,s2,p):
    pc=s['pc'][p]; st=s['st']; cnt=s['cnt']; idx=s['idx'][p]
    cases=[]  # (cond, pc', idx', cnt', st')
    isf=z3.And(fp==p, fl==pc)
    cases.append((pc==Q, P1, idx, cnt, st))
    for loc,nxt in ((P1,ATB1),(P2,(ATB2 if domask else DONE)),(P3,DONE)):
        cases.append((z3.And(pc==loc,isf), ERR, idx, cnt, st))
        cases.append((z3.And(pc==loc,z3.Not(isf)), nxt, idx, cnt, st))
    for at,inb,af in ((ATB1,INB1,AFB1),(ATB2,INB2,AFB2)):
        cases.append((z3.And(pc==at,st==-2), ERR, idx, cnt, st))
        cases.append((z3.And(pc==at,st==0,cnt+1==P), af, cnt, cnt, z3.If(cnt>0,1,0)))
        cases.append((z3.And(pc==at,st==0,cnt+1!=P), inb, cnt, cnt+1, st))
        cases.append((z3.And(pc==inb,st==1), af, idx, cnt-1, z3.If(cnt-1==0,0,1)))
        cases.append((z3.And(pc==inb,st<0), ERR, idx, cnt-1, z3.If(z3.And(cnt-1==0,st==-1),0,st)))
    for af,nxt in ((AFB1,P2),(AFB2,P3)):
        if HAS_RESET:
            newst=z3.If(cnt>0, z3.If(z3.Or(st==0,st==-2),-1,st), 0)
            cases.append((z3.And(pc==af,idx==0), nxt, idx, cnt, newst))
            cases.append((z3.And(pc==af,idx!=0), nxt, idx, cnt, st))
        else: cases.append((pc==af, nxt, idx, cnt, st))
    out=[]
    for cond,npc,nidx,ncnt,nst in cases:
        out.append(z3.Implies(cond, z3.And(s2['pc'][p]==npc, s2['idx'][p]==nidx, s2['cnt']==ncnt, s2['st']==nst)))
    frame=[z3.And(s2['pc'][q]==s['pc'][q], s2['idx'][q]==s['idx'][q]) for q in range(n) if q!=p]
    return z3.And(out+frame)
def same(s,s2): return z3.And([s2['pc'][q]==s['pc'][q] for q in range(n)]+[s2['idx'][q]==s['idx'][q] for q in range(n)]+[s2['cnt']==s['cnt'],s2['st']==s['st']])
for t in range(T):
    s,s2=S[t],S[t+1]
    anyen=z3.Or([enabled(s,p) for p in range(n)])
    sol.add(z3.If(anyen, z3.And(sched[t]>=0,sched[t]<n, z3.And([z3.Implies(sched[t]==p, z3.And(enabled(s,p),step(s,s2,p))) for p in range(n)])), z3.And(sched[t]==-1,same(s,s2))))
allfin=lambda s: z3.And([finished(s,p) for p in range(n)])
final=S[T]
def ask(name,goal):
    sol.push(); sol.add(goal); t=time.time(); r=sol.check(); print(f'{name}: {r} {time.time()-t:.1f}s')
    if str(r)=='sat':
        m=sol.model(); tr=[m.eval(x).as_long() for x in sched]; print('  schedule',[x for x in tr if x>=0]); print('  final pcs',[m.eval(final['pc'][p]) for p in range(n)],'state',m.eval(final['st']),'fault',m.eval(fp),m.eval(fl))
    sol.pop()
ask('deadlock (not all finished at horizon)', z3.Not(allfin(final)))
if not fault: ask('BrokenBarrierError without fault', z3.Or([final['pc'][p]==ERR for p in range(n)]))
