import numpy as np, math
import AegeanTools.wcs_helpers as wh
C=math.cos(math.radians(-47.3))
def translate(ra,dec,r,pa): return ra + r*np.sin(np.radians(pa))/C, dec + r*np.cos(np.radians(pa))
def gcd(ra1,dec1,ra2,dec2): return np.hypot((ra2-ra1)*C, dec2-dec1)
def bear(ra1,dec1,ra2,dec2): return np.degrees(np.arctan2((ra2-ra1)*C, dec2-dec1))
wh.translate, wh.gcd, wh.bear = translate, gcd, bear
class FakeWCS:
    def __init__(s,k,rho,sig,crpix,crval): s.k,s.rho,s.sig,s.crpix,s.crval=k,math.radians(rho),sig,crpix,crval
    def all_pix2world(s,pix,origin,ra_dec_order=False):
        out=[]
        for X,Y in pix:
            dx,dy=X-s.crpix[0]-(origin-1),Y-s.crpix[1]-(origin-1)
            e=s.k*(math.cos(s.rho)*s.sig*dx - math.sin(s.rho)*dy)
            n=s.k*(math.sin(s.rho)*s.sig*dx + math.cos(s.rho)*dy)
            out.append([s.crval[0]+e/C, s.crval[1]+n])
        return np.array(out)
    def all_world2pix(s,pos,origin,ra_dec_order=False):
        out=[]
        for ra,dec in pos:
            e=(ra-s.crval[0])*C; n=dec-s.crval[1]
            a= math.cos(s.rho)*e+math.sin(s.rho)*n
            b=-math.sin(s.rho)*e+math.cos(s.rho)*n
            dx=a/s.k/s.sig; dy=b/s.k
            out.append([dx+s.crpix[0]+(origin-1), dy+s.crpix[1]+(origin-1)])
        return np.array(out)
rng=np.random.default_rng(0)
worst=0
for t in range(2000):
    w=FakeWCS(10**rng.uniform(-4,-2), rng.uniform(-180,180), rng.choice([-1,1]), (rng.uniform(0,100),rng.uniform(0,100)), (rng.uniform(0,360),-47.3))
    h=wh.WCSHelper(w, wh.Beam(0.01,0.005,10), (1,1), (50,50))
    p=(rng.uniform(0,100),rng.uniform(0,100)); sx=rng.uniform(1,20); sy=rng.uniform(0.5,sx); th=rng.uniform(-180,180)
    ra,dec,a,b,pa=h.pix2sky_ellipse(p,sx,sy,th)
    x,y,sx2,sy2,th2=h.sky2pix_ellipse((ra,dec),a,b,pa)
    dth=(th2-th+90)%180-90
    err=max(abs(x-p[0]),abs(y-p[1]),abs(sx2/sx-1),abs(sy2/sy-1),abs(dth)/100)
    # vec round trip
    ra,dec,r,pa=h.pix2sky_vec(p,sx,th); x,y,r2,t2=h.sky2pix_vec((ra,dec),r,pa)
    err=max(err,abs(r2/sx-1),abs(((t2-th+180)%360)-180)/100)
    worst=max(worst,err)
print('worst',worst)
# PA convention for standard orientation sig=-1 (RA increases to the left), rho=0
w=FakeWCS(1e-3,0,-1,(50,50),(120,-47.3)); h=wh.WCSHelper(w, wh.Beam(0.01,0.005,10),(1,1),(50,50))
for th in (0,30,90): print(th, h.pix2sky_ellipse((40,40),5,2,th)[4])
