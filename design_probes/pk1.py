"""private-package loading probe: load every /repo/AegeanTools module as a fresh copy under an alias package,
with absolute `AegeanTools` imports redirected to the copy, then patch module globals (np proxy) after import."""
import sys, types, importlib, importlib.util, time
def load_private(alias='symrepo', root='/repo/AegeanTools'):
    saved={k:v for k,v in sys.modules.items() if k=='AegeanTools' or k.startswith('AegeanTools.')}
    for k in saved: del sys.modules[k]
    spec=importlib.util.spec_from_file_location('AegeanTools', root+'/__init__.py', submodule_search_locations=[root])
    pkg=importlib.util.module_from_spec(spec); sys.modules['AegeanTools']=pkg; spec.loader.exec_module(pkg)
    mods={}
    for name in ['angle_tools','flags','exceptions','fits_tools','wcs_helpers','models','catalogs','regions','fitting','cluster','BANE','MIMAS','AeRes','source_finder']:
        mods[name]=importlib.import_module('AegeanTools.'+name)
    # detach: rename into alias namespace, restore the real package
    priv={k:v for k,v in sys.modules.items() if k=='AegeanTools' or k.startswith('AegeanTools.')}
    for k in priv: del sys.modules[k]
    sys.modules.update(saved)
    for k,v in priv.items(): sys.modules[k.replace('AegeanTools',alias,1)]=v
    return mods
t=time.time(); m=load_private(); print('loaded',len(m),'private modules in',round(time.time()-t,2),'s')
import AegeanTools.fitting as real_fit
print('distinct module objects:', m['fitting'] is not real_fit, '; source_finder.errors is private fitting.errors:', m['source_finder'].errors is m['fitting'].errors,
      '; source_finder.wcs_helpers private:', m['source_finder'].wcs_helpers is m['wcs_helpers'])
class NP:
    def __getattr__(s,n):
        import numpy; return getattr(numpy,n)
for mod in m.values():
    if hasattr(mod,'np'): mod.np=NP()
print('patched np in', sum(hasattr(x,'np') for x in m.values()), 'modules; real module untouched:', type(real_fit.np).__name__)
print(m['angle_tools'].gcd(10,20,30,40))
