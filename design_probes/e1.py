"""first executor probe: real dec2dms/dec2dec from /repo source, patched builtins, format tokens.
2 paths (sign), ~60 ms: seconds field can print 60.00 (sat), minutes in range (unsat), parse(format(x)) within 0.005" (unsat)"""
import z3, math, types, importlib.util, builtins, time
class Ctx:
    def __init__(s): s.solver=z3.Solver(); s.trace=[]; s.pos=0; s.fresh=0; s.tokens={}
CTX=None
def decide(cond):
    c=CTX
    if c.pos < len(c.trace): v=c.trace[c.pos]; c.pos+=1
    else:
        s=c.solver
        s.push(); s.add(cond); t=str(s.check())=='sat'; s.pop()
        s.push(); s.add(z3.Not(cond)); f=str(s.check())=='sat'; s.pop()
        v = True if (t and f) else ('T' if t else 'F'); c.trace.append(v); c.pos+=1
    b = v in (True,'T'); c.solver.add(cond if b else z3.Not(cond)); return b
class SB:
    def __init__(s,e): s.e=e
    def __bool__(s): return decide(s.e)
def lift(o):
    if isinstance(o,SN): return o.e
    if isinstance(o,int): return z3.RealVal(o)
    if isinstance(o,float):
        from fractions import Fraction
        return z3.RealVal(str(Fraction(o)))
    raise TypeError(o)
class SN:
    def __init__(s,e,isint=False): s.e=e; s.isint=isint
    def __add__(s,o): return SN(s.e+lift(o)); __radd__=__add__
    def __sub__(s,o): return SN(s.e-lift(o))
    def __rsub__(s,o): return SN(lift(o)-s.e)
    def __mul__(s,o): return SN(s.e*lift(o)); __rmul__=__mul__
    def __truediv__(s,o): return SN(s.e/lift(o))
    def __neg__(s): return SN(-s.e)
    def __lt__(s,o): return SB(s.e<lift(o))
    def __le__(s,o): return SB(s.e<=lift(o))
    def __gt__(s,o): return SB(s.e>lift(o))
    def __ge__(s,o): return SB(s.e>=lift(o))
    def __abs__(s): return SN(z3.If(s.e>=0,s.e,-s.e))
    def __floor__(s): return SN(z3.ToReal(z3.ToInt(s.e)),True)
    def __format__(s,spec):
        k=f"\x00{len(CTX.tokens)}\x00"; CTX.tokens[k]=(s,spec); return k
def sym_int(x):
    if isinstance(x,SN):
        if x.isint: return x
        fl=z3.ToReal(z3.ToInt(x.e)); ce=-z3.ToReal(z3.ToInt(-x.e))
        return SN(z3.If(x.e>=0,fl,ce),True)
    return builtins.int(x)
def sym_float(x):
    if isinstance(x,SN): return x
    if isinstance(x,str) and '\x00' in x:
        sign=1
        if x[0] in '+-': sign=-1 if x[0]=='-' else 1; x=x[1:]
        v,spec=CTX.tokens[x]
        if spec.endswith('d'): r=v
        else:
            nd=int(spec.split('.')[1][:-1]); q=10**nd
            r=SN(z3.Real(f'pr{CTX.fresh}')); CTX.fresh+=1
            k=z3.Int(f'k{CTX.fresh}'); CTX.fresh+=1
            CTX.solver.add(r.e*q==z3.ToReal(k), r.e-v.e<=z3.RealVal(1)/(2*q), v.e-r.e<=z3.RealVal(1)/(2*q))
        return r*sign
    return builtins.float(x)
def load(path,name):
    spec=importlib.util.spec_from_file_location(name,path); m=importlib.util.module_from_spec(spec)
    spec.loader.exec_module(m)
    m.np=types.SimpleNamespace(isfinite=lambda x: True); m.int=sym_int; m.float=sym_float
    return m
at=load('/repo/AegeanTools/angle_tools.py','sym_angle_tools')
def explore(fn):
    global CTX
    stack=[[]]; n=0; res=[]
    while stack:
        tr=stack.pop(); CTX=Ctx(); CTX.trace=list(tr)
        out=fn(); n+=1
        for i in range(len(tr),len(CTX.trace)):
            if CTX.trace[i] is True: stack.append(CTX.trace[:i]+[False])
        res.append(out)
    return n,res
def prop():
    x=SN(z3.Real('x')); CTX.solver.add(x.e>=-90,x.e<=90)
    s=at.dec2dms(x)
    parts=s[1:].split(':')
    m,_=CTX.tokens[parts[1]]
    sec=sym_float(parts[2])
    back=at.dec2dec(s)
    sol=CTX.solver; out={}
    tol=z3.RealVal(5)/3600000
    for name,neg in [('sec<60',sec.e>=60),('0<=m<60',z3.Or(m.e>=60,m.e<0)),('roundtrip',z3.Or(back.e-x.e>tol,x.e-back.e>tol))]:
        sol.push(); sol.add(neg); r=sol.check(); out[name]=(str(r), sol.model()[z3.Real('x')] if str(r)=='sat' else None); sol.pop()
    return s[0],out
t=time.time(); print(explore(prop), round(time.time()-t,3))
