"""z3 <-> sympy normaliser probe"""
import z3, sympy as sp, time
from fractions import Fraction
import sx as SX
def to_sp(t, env):
    if z3.is_rational_value(t): return sp.Rational(t.numerator_as_long(), t.denominator_as_long())
    if z3.is_int_value(t): return sp.Integer(t.as_long())
    k=t.decl().kind(); ch=t.children()
    if z3.is_const(t) and k==z3.Z3_OP_UNINTERPRETED:
        n=str(t)
        if n in env: return env[n]
        # radicals: substitute sqrt(radicand)
        if n in SX.S.defs and n.startswith('rad'):
            eq=[c for c in SX.S.defs[n] if c.decl().kind()==z3.Z3_OP_EQ][0]
            P=normal(to_sp(eq.arg(1),env))
            env[n]=sp.sqrt(sp.factor(P)); return env[n]
        pos = n.startswith('E') or n in POS
        env[n]=sp.Symbol(n, positive=True) if pos else sp.Symbol(n, real=True); return env[n]
    if k==z3.Z3_OP_ADD: return sp.Add(*[to_sp(c,env) for c in ch])
    if k==z3.Z3_OP_MUL: return sp.Mul(*[to_sp(c,env) for c in ch])
    if k==z3.Z3_OP_SUB:
        r=to_sp(ch[0],env)
        for c in ch[1:]: r=r-to_sp(c,env)
        return r
    if k==z3.Z3_OP_UMINUS: return -to_sp(ch[0],env)
    if k==z3.Z3_OP_DIV: return to_sp(ch[0],env)/to_sp(ch[1],env)
    if k==z3.Z3_OP_POWER: return to_sp(ch[0],env)**to_sp(ch[1],env)
    if k==z3.Z3_OP_ITE:
        c=ch[0]
        # abs pattern If(x>=0,x,-x)
        a=to_sp(ch[1],env); b=to_sp(ch[2],env)
        if sp.simplify(a+b)==0: return sp.Abs(a)
        raise NotImplementedError('ite')
    raise NotImplementedError(t.decl())
POS=set()
def relations(env):
    rel=[]
    for v,(c,s) in SX.S.atoms.items():
        if z3.is_const(c) and str(c) in env and str(s) in env: rel.append((env[str(c)],env[str(s)]))
    return rel
EXTRA=[]  # extra (cvar,svar) pairs like crho,srho
def normal(e):
    e=sp.together(e)
    num,den=sp.fraction(e)
    num=reduce_rel(sp.expand(num)); den=reduce_rel(sp.expand(den))
    return sp.cancel(num/den) if den!=1 else num
KEEPCOS=set()
UNIT=[]   # symbols v with v**2 == 1
def reduce_rel(p):
    p=sp.expand(p)
    for v in UNIT:
        if p.has(v):
            p=p.replace(lambda e: e.is_Pow and e.base==v and e.exp.is_Integer and e.exp>=2, lambda e: v**(e.exp%2))
            p=p.replace(lambda e: isinstance(e,sp.Abs) and e.args[0]==v, lambda e: sp.Integer(1))
            p=sp.expand(p)
    for c,s in EXTRA:
        if str(c) in KEEPCOS: c,s=s,c
        if not p.has(c): continue
        p=p.replace(lambda e: e.is_Pow and e.base==c and e.exp.is_Integer and e.exp>=2,
                    lambda e: (1-s**2)**(e.exp//2)*c**(e.exp%2))
        p=sp.expand(p)
    return p
def identity(name,lhs,rhs):
    t=time.time(); env={}
    for v,(c,s) in SX.S.atoms.items():
        if z3.is_const(c) and z3.is_const(s):
            pr=(sp.Symbol(str(c),positive=True) if str(c) in KEEPCOS else sp.Symbol(str(c),real=True),sp.Symbol(str(s),real=True)); env[str(c)],env[str(s)]=pr
            if pr not in EXTRA: EXTRA.append(pr)
    L=to_sp(lhs,env); R=to_sp(rhs,env)
    for v,(c,s) in SX.S.atoms.items():
        if z3.is_const(c) and z3.is_const(s) and str(c) in env and str(s) in env:
            pr=(env[str(c)],env[str(s)])
            if pr not in EXTRA: EXTRA.append(pr)
    d=normal(L-R)
    print(f'{name}: residual={str(d)[:100]} {time.time()-t:.2f}s')
    return d
