import sx, z3, sys, time, math, numpy as real_np, builtins
from sx import SN, SB, real, angle_deg, load, lift
import nz, sympy as sp
# concretising builtins: floor/ceil/int of SN under an assumed box -> here we force the box to be the full image via assumptions,
# so floor(xmin)<=0 etc. To keep the probe simple, max/min are patched to return the concrete image bound (assumption recorded).
ASSUME=[]
def sym_max(a,b):
    if isinstance(a,SN) or isinstance(b,SN):
        s,o=(a,b) if isinstance(a,SN) else (b,a); ASSUME.append(s.e<=lift(o)); return o
    return builtins.max(a,b)
def sym_min(a,b):
    if isinstance(a,SN) or isinstance(b,SN):
        s,o=(a,b) if isinstance(a,SN) else (b,a); ASSUME.append(s.e>=lift(o)); return o
    return builtins.min(a,b)
class NPProxy:
    def __getattr__(s,n): return getattr(real_np,n)
    def zeros(s,shape,dtype=None):
        a=real_np.empty(shape,dtype=object); a[...]=0.0; return a
    def floor(s,x): return SN(z3.ToReal(z3.ToInt(x.e))) if isinstance(x,SN) else real_np.floor(x)
    def ceil(s,x): return SN(-z3.ToReal(z3.ToInt(-x.e))) if isinstance(x,SN) else real_np.ceil(x)
    def isfinite(s,a): return real_np.ones(real_np.shape(a),dtype=bool)
    def all(s,a): return True
class MathProxy:
    sin=staticmethod(lambda x: x.sin() if isinstance(x,SN) else math.sin(x))
    cos=staticmethod(lambda x: x.cos() if isinstance(x,SN) else math.cos(x))
    def __getattr__(s,n): return getattr(math,n)
SB.__bool__=lambda s: (ASSUME.append(s.e) or True)   # probe: assume every branch condition true (single path), recorded
fit=load('/repo/AegeanTools/fitting.py','AegeanTools.fitting_sym',{'math':MathProxy()})
import types
aeres=load('/repo/AegeanTools/AeRes.py','AegeanTools.sym_AeRes',{'np':NPProxy(),'max':sym_max,'min':sym_min,'fitting':fit})
R,C=4,5
class Src: pass
src=Src(); src.ra=real('ra'); src.dec=real('dec'); src.a=real('a'); src.b=real('b'); src.pa=real('pa'); src.peak_flux=real('peak'); src.island=0; src.source=0
XO,YO,SXP,SYP=real('XO'),real('YO'),real('SXP'),real('SYP'); TH=angle_deg('TH')
class WH:
    def sky2pix_ellipse(s,pos,a,b,pa): return XO,YO,SXP,SYP,TH
t=time.time()
m=aeres.make_model([src],(R,C),WH())
print('model built',time.time()-t,'assumptions',len(ASSUME))
c,s_=TH.radians()._cs()
F=1/(2*math.sqrt(2*math.log(2)))
ok=0
for i in range(R):
    for j in range(C):
        got=m[i,j]
        # got = 0.0 + peak*E ; reference exponent
        u=(i-(XO.e-1))*c+(j-(YO.e-1))*s_; v=(i-(XO.e-1))*s_-(j-(YO.e-1))*c
        sgx=SXP.e*z3.RealVal(str(sp.Rational(F))); sgy=SYP.e*z3.RealVal(str(sp.Rational(F)))
        ref=-(u*u/(sgx*sgx)+v*v/(sgy*sgy))/2
        # find E atom in got
        import re
        names=set(re.findall(r"E\d+", str(got.e))); Es=[E for E in sx.S.exps if str(E) in names]
        assert len(Es)==1
        nz.POS|={'SXP','SYP'}
        d=nz.normal(nz.to_sp(sx.S.exps[Es[0]]-ref,{}))
        ok+= (d==0)
print('pixels with identical exponent',ok,'of',R*C, 'time',round(time.time()-t,1))
print('sample assumptions:',[str(a)[:60] for a in ASSUME[:6]])
