import z3, math, types, importlib.util, sys, time
import numpy as real_np
from fractions import Fraction
K=z3.Real('K')  # pi/180
ATOMS={}   # (var) -> (c,s)
EXPS={}    # Evar -> exponent term
CONS=[K>0.0174, K<0.0175]
def atoms(v):
    if v not in ATOMS:
        c,s=z3.Real('c_'+v),z3.Real('s_'+v); ATOMS[v]=(c,s); CONS.append(c*c+s*s==1)
    return ATOMS[v]
def lift(o):
    if isinstance(o,SN): return o.e
    if isinstance(o,(int,real_np.integer)): return z3.RealVal(int(o))
    if isinstance(o,(float,real_np.floating)): return z3.RealVal(str(Fraction(float(o))))
    raise TypeError(type(o))
class SN:
    def __init__(s,e,ang=None): s.e=e; s.ang=ang   # ang=(coeffs dict, const_deg Fraction, power)
    def _lin(s,o,sign):
        if s.ang is None: return None
        if isinstance(o,SN):
            if o.ang is None or o.ang[2]!=s.ang[2]: return None
            co=dict(s.ang[0])
            for k,v in o.ang[0].items(): co[k]=co.get(k,0)+sign*v
            return (co, s.ang[1]+sign*o.ang[1], s.ang[2])
        if s.ang[2]==0 and isinstance(o,(int,float)): return (dict(s.ang[0]), s.ang[1]+sign*Fraction(o), 0)
        return None
    def __add__(s,o): return SN(s.e+lift(o), s._lin(o,1)); __radd__=__add__
    def __sub__(s,o): return SN(s.e-lift(o), s._lin(o,-1))
    def __rsub__(s,o): return SN(lift(o)-s.e)
    def __mul__(s,o):
        ang=None
        if s.ang is not None and isinstance(o,(int,float)): f=Fraction(o); ang=({k:v*f for k,v in s.ang[0].items()}, s.ang[1]*f, s.ang[2])
        return SN(s.e*lift(o),ang)
    __rmul__=__mul__
    def __truediv__(s,o): return SN(s.e/lift(o))
    def __rtruediv__(s,o): return SN(lift(o)/s.e)
    def __pow__(s,n):
        assert isinstance(n,int); r=s.e
        for _ in range(n-1): r=r*s.e
        return SN(r)
    def __neg__(s): return SN(-s.e)
    def radians(s): return SN(s.e*K, None if s.ang is None else (s.ang[0],s.ang[1],s.ang[2]+1))
    def _cs(s):
        assert s.ang is not None and s.ang[2]==1, 'trig of non-radian value'
        c,sn=z3.RealVal(1),z3.RealVal(0)
        for v,n in s.ang[0].items():
            assert n.denominator==1
            cv,sv=atoms(v); n=int(n)
            if n<0: sv=-sv; n=-n
            for _ in range(n): c,sn = c*cv-sn*sv, sn*cv+c*sv
        k=s.ang[1]
        assert k%90==0
        q=int(k//90)%4; cc,ss=[(1,0),(0,1),(-1,0),(0,-1)][q]
        c,sn = c*cc-sn*ss, sn*cc+c*ss
        return c,sn
    def sin(s): return SN(s._cs()[1])
    def cos(s): return SN(s._cs()[0])
    def exp(s):
        E=z3.Real('E%d'%len(EXPS)); EXPS[E]=z3.simplify(s.e); CONS.append(E>0); return SN(E)
class MathProxy:
    sin=staticmethod(lambda x: x.sin() if isinstance(x,SN) else math.sin(x))
    cos=staticmethod(lambda x: x.cos() if isinstance(x,SN) else math.cos(x))
    def __getattr__(s,n): return getattr(math,n)
def load(path,name,extra):
    spec=importlib.util.spec_from_file_location(name,path); m=importlib.util.module_from_spec(spec)
    sys.modules[name]=m; spec.loader.exec_module(m)
    for k,v in extra.items(): setattr(m,k,v)
    return m
fit=load('/repo/AegeanTools/fitting.py','AegeanTools.sym_fitting',{'math':MathProxy()})
class P:
    def __init__(s,value,vary=True): s.value=value; s.vary=vary; s.stderr=None
# derivative of z3 term
def deriv(t,var,angvar):
    # var: z3 Real variable (numeric) ; angvar: name if var is angle-deg variable
    if z3.is_rational_value(t) or z3.is_int_value(t): return z3.RealVal(0)
    if z3.is_const(t):
        if t.eq(var): return z3.RealVal(1)
        if angvar and angvar in ATOMS:
            c,s=ATOMS[angvar]
            if t.eq(c): return -K*s
            if t.eq(s): return K*c
        for E,g in EXPS.items():
            if t.eq(E): return E*deriv(g,var,angvar)
        return z3.RealVal(0)
    k=t.decl().kind(); ch=t.children()
    if k==z3.Z3_OP_ADD: return z3.Sum([deriv(c,var,angvar) for c in ch])
    if k==z3.Z3_OP_SUB:
        r=deriv(ch[0],var,angvar)
        for c in ch[1:]: r=r-deriv(c,var,angvar)
        return r
    if k==z3.Z3_OP_UMINUS: return -deriv(ch[0],var,angvar)
    if k==z3.Z3_OP_MUL:
        tot=z3.RealVal(0)
        for i in range(len(ch)):
            term=deriv(ch[i],var,angvar)
            for j in range(len(ch)):
                if j!=i: term=term*ch[j]
            tot=tot+term
        return tot
    if k==z3.Z3_OP_DIV:
        a,b=ch; return (deriv(a,var,angvar)*b-a*deriv(b,var,angvar))/(b*b)
    if k==z3.Z3_OP_POWER:
        a,n=ch; nv=n.as_long(); return nv*(a**(nv-1))*deriv(a,var,angvar)
    raise NotImplementedError(t.decl())
names=['amp','xo','yo','sx','sy','theta']
V={n:z3.Real(n) for n in names}
pars={'components':P(1,False)}
for n in names:
    pars['c0_'+n]=P(SN(V[n], ({'theta':Fraction(1)},Fraction(0),0) if n=='theta' else None))
x,y=SN(z3.Real('x')),SN(z3.Real('y'))
model=fit.elliptical_gaussian(x,y,*[pars['c0_'+n].value for n in names])
J=fit.jacobian(pars,x,y)
print('rows',len(J))
base=[V['sx']>0,V['sy']>0,V['amp']!=0]
for i,n in enumerate(names):
    true=deriv(model.e,V[n],'theta' if n=='theta' else None)
    sol=z3.Solver(); sol.set('timeout',120000); sol.add(CONS+base)
    # Ackermann for exps
    Es=list(EXPS.items())
    for a in range(len(Es)):
        for b in range(a+1,len(Es)):
            sol.add(z3.Implies(Es[a][1]==Es[b][1], Es[a][0]==Es[b][0]))
    sol.add(J[i].e!=true)
    t=time.time(); r=sol.check(); print(n,r,round(time.time()-t,2))
    if str(r)=='sat':
        m=sol.model(); print('   ',{k:m.eval(v) for k,v in V.items()})
