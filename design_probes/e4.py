import z3, sys, time, importlib.util, builtins
from fractions import Fraction
class Ctx:
    def __init__(s,trace): s.solver=z3.Solver(); s.trace=list(trace); s.pos=0; s.nq=0
CTX=None
def feasible(c):
    s=CTX.solver; s.push(); s.add(c); CTX.nq+=1; r=str(s.check())=='sat'; s.pop(); return r
def decide(cond):
    c=CTX; cond=z3.simplify(cond)
    if z3.is_true(cond): return True
    if z3.is_false(cond): return False
    if c.pos < len(c.trace): v=c.trace[c.pos]
    else:
        t=feasible(cond); f=feasible(z3.Not(cond))
        v = True if (t and f) else ('T' if t else 'F'); c.trace.append(v)
    c.pos+=1
    b = v in (True,'T'); c.solver.add(cond if b else z3.Not(cond)); return b
class SB:
    def __init__(s,e): s.e=e if z3.is_expr(e) else z3.BoolVal(bool(e))
    def __bool__(s): return decide(s.e)
TRUE=z3.BoolVal(True)
class G:
    """guarded number: concrete value, symbolic presence guard"""
    def __init__(s,v,g=TRUE): s.v=v; s.g=g
    def _o(s,o): return (o.v, z3.And(s.g,o.g)) if isinstance(o,G) else (o,s.g)
    def __add__(s,o): v,g=s._o(o); return G(s.v+v,g)
    __radd__=__add__
    def __mul__(s,o): v,g=s._o(o); return G(s.v*v,g)
    __rmul__=__mul__
    def __truediv__(s,o): v,g=s._o(o); return G(s.v/v,g)
    def __floordiv__(s,o): v,g=s._o(o); return G(s.v//v,g)
    def __mod__(s,o): v,g=s._o(o); return s.v%v
    def __eq__(s,o): return s.v==(o.v if isinstance(o,G) else o)
    def __hash__(s): return hash(s.v)
    def __int__(s): return s.v
    def __index__(s): return int(s.v)
    def __repr__(s): return f"G({s.v})"
INVALID=[]
class SymSet:
    def __init__(s,universe=(),bits=None,name=None):
        s.bits=dict(bits) if bits is not None else {}
        s.frac={}
    @property
    def U(s): return tuple(sorted(s.bits))
    @staticmethod
    def fresh(universe,name): return SymSet(universe,{u:z3.Bool(f'{name}_{u}') for u in universe})
    def _vg(s,x): return (x.v,x.g) if isinstance(x,G) else (x,TRUE)
    def _key(s,v,g):
        if v!=int(v):
            s.frac[v]=z3.Or(s.frac.get(v,z3.BoolVal(False)),g); return None
        s.bits.setdefault(int(v),z3.BoolVal(False))
        return int(v)
    def add(s,x):
        v,g=s._vg(x); k=s._key(v,g)
        if k is not None: s.bits[k]=z3.Or(s.bits[k],g)
    def update(s,it):
        if isinstance(it,SymSet):
            for u in it.U:
                k=s._key(u,it.bits[u])
                if k is not None: s.bits[k]=z3.Or(s.bits[k],it.bits[u])
        else:
            for x in it: s.add(x)
    def _other(s,it):
        if isinstance(it,SymSet): return {u:it.bits[u] for u in it.U}
        d={}
        for x in it:
            v,g=s._vg(x); d[v]=z3.Or(d.get(v,z3.BoolVal(False)),g)
        return d
    def difference_update(s,it):
        for v,g in s._other(it).items():
            if v in s.bits: s.bits[v]=z3.And(s.bits[v],z3.Not(g))
    def intersection_update(s,it):
        o=s._other(it)
        for u in s.U: s.bits[u]=z3.And(s.bits[u],o.get(u,z3.BoolVal(False)))
    def symmetric_difference_update(s,it):
        for v,g in s._other(it).items():
            k=s._key(v,g)
            if k is not None: s.bits[k]=z3.Xor(s.bits[k],g)
    def copy(s):
        c=SymSet((),s.bits); c.frac=dict(s.frac); return c
    def __iter__(s):
        for u in s.U:
            if not z3.is_false(z3.simplify(s.bits[u])): yield G(u,s.bits[u])
    def __contains__(s,x):
        v,g=s._vg(x)
        if v!=int(v) or int(v) not in s.bits: return False
        return bool(SB(s.bits[int(v)]))
    def count(s): return z3.Sum([z3.IntVal(0)]+[z3.If(b,1,0) for b in s.bits.values()])
class SymLen:
    def __init__(s,e): s.e=e
    def __eq__(s,o): return SB(s.e==o)
def sym_len(x): return SymLen(x.count()) if isinstance(x,SymSet) else builtins.len(x)
def sym_set(x=()):
    if isinstance(x,SymSet): return x.copy()
    if isinstance(x,(tuple,list)) and all(not isinstance(e,G) for e in x) and len(x)>0: return builtins.set(x)
    if isinstance(x,(tuple,list)) and len(x)>0: return builtins.set(x)
    r=SymSet(); r.update(x); return r
def sym_int(x): return G(int(x.v),x.g) if isinstance(x,G) else builtins.int(x)
def sym_sorted(x): return builtins.sorted(x,key=lambda a:a.v if isinstance(a,G) else a)
spec=importlib.util.spec_from_file_location('sym_regions','/repo/AegeanTools/regions.py'); reg=importlib.util.module_from_spec(spec)
spec.loader.exec_module(reg); reg.len=sym_len; reg.set=sym_set; reg.int=sym_int; reg.sorted=sym_sorted
D=3
UNI={1:[0],2:list(range(4)),3:list(range(16)),4:list(range(64))}
def mk(name,depth=D,cached=None):
    r=reg.Region.__new__(reg.Region); r.maxdepth=depth
    r.pixeldict={d:SymSet.fresh(UNI[d],f'{name}{d}') for d in range(1,depth+1)}
    r.demoted=SymSet()
    return r
def alpha(r):
    # deepest-level bits
    Dp=r.maxdepth; out={u:z3.BoolVal(False) for u in UNI[Dp]}
    for d in range(1,Dp+1):
        for u in UNI[d]:
            for k in range(4**(Dp-d)): out[u*4**(Dp-d)+k]=z3.Or(out[u*4**(Dp-d)+k], r.pixeldict[d].bits.get(u,z3.BoolVal(False)))
    return out
def inv(r):
    cs=[]
    Dp=r.maxdepth
    for d in range(2,Dp+1):
        for u in UNI[d]:
            for a in range(1,d):
                cs.append(z3.Not(z3.And(r.pixeldict[d].bits.get(u,z3.BoolVal(False)), r.pixeldict[a].bits.get(u//4**(d-a),z3.BoolVal(False)))))
    return z3.And(cs)
def invalid(r):
    out=[]
    for d,S in r.pixeldict.items():
        out+=list(S.frac.values())
        out+=[b for u,b in S.bits.items() if u not in UNI[d]]
    return out
def explore(fn):
    global CTX
    stack=[[]]; n=0; nq=0; res=[]
    while stack:
        tr=stack.pop(); CTX=Ctx(tr); INVALID.clear()
        out=fn(); n+=1; nq+=CTX.nq
        for i in range(len(tr),len(CTX.trace)):
            if CTX.trace[i] is True: stack.append(CTX.trace[:i]+[False])
        res.append(out)
    return n,nq,res
def check(name,neg):
    s=CTX.solver; s.push(); s.add(neg); CTX.nq+=1; r=str(s.check()); 
    m=None
    if r=='sat': mm=s.model(); m=sorted(str(d) for d in mm.decls() if z3.is_true(mm[d]))
    s.pop(); return (name,r,m)
def p_without():
    a=mk('a'); b=mk('b'); CTX.solver.add(inv(a),inv(b))
    ea,eb=alpha(a),alpha(b)
    a.without(b)
    na=alpha(a)
    bad=z3.Or([na[u]!=z3.And(ea[u],z3.Not(eb[u])) for u in UNI[D]]+[z3.Not(inv(a))]+invalid(a))
    return check('without',bad)
def p_uniq():
    a=mk('a'); CTX.solver.add(inv(a)); ea=alpha(a)
    if sys.argv[2:]==['q']: a.get_demoted()
    u=a._uniq()
    dec={x:z3.BoolVal(False) for x in UNI[D]}
    for g in u:
        v=g.v; d=0
        while v>=4*4**(d+1): d+=1
        p=v-4*4**d
        for k in range(4**(D-d)): dec[p*4**(D-d)+k]=z3.Or(dec[p*4**(D-d)+k],g.g)
    return check('uniq',z3.Or([dec[x]!=ea[x] for x in UNI[D]]))
def p_union_mixed():
    a=mk('a'); b=mk('b',depth=4); CTX.solver.add(inv(a),inv(b))
    ea,eb=alpha(a),alpha(b)
    a.union(b)
    na=alpha(a)
    exp={u: z3.Or([ea[u]]+[eb[4*u+k] for k in range(4)]) for u in UNI[3]}
    bad=z3.Or([na[u]!=exp[u] for u in UNI[3]]+invalid(a))
    return check('union43',bad)
t=time.time()
n,nq,res=explore({'without':p_without,'uniq':p_uniq,'union':p_union_mixed}[sys.argv[1]])
sat=[r for r in res if r[1]!='unsat']
print(sys.argv[1:],'paths',n,'queries',nq,'time',round(time.time()-t,2),'non-unsat',len(sat)); 
if sat: print(sat[0])
