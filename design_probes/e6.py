from sx import *
import nz, sympy as sp, numpy as np
at=load('/repo/AegeanTools/angle_tools.py','AegeanTools.sym_angle_tools')
ra=angle_deg('ra'); dec=angle_deg('dec'); r=angle_deg('r'); t=angle_deg('t')
ra2,dec2=at.translate(ra,dec,r,t)
print('translate ok', dec2.ang)
# min(1, sqrt(a)) forks -> patch np.minimum? gcd uses np.minimum(1, np.sqrt(a)) then arcsin; check hav directly instead:
dlon=ra2-ra; dlat=dec2-dec
a=np.sin(np.radians(dlat)/2)**2 + np.cos(np.radians(dec))*np.cos(np.radians(dec2))*np.sin(np.radians(dlon)/2)**2
cr,sr=r.radians()._cs()
nz.KEEPCOS.add('c_dec')
d=nz.identity('hav(translate)==hav(r)', a.e, (1-cr)/2)
# bearing from start to translated point equals t (direction)
rdec1=np.radians(dec); rdec2=np.radians(dec2); rdlon=np.radians(ra2-ra)
yb=np.sin(rdlon)*np.cos(rdec2); xb=np.cos(rdec1)*np.sin(rdec2)-np.sin(rdec1)*np.cos(rdec2)*np.cos(rdlon)
ct,st=t.radians()._cs()
nz.identity('bear cross', yb.e*ct - xb.e*st, z3.RealVal(0))
d=nz.identity('bear dot - sin r', yb.e*st + xb.e*ct, r.radians()._cs()[1])
