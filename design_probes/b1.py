import threading, time, multiprocessing as mp
def run(B, Ev, label):
    b=B(2); e=Ev(); out={}
    def t0():
        i=b.wait()
        e.wait()            # delayed between wait and reset
        if i==0: b.reset()
        try: b.wait(timeout=3); out['t0']='ok2'
        except Exception as ex: out['t0']=type(ex).__name__
    def t1():
        time.sleep(0.2)     # arrive second -> index 1
        i=b.wait()
        try: b.wait(timeout=3); out['t1']='ok2'
        except Exception as ex: out['t1']=type(ex).__name__
    a=threading.Thread(target=t0); c=threading.Thread(target=t1); a.start(); c.start()
    time.sleep(0.8); e.set(); a.join(); c.join(); print(label,out)
run(threading.Barrier, threading.Event,'threading')
ctx=mp.get_context('fork')
run(ctx.Barrier, ctx.Event,'multiprocessing(threads)')
