import sx, z3, sys, time, numpy as real_np
from sx import SN, SB, real, load, lift
class Ctx:
    def __init__(s,trace): s.solver=z3.Solver(); s.solver.set('timeout',20000); s.trace=list(trace); s.pos=0; s.nq=0; s.unk=0; s.ndefs=0
CTX=None
def sync():
    # push new definitional constraints into solver
    allc=list(sx.S.cons)+[c for v in sx.S.defs.values() for c in v]
    for c in allc[CTX.ndefs:]: CTX.solver.add(c)
    CTX.ndefs=len(allc)
def feas(c):
    s=CTX.solver; s.push(); s.add(c); CTX.nq+=1; r=str(s.check()); s.pop()
    if r=='unknown': CTX.unk+=1
    return r!='unsat'
def decide(cond):
    c=CTX; sync(); cond=z3.simplify(cond)
    if z3.is_true(cond): return True
    if z3.is_false(cond): return False
    if c.pos<len(c.trace): v=c.trace[c.pos]
    else:
        t=feas(cond); f=feas(z3.Not(cond)); v=True if (t and f) else ('T' if t else 'F'); c.trace.append(v)
    c.pos+=1; b=v in (True,'T'); c.solver.add(cond if b else z3.Not(cond)); return b
SB.__bool__=lambda s: decide(s.e)
SB.__and__=lambda s,o: SB(z3.And(s.e,o.e if isinstance(o,SB) else z3.BoolVal(bool(o))))
SB.__rand__=SB.__and__
def explore(fn):
    global CTX
    stack=[[]]; n=0; nq=0; unk=0; res=[]
    while stack:
        tr=stack.pop(); CTX=Ctx(tr); sx.reset()
        out=fn(); n+=1; nq+=CTX.nq; unk+=CTX.unk
        for i in range(len(tr),len(CTX.trace)):
            if CTX.trace[i] is True: stack.append(CTX.trace[:i]+[False])
        res.append(out)
    return n,nq,unk,res
class NPProxy:
    def __getattr__(s,n): return getattr(real_np,n)
    def isfinite(s,a): return real_np.ones(real_np.shape(a),dtype=bool)
    def std(s,a):
        a=list(a); n=len(a); m=sum(a[1:],a[0])/n
        v=sum(((x-m)**2 for x in a[1:]),(a[0]-m)**2)/n
        return v.sqrt()
    def mean(s,a):
        a=list(a); return sum(a[1:],a[0])/len(a)
SN.__hash__=lambda s:id(s)
bane=load('/repo/AegeanTools/BANE.py','AegeanTools.sym_BANE',{'np':NPProxy()})
N=int(sys.argv[1]); LO=float(sys.argv[2])
def prop():
    vals=[real(f'v{i}') for i in range(N)]
    arr=real_np.array(vals,dtype=object)
    m,s=bane.sigmaclip(arr,LO,LO)
    c=real('c')
    arr2=real_np.array([v+c for v in vals],dtype=object)
    m2,s2=bane.sigmaclip(arr2,LO,LO)
    sync(); sol=CTX.solver; out=[]
    for name,neg in [('mean shift', m2.e!=m.e+c.e), ('std same', s2.e!=s.e), ('std>=0', s.e<0)]:
        sol.push(); sol.add(neg); CTX.nq+=1; t=time.time(); r=str(sol.check()); out.append((name,r,round(time.time()-t,2))); sol.pop()
    return out
t=time.time(); n,nq,unk,res=explore(prop)
print('N',N,'paths',n,'queries',nq,'unknown-in-fork',unk,'time',round(time.time()-t,1))
from collections import Counter
print(Counter((a,b) for r in res for a,b,_ in r))
