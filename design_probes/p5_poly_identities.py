"""pure polynomial trig identities are instantaneous in z3 (translate vs vector model; haversine == dot product)"""
import z3, time, sys
R=z3.Real
def chk(name,cons,neg,to=120000):
    sol=z3.Solver(); sol.set('timeout',to); sol.add(cons); sol.add(neg)
    t=time.time(); r=sol.check(); print(name,r, round(time.time()-t,2)); sys.stdout.flush()
c1,s1,cr,sr,ct,st=[R(n) for n in 'c1 s1 cr sr ct st'.split()]
cons=[c1*c1+s1*s1==1, cr*cr+sr*sr==1, ct*ct+st*st==1]
s2=s1*cr + c1*sr*ct
yy = st*sr*c1; xx = cr - s1*s2
xp = cr*c1 - sr*ct*s1; yp = sr*st
chk('cross',cons, xp*yy-yp*xx!=0)
chk('dot>=0',cons+[c1>=0], xp*xx+yp*yy<0)
chk('h2=(c1c2)^2',cons, xx*xx+yy*yy != c1*c1*(1-s2*s2))
a1c,a1s,a2c,a2s,lc,ls=[R(n) for n in 'a1c a1s a2c a2s lc ls'.split()]
cons2=[a1c**2+a1s**2==1,a2c**2+a2s**2==1,lc**2+ls**2==1]
def dbl(c,s): return (c*c-s*s, 2*s*c)
C1,S1=dbl(a1c,a1s); C2,S2=dbl(a2c,a2s); CL,SL=dbl(lc,ls)
sdl = a2s*a1c - a2c*a1s
a = sdl**2 + C1*C2*ls**2
dot = C1*C2*CL + S1*S2
chk('hav=vec',cons2, 1-2*a != dot)
