from sx import *
import sx
wh=load('/repo/AegeanTools/wcs_helpers.py','AegeanTools.sym_wcs_helpers')
# flat stubs for translate/gcd/bear with constant C=cos(dec0)
C=real('C'); 
def translate(ra,dec,r,pa): return ra + r*np_.sin(np_.radians(pa))/C, dec + r*np_.cos(np_.radians(pa))
def gcd(ra1,dec1,ra2,dec2): return np_.hypot((ra2-ra1)*C, dec2-dec1)
def bear(ra1,dec1,ra2,dec2): return np_.degrees(np_.arctan2((ra2-ra1)*C, dec2-dec1))
import numpy as np_
wh.translate,wh.gcd,wh.bear=translate,gcd,bear
k=real('k'); crho,srho=z3.Real('crho'),z3.Real('srho'); sig=real('sig')
px0,py0,ra0,dec0=[real(n) for n in 'px0 py0 ra0 dec0'.split()]
class FakeWCS:
    def all_pix2world(s,pix,origin,ra_dec_order=False):
        (X,Y),=pix
        dx,dy=X-px0,Y-py0
        e=k*(SN(crho)*sig*dx - SN(srho)*dy); n=k*(SN(srho)*sig*dx + SN(crho)*dy)
        return [[ra0+e/C, dec0+n]]
    def all_world2pix(s,pos,origin,ra_dec_order=False):
        (ra,dec),=pos
        e=(ra-ra0)*C; n=dec-dec0
        a=SN(crho)*e+SN(srho)*n; b=-SN(srho)*e+SN(crho)*n
        return [[a/k/sig+px0, b/k+py0]]
h=wh.WCSHelper.__new__(wh.WCSHelper); h.wcs=FakeWCS(); h.ra_dec_order=False
base=[k.e>0, C.e>0, C.e<=1, crho*crho+srho*srho==1, z3.Or(sig.e==1,sig.e==-1)]
x,y,sxv,syv=[real(n) for n in 'x y sx sy'.split()]; th=angle_deg('th')
base+=[sxv.e>0,syv.e>0]
# vector round trip
ra,dec,r,pa=h.pix2sky_vec((x,y),sxv,th)
x2,y2,r2,t2=h.sky2pix_vec((ra,dec),r,pa)
# direction equality of t2 and th: compare atoms
c_t2,s_t2=t2.radians()._cs(); c_th,s_th=th.radians()._cs()
prove('vec roundtrip pos',[x2.e==x.e,y2.e==y.e],base)
prove('vec roundtrip len',[r2.e==sxv.e],base)
prove('vec roundtrip ang',[c_t2==c_th,s_t2==s_th],base)
