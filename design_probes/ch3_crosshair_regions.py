"""CrossHair harness probe: finds _uniq counterexample in seconds; 'Not confirmed' for without() at 120 s.
run: crosshair check --report_all --per_condition_timeout 120 ch3_crosshair_regions.py"""
from typing import Set
from AegeanTools.regions import Region
U2 = (0, 1); U3 = tuple(range(8))
def _mk(l2, l3, demote):
    r = Region(maxdepth=3); r.pixeldict[2] = set(l2); r.pixeldict[3] = set(l3)
    if demote: r.get_demoted()
    return r
def _valid(l2, l3):
    return (all(p in U2 for p in l2) and all(p in U3 for p in l3) and all((p // 4) not in l2 for p in l3))
def _deep(r):
    out = set()
    for p in r.pixeldict[1]: out |= {16*p+k for k in range(16)}
    for p in r.pixeldict[2]: out |= {4*p+k for k in range(4)}
    out |= set(r.pixeldict[3]); return out
def _wf(r):
    ok = True
    for d in (1, 2, 3):
        for p in r.pixeldict[d]: ok = ok and (p == int(p)) and 0 <= p < 12 * 4**d
    return ok
def without_ok(a2: Set[int], a3: Set[int], b2: Set[int], b3: Set[int], da: bool, db: bool) -> bool:
    """
    pre: len(a2) <= 2 and len(a3) <= 4 and len(b2) <= 2 and len(b3) <= 4
    pre: _valid(a2, a3) and _valid(b2, b3)
    post: _
    """
    a = _mk(a2, a3, da); b = _mk(b2, b3, db); ea, eb = _deep(a), _deep(b)
    a.without(b)
    return _deep(a) == ea - eb and _deep(b) == eb and _wf(a) and set(a.get_demoted()) == ea - eb
def uniq_ok(a2: Set[int], a3: Set[int], da: bool) -> bool:
    """
    pre: len(a2) <= 2 and len(a3) <= 4
    pre: _valid(a2, a3)
    post: _
    """
    a = _mk(a2, a3, da); ea = _deep(a); dec = set()
    for u in a._uniq():
        d = 0
        while u >= 4 * 4**(d+1): d += 1
        p = u - 4 * 4**d
        dec |= {p * 4**(3-d) + k for k in range(4**(3-d))}
    return dec == ea
