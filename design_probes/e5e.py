exec(open('e5.py').read().split("# vector round trip")[0])
import nz, sympy as sp
nz.POS|={'k','C','sx','sy','A_','B_'}
nz.UNIT.append(sp.Symbol('sig',real=True))
def rc(sn): return radicand_of(sn)
# register rotation atoms
env0={}
SX_=__import__('sx')
SX_.S.atoms['rho']=(crho,srho)
ra,dec,a,b,pa=h.pix2sky_ellipse((x,y),sxv,syv,th)
nz.identity('A major == k*sx', a.e, k.e*sxv.e)
nz.identity('A minor == k*sy', b.e, k.e*syv.e)
x3,y3,sx3,sy3,th3=h.sky2pix_ellipse((ra,dec),a,b,pa)
nz.identity('RT x', x3.e, x.e); nz.identity('RT y', y3.e, y.e)
nz.identity('RT sx', sx3.e, sxv.e)
nz.identity('RT sy', sy3.e, syv.e)
tx,ty=direction(th3); cth,sth=th.radians()._cs()
nz.identity('RT theta cross', tx*sth-ty*cth, z3.RealVal(0))
