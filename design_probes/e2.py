import z3, math, types, importlib.util, sys, builtins, time, copy
import numpy as real_np
from fractions import Fraction
class Ctx:
    def __init__(s,trace): s.solver=z3.Solver(); s.trace=list(trace); s.pos=0; s.nq=0
CTX=None
def feasible(c):
    s=CTX.solver; s.push(); s.add(c); CTX.nq+=1; r=str(s.check())=='sat'; s.pop(); return r
def decide(cond):
    c=CTX
    if z3.is_true(cond): return True
    if z3.is_false(cond): return False
    if c.pos < len(c.trace): v=c.trace[c.pos]
    else:
        t=feasible(cond); f=feasible(z3.Not(cond))
        v = True if (t and f) else ('T' if t else 'F'); c.trace.append(v)
    c.pos+=1
    b = v in (True,'T'); c.solver.add(cond if b else z3.Not(cond)); return b
class SB:
    def __init__(s,e): s.e=e
    def __bool__(s): return decide(s.e)
    def __or__(s,o): return SB(z3.Or(s.e,lb(o))); __ror__=__or__
    def __and__(s,o): return SB(z3.And(s.e,lb(o))); __rand__=__and__
    def __invert__(s): return SB(z3.Not(s.e))
def lb(o): return o.e if isinstance(o,SB) else z3.BoolVal(bool(o))
def lift(o):
    if isinstance(o,SN): return o.e
    if isinstance(o,(int,real_np.integer)): return z3.RealVal(int(o))
    if isinstance(o,(float,real_np.floating)): return z3.RealVal(str(Fraction(float(o))))
    raise TypeError(type(o))
class SN:
    def __init__(s,e): s.e=e
    def __add__(s,o): return SN(s.e+lift(o)); __radd__=__add__
    def __sub__(s,o): return SN(s.e-lift(o))
    def __rsub__(s,o): return SN(lift(o)-s.e)
    def __mul__(s,o): return SN(s.e*lift(o)); __rmul__=__mul__
    def __truediv__(s,o): return SN(s.e/lift(o))
    def __rtruediv__(s,o): return SN(lift(o)/s.e)
    def __neg__(s): return SN(-s.e)
    def __lt__(s,o): return SB(s.e<lift(o))
    def __le__(s,o): return SB(s.e<=lift(o))
    def __gt__(s,o): return SB(s.e>lift(o))
    def __ge__(s,o): return SB(s.e>=lift(o))
    def __abs__(s): return SN(z3.If(s.e>=0,s.e,-s.e))
    def __deepcopy__(s,memo): return s
class NPProxy:
    def __getattr__(s,n): return getattr(real_np,n)
    def isfinite(s,a):
        if isinstance(a,real_np.ndarray) and a.dtype==object:
            return real_np.array([[ (True if isinstance(v,SN) else bool(real_np.isfinite(v))) for v in row] for row in a],dtype=bool) if a.ndim==2 else real_np.array([True if isinstance(v,SN) else bool(real_np.isfinite(v)) for v in a],dtype=bool)
        return real_np.isfinite(a)
    def nan_to_num(s,a):
        if isinstance(a,real_np.ndarray) and a.dtype==object:
            out=a.copy()
            for idx,v in real_np.ndenumerate(a):
                if not isinstance(v,SN) and real_np.isnan(v): out[idx]=0.0
            return out
        return real_np.nan_to_num(a)
    def array(s,a,dtype=None,**k):
        if dtype is bool and isinstance(a,real_np.ndarray) and a.dtype==object:
            out=real_np.zeros(a.shape,dtype=bool)
            for idx,v in real_np.ndenumerate(a):
                out[idx]= bool(v!=0) if isinstance(v,SN) else bool(v)
            return out
        return real_np.array(a,dtype=dtype,**k)
def SNne(s,o): return SB(s.e!=lift(o))
SN.__ne__=SNne
SN.__eq__=lambda s,o: SB(s.e==lift(o))
SN.__hash__=lambda s: id(s)
def load(path,name,extra):
    spec=importlib.util.spec_from_file_location(name,path); m=importlib.util.module_from_spec(spec)
    sys.modules[name]=m
    spec.loader.exec_module(m)
    for k,v in extra.items(): setattr(m,k,v)
    return m
import AegeanTools.models as models   # real models (uses real numpy; fine for bbox on concrete bools)
sf=load('/repo/AegeanTools/source_finder.py','AegeanTools.sym_source_finder',{'np':NPProxy()})
def explore(fn):
    global CTX
    stack=[[]]; n=0; res=[]; nq=0
    while stack:
        tr=stack.pop(); CTX=Ctx(tr)
        out=fn(); n+=1; nq+=CTX.nq
        for i in range(len(tr),len(CTX.trace)):
            if CTX.trace[i] is True: stack.append(CTX.trace[:i]+[False])
        res.append(out)
    return n,nq,res
R,Cc=int(sys.argv[1]),int(sys.argv[2])
def neighbours8(mask):
    # reference flood fill
    seen=set(); comps=[]
    for r in range(R):
        for c in range(Cc):
            if mask[r][c] and (r,c) not in seen:
                st=[(r,c)]; seen.add((r,c)); comp=[]
                while st:
                    a,b=st.pop(); comp.append((a,b))
                    for da in (-1,0,1):
                        for db in (-1,0,1):
                            q=(a+da,b+db)
                            if 0<=q[0]<R and 0<=q[1]<Cc and mask[q[0]][q[1]] and q not in seen: seen.add(q); st.append(q)
                comps.append(sorted(comp))
    return comps
viol=[]
def prop():
    im=real_np.empty((R,Cc),dtype=object)
    for r in range(R):
        for c in range(Cc): im[r,c]=SN(z3.Real(f'v_{r}_{c}'))
    flood=SN(z3.Real('flood')); seed=SN(z3.Real('seed'))
    CTX.solver.add(flood.e>0, seed.e>=flood.e)
    isl=sf.find_islands(im, real_np.zeros((R,Cc)), real_np.ones((R,Cc)), seed_clip=seed, flood_clip=flood)
    # path-concrete flood mask: recover by asking decide on each pixel (already implied)
    mask=[[bool(abs(im[r,c])>=flood) for c in range(Cc)] for r in range(R)]
    comps=neighbours8(mask)
    got=[]
    for i in isl:
        (r0,r1),(c0,c1)=i.bounding_box
        pix=sorted((r0+a,c0+b) for a in range(i.mask.shape[0]) for b in range(i.mask.shape[1]) if not i.mask[a,b])
        got.append(pix)
    # expected: comp kept iff exists own pixel > seed   (symbolic)
    s=CTX.solver
    for comp in comps:
        own=z3.Or([ (abs(im[r,c])>seed).e for r,c in comp])
        kept = comp in got
        s.push(); s.add(own if not kept else z3.Not(own)); CTX.nq+=1
        if str(s.check())=='sat':
            m=s.model(); viol.append((mask,comp,kept,{str(d):str(m[d]) for d in m.decls()}))
        s.pop()
    for g in got:
        if g not in comps: viol.append(('notcomp',mask,g))
    return len(isl)
t=time.time(); n,nq,res=explore(prop); print('paths',n,'queries',nq,'time',round(time.time()-t,1),'violations',len(viol))
if viol: print(viol[0])
