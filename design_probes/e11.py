"""probe: real cluster.regroup_dbscan with DBSCAN replaced by its min_samples=1 contract over SYMBOLIC distances (C19)."""
import sys, time, z3, numpy as real_np
import sx
from sx import SN, SB, real, angle_deg
exec(open('pk1.py').read().split("t=time.time(); m=load_private()")[0])
M=load_private(); cl=M['cluster']
class Ctx:
    def __init__(s,trace): s.solver=z3.Solver(); s.solver.set('timeout',10000); s.trace=list(trace); s.pos=0; s.nq=0; s.unk=0; s.nd=0
CTX=None
def sync():
    allc=list(sx.S.cons)+[c for v in sx.S.defs.values() for c in v]
    for c in allc[CTX.nd:]: CTX.solver.add(c)
    CTX.nd=len(allc)
def feas(c):
    s=CTX.solver; s.push(); s.add(c); CTX.nq+=1; r=str(s.check()); s.pop()
    if r=='unknown': CTX.unk+=1
    return r!='unsat'
def decide(cond):
    c=CTX; sync(); cond=z3.simplify(cond)
    if z3.is_true(cond): return True
    if z3.is_false(cond): return False
    if c.pos<len(c.trace): v=c.trace[c.pos]
    else:
        t=feas(cond); f=feas(z3.Not(cond)); v=True if (t and f) else ('T' if t else 'F'); c.trace.append(v)
    c.pos+=1; b=v in (True,'T'); c.solver.add(cond if b else z3.Not(cond)); return b
SB.__bool__=lambda s: decide(s.e)
def explore(fn):
    global CTX
    stack=[[]]; n=0; nq=0; unk=0; res=[]
    while stack:
        tr=stack.pop(); CTX=Ctx(tr); sx.reset()
        res.append(fn()); n+=1; nq+=CTX.nq; unk+=CTX.unk
        for i in range(len(tr),len(CTX.trace)):
            if CTX.trace[i] is True: stack.append(CTX.trace[:i]+[False])
    return n,nq,unk,res
class DBSCANStub:
    """contract of sklearn DBSCAN(min_samples=1): labels = connected components of {|Xi-Xj| <= eps}, numbered by first member"""
    def __init__(s,eps,min_samples): s.eps=eps; assert min_samples==1
    def fit(s,X):
        n=len(X); parent=list(range(n)); s.adj={}
        def find(a):
            while parent[a]!=a: a=parent[a]
            return a
        for i in range(n):
            for j in range(i+1,n):
                d2=sum(((X[i][k]-X[j][k])**2 for k in (1,2)),(X[i][0]-X[j][0])**2)
                link=bool(d2<=s.eps*s.eps); s.adj[(i,j)]=link
                if link: parent[find(j)]=find(i)
        roots=[]; lab=[]
        for i in range(n):
            r=find(i)
            if r not in roots: roots.append(r)
            lab.append(roots.index(r))
        s.labels_=real_np.array(lab); DBSCANStub.last=s; return s
cl.DBSCAN=DBSCANStub
class Src:
    def __init__(s,i): s.ra=angle_deg(f'ra{i}'); s.dec=angle_deg(f'dec{i}'); s.peak_flux=real(f'f{i}'); s.island=-1; s.source=-1; s.tag=i
N=int(sys.argv[1])
def prop():
    srcs=[Src(i) for i in range(N)]; eps=real('eps'); CTX.solver.add(eps.e>0,eps.e<2)
    groups=cl.regroup_dbscan(srcs,eps=eps)
    sync(); sol=CTX.solver; out=[]
    # partition
    tags=sorted(s.tag for g in groups for s in g); out.append(('partition',tags==list(range(N))))
    # numbering by decreasing flux inside each group, unique labels
    labs=[(s.island,s.source) for s in srcs]; out.append(('labels unique',len(set(labs))==N))
    for g in groups:
        for a in g:
            for b in g:
                if a.source<b.source:
                    sol.push(); sol.add(a.peak_flux.e<b.peak_flux.e); CTX.nq+=1; r=str(sol.check()); sol.pop(); out.append(('flux order',r=='unsat'))
    # embedding identity: chord^2 == 2-2cos(sep) with the vector oracle for pair (0,1)
    return out
t=time.time(); n,nq,unk,res=explore(prop)
from collections import Counter
print('N',N,'paths',n,'queries',nq,'unknown',unk,'time',round(time.time()-t,1), Counter((a,b) for r in res for a,b in r))
