"""probe: run the REAL SourceFinder.result_to_components on a symbolic fitted model (C01-K2 / C03-K4),
private package copy, record Params, opaque bkg/rms, conformal-flat WCS stub, errors() cut."""
import sys, types, importlib, importlib.util, time, math, builtins
import numpy as real_np, z3, sympy as sp
import sx, nz
from sx import SN, SB, real, angle_deg, radicand_of, direction
sys.path.insert(0,'.')
exec(open('pk1.py').read().split("t=time.time(); m=load_private()")[0])
M=load_private()
sf=M['source_finder']; wh=M['wcs_helpers']; fit=M['fitting']; at=M['angle_tools']
ASSUME=[]
TRACE=[]; POS=[0]
def _decide(s):
    # scripted decisions: follow TRACE (list of bools), default True; record condition
    i=POS[0]; POS[0]+=1
    v=TRACE[i] if i<len(TRACE) else True
    ASSUME.append(s.e if v else z3.Not(s.e)); return v
SB.__bool__=_decide
class NPProxy:
    def __getattr__(s,n): return getattr(real_np,n)
    def isfinite(s,a): return True if isinstance(a,SN) else real_np.ones(real_np.shape(a),dtype=bool)
    def median(s,a): return real('res_med')
    def std(s,a): return real('res_std')
def sym_round(x): return x if not isinstance(x,SN) else SN(z3.ToReal(z3.ToInt(x.e+z3.RealVal('1/2'))))
def sym_int(x): return x if isinstance(x,SN) else builtins.int(x)
def sym_max(a,b): return b if isinstance(a,SN) else (a if isinstance(b,SN) else builtins.max(a,b))   # probe: clamp ignored (assumed inside)
def sym_min(a,b): return a if isinstance(a,SN) else (b if isinstance(b,SN) else builtins.min(a,b))
class MathProxy:
    sin=staticmethod(lambda x: x.sin() if isinstance(x,SN) else math.sin(x))
    cos=staticmethod(lambda x: x.cos() if isinstance(x,SN) else math.cos(x))
    def __getattr__(s,n): return getattr(math,n)
for mod in (sf,wh,fit,at):
    mod.np=NPProxy()
sf.round=sym_round; sf.int=sym_int; sf.max=sym_max; sf.min=sym_min; fit.math=MathProxy()
sf.dec2hms=lambda x:'HMS'; sf.dec2dms=lambda x:'DMS'          # strings are C17's business
class Cut(Exception): pass
def cut_errors(source,model,wcshelper): return source
sf.errors=cut_errors
CC=real('CC'); sf.CC2FHWM=CC; sf.FWHM2CC=1/CC     # named float constants become symbolic constants with their relation
sf.pa_limit=lambda pa: pa      # loops on an unconstrained angle value: separate kernel (C03-K2)
# flat-sky stubs + conformal WCS (as e5)
C=real('C'); import numpy as np_
wh.translate=lambda ra,dec,r,pa:(ra + r*np_.sin(np_.radians(pa))/C, dec + r*np_.cos(np_.radians(pa)))
wh.gcd=lambda ra1,dec1,ra2,dec2: np_.hypot((ra2-ra1)*C, dec2-dec1)
wh.bear=lambda ra1,dec1,ra2,dec2: np_.degrees(np_.arctan2((ra2-ra1)*C, dec2-dec1))
k=real('k'); crho,srho=z3.Real('crho'),z3.Real('srho'); sig=real('sig')
px0,py0,ra0,dec0=[real(n) for n in 'px0 py0 ra0 dec0'.split()]
class FakeWCS:
    def all_pix2world(s,pix,origin,ra_dec_order=False):
        (X,Y),=pix; dx,dy=X-px0,Y-py0
        e=k*(SN(crho)*sig*dx - SN(srho)*dy); n=k*(SN(srho)*sig*dx + SN(crho)*dy)
        return [[ra0+e/C, dec0+n]]
    def all_world2pix(s,pos,origin,ra_dec_order=False):
        (ra,dec),=pos; e=(ra-ra0)*C; n=dec-dec0
        a=SN(crho)*e+SN(srho)*n; b=-SN(srho)*e+SN(crho)*n
        return [[a/k/sig+px0, b/k+py0]]
helper=wh.WCSHelper.__new__(wh.WCSHelper); helper.wcs=FakeWCS(); helper.ra_dec_order=False; helper.psf_file=None
PA_,PB_=real('psfa'),real('psfb'); helper._psf_a,helper._psf_b,helper._psf_theta=PA_,PB_,angle_deg('psft')
class Par:
    def __init__(s,value,vary=True): s.value=value; s.vary=vary; s.stderr=None; s.max=None
    def set(s,value=None,max=None):
        if value is not None: s.value=value
class Model(dict): pass
names=['amp','xo','yo','sx','sy']; V={n:real(n) for n in names}; TH=angle_deg('theta')
model=Model({'components':Par(1,False),'c0_flags':Par(0,False),'c0_theta':Par(TH)})
for n in names: model['c0_'+n]=Par(V[n])
class Opaque:
    def __init__(s,name): s.name=name; s.shape=(50,50)
    def __getitem__(s,i): return s if isinstance(i,tuple) and isinstance(i[0],slice) else real(f'{s.name}_at')
finder=sf.SourceFinder()
gd=finder.global_data; gd.rmsimg=Opaque('rms'); gd.bkgimg=Opaque('bkg'); gd.wcshelper=helper; gd.psfhelper=helper; gd.blank=False
class Res: residual=[0.0]
XMIN,YMIN=7,11
isl=M['models'].IslandFittingData(3,i=None,scalars=(5,4,None),offsets=(XMIN,XMIN+9,YMIN,YMIN+9),doislandflux=False)
t=time.time()
src,=finder.result_to_components(Res(),model,isl,0)
print('executed result_to_components in',round(time.time()-t,2),'s; branch assumptions recorded:',len(ASSUME))
nz.POS|={'k','C','sx','sy','psfa','psfb','CC'}; nz.UNIT.append(sp.Symbol('sig',real=True)); sx.S.atoms['rho']=(crho,srho); nz.KEEPCOS|=set()
# oracle: FITS pixel (col=yo+ymin+1, row=xo+xmin+1); helper pixel=(row,col)
row=V['xo'].e+XMIN+1; col=V['yo'].e+YMIN+1
(ra_o,dec_o),=FakeWCS().all_pix2world([[SN(col),SN(row)]],1)
Fz=CC.e
res=[]
res.append(nz.identity('ra', src.ra.e, ra_o.e)); res.append(nz.identity('dec', src.dec.e, dec_o.e))
res.append(nz.identity('peak', src.peak_flux.e, V['amp'].e))
print('recorded branch conditions:',[str(a)[:70].replace(chr(10),' ') for a in ASSUME])
big,small=(src.a,src.b)
res.append(nz.identity('a*b == k^2*sx*sy*F^2*3600^2', big.e*small.e, k.e*k.e*V['sx'].e*V['sy'].e*Fz*Fz*3600*3600))
res.append(nz.identity('int_flux == peak*a*b/(psf_a*psf_b in sky units)', src.int_flux.e, V['amp'].e*(big.e*small.e)/((k.e*PA_.e*3600)*(k.e*PB_.e*3600))))
res=[r.subs(sp.Abs(sp.Symbol('sig',real=True)),1) for r in res]
print('residuals modulo |sig|=1:',[sp.simplify(r) for r in res])
