"""C16 pixel<->sky conversion of positions, vectors, ellipses: inverse and correct.
K-points : real WCSHelper.pix2sky/sky2pix with the WCS as uninterpreted functions with an inverse axiom
K-vectors: real *_vec / *_ellipse with a conformal first-order WCS (scale, rotation, handedness, reference point all
           symbolic) and first-order planar translate/gcd/bear; round trips and conventions via the trig normaliser."""
import math
import random
import sys

import numpy as real_np
import z3

from symx import core, loader, nz
from symx.core import SN, SB, real, angle_deg, explore
from symx.report import main

PID = 'C16'
F = 'AegeanTools/wcs_helpers.py'


def sym_wh():
    mods = loader.load_private(['angle_tools', 'wcs_helpers'])
    wh = mods['wcs_helpers']
    loader.patch(wh, np=loader.NPProxy(sym_pi=True))
    return wh


# ------------------------------------------------------------------ K-points
R2 = z3.RealSort()
Wra = z3.Function('Wra', R2, R2, R2)
Wdec = z3.Function('Wdec', R2, R2, R2)
Vx = z3.Function('Vx', R2, R2, R2)
Vy = z3.Function('Vy', R2, R2, R2)
WraCore = z3.Function('WraCore', R2, R2, R2)
WdecCore = z3.Function('WdecCore', R2, R2, R2)
VxCore = z3.Function('VxCore', R2, R2, R2)
VyCore = z3.Function('VyCore', R2, R2, R2)


class UFWcs:
    def __init__(self):
        self.calls = []

    def all_pix2world(self, pix, origin, ra_dec_order=False):
        (X, Y), = pix
        self.calls.append(('p2w', X, Y, origin, ra_dec_order))
        x0, y0 = core._toreal(core.lift(X)) - origin, core._toreal(core.lift(Y)) - origin
        return [[SN(Wra(x0, y0)), SN(Wdec(x0, y0))]]

    def all_world2pix(self, pos, origin, ra_dec_order=False):
        (ra, dec), = pos
        self.calls.append(('w2p', ra, dec, origin, ra_dec_order))
        a, d = core._toreal(core.lift(ra)), core._toreal(core.lift(dec))
        return [[SN(Vx(a, d) + origin), SN(Vy(a, d) + origin)]]

    # astropy's wcs_* methods apply the core transformation only (no SIP / distortion-table corrections): in general a
    # DIFFERENT function from the full all_* transformation
    def wcs_pix2world(self, pix, origin, ra_dec_order=False):
        (X, Y), = pix
        self.calls.append(('p2w-core', X, Y, origin, ra_dec_order))
        x0, y0 = core._toreal(core.lift(X)) - origin, core._toreal(core.lift(Y)) - origin
        return [[SN(WraCore(x0, y0)), SN(WdecCore(x0, y0))]]

    def wcs_world2pix(self, pos, origin, ra_dec_order=False):
        (ra, dec), = pos
        self.calls.append(('w2p-core', ra, dec, origin, ra_dec_order))
        a, d = core._toreal(core.lift(ra)), core._toreal(core.lift(dec))
        return [[SN(VxCore(a, d) + origin), SN(VyCore(a, d) + origin)]]


def mk_helper(wh, w):
    """a helper on the WCS stand-in, built by the real constructor so that whatever state it sets up exists; falls back to a
    bare object if the constructor wants more than a stand-in can give"""
    try:
        # a psf file name keeps the constructor from converting the beam at the reference pixel (the stand-in has no beam);
        # the name is never opened
        helper = wh.WCSHelper(w, None, (-0.001, 0.001), (100.0, 80.0), 'unused_psf.fits')
    except Exception:
        helper = wh.WCSHelper.__new__(wh.WCSHelper)
    if hasattr(w, 'calls'):
        del w.calls[:]
    helper.wcs = w
    helper.ra_dec_order = True
    helper.refpix = (100.0, 80.0)
    helper.pixscale = (-0.001, 0.001)
    helper.beam = None
    helper.psf_file = None
    return helper


def h_two_helpers(wh):
    """two images in one process with the same reference pixel / pixel scale / beam but different pointings:
    each helper answers from its OWN WCS (results depend on nothing else)"""
    Wra2 = z3.Function('Wra2', R2, R2, R2)
    Wdec2 = z3.Function('Wdec2', R2, R2, R2)
    Vx2 = z3.Function('Vx2', R2, R2, R2)
    Vy2 = z3.Function('Vy2', R2, R2, R2)

    class UF2(UFWcs):
        def all_pix2world(self, pix, origin, ra_dec_order=False):
            (X, Y), = pix
            x0, y0 = core._toreal(core.lift(X)) - origin, core._toreal(core.lift(Y)) - origin
            return [[SN(Wra2(x0, y0)), SN(Wdec2(x0, y0))]]

        def all_world2pix(self, pos, origin, ra_dec_order=False):
            (ra, dec), = pos
            a, d = core._toreal(core.lift(ra)), core._toreal(core.lift(dec))
            return [[SN(Vx2(a, d) + origin), SN(Vy2(a, d) + origin)]]

    def h(c):
        helpers = []
        for w in (UFWcs(), UF2()):
            hp_ = wh.WCSHelper.__new__(wh.WCSHelper)
            hp_.wcs = w
            hp_.ra_dec_order = True
            hp_.refpix = (100.0, 80.0)
            hp_.pixscale = (-0.001, 0.001)
            hp_.beam = None
            hp_.psf_file = None
            hp_._psf_a = hp_._psf_b = hp_._psf_theta = 1.0
            helpers.append(hp_)
        ra, dec = real('ra'), real('dec')
        p1 = helpers[0].sky2pix((ra, dec))
        p2 = helpers[1].sky2pix((ra, dec))
        c.oblige('two-helpers:each helper converts with its own WCS (sky2pix)', z3.And(core.lift(p1[0]) == Vy(ra.e, dec.e) + 1, core.lift(p1[1]) == Vx(ra.e, dec.e) + 1,
                                                                                    core.lift(p2[0]) == Vy2(ra.e, dec.e) + 1, core.lift(p2[1]) == Vx2(ra.e, dec.e) + 1))
        r, cc = real('row'), real('col')
        s1 = helpers[0].pix2sky((r, cc))
        s2 = helpers[1].pix2sky((r, cc))
        c.oblige('two-helpers:each helper converts with its own WCS (pix2sky)', z3.And(core.lift(s1[0]) == Wra(cc.e - 1, r.e - 1), core.lift(s2[0]) == Wra2(cc.e - 1, r.e - 1),
                                                                                    core.lift(s1[1]) == Wdec(cc.e - 1, r.e - 1), core.lift(s2[1]) == Wdec2(cc.e - 1, r.e - 1)))
        q1 = helpers[0].sky2pix((ra, dec))
        c.oblige('two-helpers:repeating a conversion gives the same answer', z3.And(core.lift(q1[0]) == core.lift(p1[0]), core.lift(q1[1]) == core.lift(p1[1])))
        return dict()
    return h


def h_points(wh):
    def h(c):
        w = UFWcs()
        helper = mk_helper(wh, w)
        r, cc = real('row'), real('col')
        sky = helper.pix2sky((r, cc))
        # FITS convention: (row, col) 1-based <-> W_fits(x=col, y=row) = W_0(col-1, row-1)
        want_ra, want_dec = Wra(cc.e - 1, r.e - 1), Wdec(cc.e - 1, r.e - 1)
        c.oblige('points:pix2sky((row,col)) == W_fits(x=col, y=row), 1-based', z3.And(core.lift(sky[0]) == want_ra, core.lift(sky[1]) == want_dec))
        back = helper.sky2pix((sky[0], sky[1]))
        inv = [Vx(want_ra, want_dec) == cc.e - 1, Vy(want_ra, want_dec) == r.e - 1]     # W^-1(W(p)) = p for this p
        c.oblige('points:sky2pix(pix2sky(p)) == p', z3.And(core.lift(back[0]) == r.e, core.lift(back[1]) == cc.e), assume=inv)
        c.oblige('points:both directions use the same origin and axis order flag', z3.BoolVal(len(w.calls) == 2 and w.calls[0][3] == w.calls[1][3] and w.calls[0][4] == w.calls[1][4]))
        ra, dec = real('ra'), real('dec')
        p = helper.sky2pix((ra, dec))
        c.oblige('points:sky2pix returns (row, col) = (y, x) of the FITS pixel', z3.And(core.lift(p[0]) == Vy(ra.e, dec.e) + 1, core.lift(p[1]) == Vx(ra.e, dec.e) + 1))
        # the answers do not depend on what the helper was asked before: other (arbitrary) arguments on the same helper
        r2, c2 = real('row2'), real('col2')
        sky2 = helper.pix2sky((r2, c2))
        c.oblige('points:a later pix2sky on the same helper answers for ITS pixel', z3.And(core.lift(sky2[0]) == Wra(c2.e - 1, r2.e - 1), core.lift(sky2[1]) == Wdec(c2.e - 1, r2.e - 1)))
        ra2, dec2 = real('ra2'), real('dec2')
        p2 = helper.sky2pix([ra2, dec2])
        c.oblige('points:a later sky2pix on the same helper answers for ITS position', z3.And(core.lift(p2[0]) == Vy(ra2.e, dec2.e) + 1, core.lift(p2[1]) == Vx(ra2.e, dec2.e) + 1))
        return dict()
    return h


# ------------------------------------------------------------------ K-vectors
class Flat:
    """conformal first-order WCS: FITS pixel (X, Y) 1-based -> tangent plane (east, north) = k R(rho) diag(sig,1) (X-px0, Y-py0);
    ra = ra0 + east / C, dec = dec0 + north, with C = cos(dec0) in (0, 1]"""
    def __init__(self, c):
        self.k, self.C, self.sig = real('k'), real('C'), real('sig')
        self.crho, self.srho = z3.Real('c_rho'), z3.Real('s_rho')
        c.atoms['rho'] = (self.crho, self.srho)
        self.px0, self.py0, self.ra0, self.dec0 = [real(n) for n in 'px0 py0 ra0 dec0'.split()]
        c.assume(self.k.e > 0)
        c.assume(self.C.e > 0)
        c.assume(self.C.e <= 1)
        c.assume(z3.Or(self.sig.e == 1, self.sig.e == -1))
        c.assume(self.crho * self.crho + self.srho * self.srho == 1)

    def all_pix2world(self, pix, origin, ra_dec_order=False):
        (X, Y), = pix
        dx, dy = X - self.px0, Y - self.py0
        e = self.k * (SN(self.crho) * self.sig * dx - SN(self.srho) * dy)
        n = self.k * (SN(self.srho) * self.sig * dx + SN(self.crho) * dy)
        return [[self.ra0 + e / self.C, self.dec0 + n]]

    def all_world2pix(self, pos, origin, ra_dec_order=False):
        (ra, dec), = pos
        e = (ra - self.ra0) * self.C
        n = dec - self.dec0
        a = SN(self.crho) * e + SN(self.srho) * n
        b = -SN(self.srho) * e + SN(self.crho) * n
        return [[a / self.k / self.sig + self.px0, b / self.k + self.py0]]


def install_flat(wh, fl):
    import numpy as np_
    C = fl.C
    wh.translate = lambda ra, dec, r, pa: (ra + r * np_.sin(np_.radians(pa)) / C, dec + r * np_.cos(np_.radians(pa)))
    wh.gcd = lambda ra1, dec1, ra2, dec2: np_.hypot((ra2 - ra1) * C, dec2 - dec1)
    wh.bear = lambda ra1, dec1, ra2, dec2: np_.degrees(np_.arctan2((ra2 - ra1) * C, dec2 - dec1))


POS = ['k', 'C', 'sx', 'sy', 'r']


def ident(c, name, lhs, rhs, **kw):
    return nz.identity(c, name, lhs, rhs, positive=POS, unit=['sig'], **kw)


def same_direction(c, name, a, b, mod180=False):
    ax, ay = core.direction(a, c)
    bx, by = core.direction(b, c)
    ident(c, name + ' (cross == 0)', ax * by - ay * bx, z3.RealVal(0))
    # same sense: dot != 0 suffices modulo 180; for full direction the dot must be positive. After normalisation the
    # dot is a sum of squares times positive symbols; z3 decides its sign
    nzr = nz.Normaliser(c, positive=POS, unit=['sig'])
    try:
        d = nzr.normal(nzr.to_sp(ax * bx + ay * by))
        import sympy as sp
        d = d.subs(sp.Abs(sp.Symbol('sig', real=True)), 1)
        claim = nzr.from_sp(sp.factor(d)) > 0
        rec = c.oblige(name + (' (dot != 0)' if mod180 else ' (dot > 0)'), claim if not mod180 else (nzr.from_sp(sp.factor(d)) != 0), timeout_ms=30000)
    except NotImplementedError as e:
        rec = c.oblige(name + ' (dot)', (ax * bx + ay * by > 0) if not mod180 else (ax * bx + ay * by != 0), timeout_ms=30000)
    return rec


def h_vec(wh):
    def h(c):
        fl = Flat(c)
        install_flat(wh, fl)
        helper = mk_helper(wh, fl)
        x, y, r = real('x'), real('y'), real('r')
        th = angle_deg('th')
        c.assume(r.e > 0)
        ra, dec, rr, pa = helper.pix2sky_vec((x, y), r, th)
        ident(c, 'vec:sky length == k * pixel length (tangent-plane length)', rr.e, fl.k.e * r.e)
        # pa is measured East of North: direction (north, east) of the pixel vector pushed through the map.
        # helper pixel = (row=x, col=y): FITS X = col = y, Y = row = x. The pixel vector is (d row, d col) = r (cos th, sin th)
        cth, sth = th.radians()._cs()
        dX, dY = r.e * sth, r.e * cth
        east = fl.k.e * (fl.crho * fl.sig.e * dX - fl.srho * dY)
        north = fl.k.e * (fl.srho * fl.sig.e * dX + fl.crho * dY)
        px_, py_ = core.direction(pa, c)      # (cos pa, sin pa) ~ (north, east)
        ident(c, 'vec:pa = atan2(East, North) (cross)', px_ * east - py_ * north, z3.RealVal(0))
        x2, y2, r2, t2 = helper.sky2pix_vec((ra, dec), rr, pa)
        ident(c, 'vec:round trip row', x2.e, x.e)
        ident(c, 'vec:round trip col', y2.e, y.e)
        ident(c, 'vec:round trip length', r2.e, r.e)
        same_direction(c, 'vec:round trip angle', t2, th)
        return dict()
    return h


def h_ellipse(wh):
    def h(c):
        fl = Flat(c)
        install_flat(wh, fl)
        helper = mk_helper(wh, fl)
        x, y, sx, sy = real('x'), real('y'), real('sx'), real('sy')
        th = angle_deg('th')
        c.assume(sx.e > 0)
        c.assume(sy.e > 0)
        ra, dec, a, b, pa = helper.pix2sky_ellipse((x, y), sx, sy, th)
        ident(c, 'ellipse:major == k * sx', a.e, fl.k.e * sx.e)
        ident(c, 'ellipse:minor == k * sy', b.e, fl.k.e * sy.e)
        x3, y3, sx3, sy3, th3 = helper.sky2pix_ellipse((ra, dec), a, b, pa)
        ident(c, 'ellipse:round trip row', x3.e, x.e)
        ident(c, 'ellipse:round trip col', y3.e, y.e)
        ident(c, 'ellipse:round trip sx', sx3.e, sx.e)
        ident(c, 'ellipse:round trip sy', sy3.e, sy.e)
        same_direction(c, 'ellipse:round trip theta', th3, th, mod180=False)
        return dict()
    return h


def h_psf(wh):
    def h(c):
        fl = Flat(c)
        install_flat(wh, fl)
        helper = mk_helper(wh, fl)
        helper.psf_file = None
        pa_, pb_ = real('sx'), real('sy')
        pt = angle_deg('th')
        c.assume(pa_.e > 0)
        c.assume(pb_.e > 0)
        helper._psf_a, helper._psf_b, helper._psf_theta = pa_, pb_, pt
        ra, dec = real('ra'), real('dec')
        a, b, pa = helper.get_psf_sky2sky(ra, dec)
        ident(c, 'psf:sky beam major == k * pixel beam major', a.e, fl.k.e * pa_.e)
        ident(c, 'psf:sky beam minor == k * pixel beam minor', b.e, fl.k.e * pb_.e)
        a2, b2, t2 = helper.get_psf_sky2pix(ra, dec)
        c.oblige('psf:pixel beam returned unchanged without a psf map', z3.BoolVal(a2 is pa_ and b2 is pb_ and t2 is pt))
        a3, b3, t3 = helper.get_psf_pix2pix(real('x'), real('y'))
        c.oblige('psf:pix2pix beam returned unchanged without a psf map', z3.BoolVal(a3 is pa_ and b3 is pb_ and t3 is pt))
        area = helper.get_beamarea_pix(ra, dec)
        ident(c, 'psf:beam area in pixels == pi * a * b (pixel beam)', area.e, (180 * c.K) * pa_.e * pb_.e)
        return dict()
    return h


# ------------------------------------------------------------------ replay oracle on the real WCSHelper
def real_oracle(seed=0, n=40):
    import numpy as np
    from astropy.io import fits
    from astropy.wcs import WCS
    wh = loader.real('wcs_helpers')
    rng = random.Random(seed)
    worst = dict()
    for it in range(n):
        proj = rng.choice(['SIN', 'TAN', 'ZEA', 'ARC', 'STG'])
        extreme = it < 3          # the corner of the quantifier: 1"/pixel, RA near the wrap, |dec| 80-85, 1-2 pixel ellipses
        hdr = fits.Header()
        hdr['NAXIS'] = 2
        hdr['NAXIS1'], hdr['NAXIS2'] = 200, 160
        hdr['CTYPE1'], hdr['CTYPE2'] = 'RA---' + proj, 'DEC--' + proj
        hdr['CRVAL1'], hdr['CRVAL2'] = rng.uniform(0, 360), rng.uniform(-80, 80)
        hdr['CRPIX1'], hdr['CRPIX2'] = 100.0, 80.0
        scale = rng.uniform(2, 30) / 3600
        if extreme:
            hdr['CRVAL1'], hdr['CRVAL2'] = (350.0, 359.5, 10.0)[it], (80.0, -84.0, 85.0)[it]
            scale = 1.0 / 3600
        hdr['CDELT1'], hdr['CDELT2'] = -scale, scale
        hdr['BMAJ'], hdr['BMIN'], hdr['BPA'] = 4 * scale, 3 * scale, 20.0
        helper = wh.WCSHelper.from_header(hdr)
        w = WCS(hdr, naxis=2)
        r0, c0 = rng.uniform(40, 120), rng.uniform(50, 150)
        ra, dec = helper.pix2sky((r0, c0))
        ref = w.all_pix2world([[c0, r0]], 1)[0]
        if abs(ra - ref[0]) > 1e-9 or abs(dec - ref[1]) > 1e-9:
            return True, 'pix2sky-convention', 'pix2sky((%.2f,%.2f)) = (%r,%r) but the FITS WCS gives %s [%s]' % (r0, c0, ra, dec, ref, proj)
        back = helper.sky2pix((ra, dec))
        if abs(back[0] - r0) > 1e-6 or abs(back[1] - c0) > 1e-6:
            return True, 'point-roundtrip', 'sky2pix(pix2sky(p)) = %s for p = (%r, %r) [%s]' % (back, r0, c0, proj)
        sx, sy, th = rng.uniform(2, 12), rng.uniform(1, 2), rng.uniform(-179, 180)
        if extreme:
            sx, sy = rng.uniform(1.5, 2.5), rng.uniform(1.0, 1.4)
        sy = min(sy * 1.0, sx)
        _, _, a, b, pa = helper.pix2sky_ellipse((r0, c0), sx, sy, th)
        x3, y3, sx3, sy3, th3 = helper.sky2pix_ellipse((ra, dec), a, b, pa)
        dth = abs(((th3 - th + 90) % 180) - 90)
        if abs(sx3 - sx) > 2e-3 * sx or abs(sy3 - sy) > 2e-3 * sy + 1e-3 or dth > 0.05:
            return True, 'ellipse-roundtrip', 'ellipse (%.3f, %.3f, %.2f) came back as (%.4f, %.4f, %.3f) [%s, dec0 %.1f]' % (sx, sy, th, sx3, sy3, th3, proj, hdr['CRVAL2'])
        if abs(a / scale - sx) > 5e-3 * sx:
            return True, 'ellipse-length', 'major axis %.5f deg for %.3f px at %.5f deg/px [%s]' % (a, sx, scale, proj)
        # pa East of North: compare with the bearing of the end point of the major axis computed by astropy
        t = math.radians(th)
        ra2, dec2 = w.all_pix2world([[c0 + sx * math.sin(t), r0 + sx * math.cos(t)]], 1)[0]
        d1, d2, dl = math.radians(dec), math.radians(dec2), math.radians(ra2 - ra)
        want = math.degrees(math.atan2(math.sin(dl) * math.cos(d2), math.cos(d1) * math.sin(d2) - math.sin(d1) * math.cos(d2) * math.cos(dl)))
        if abs(((pa - want + 180) % 360) - 180) > 0.02:
            return True, 'position-angle', 'pa %.4f but the standard position angle of the major axis end point is %.4f [%s]' % (pa, want, proj)
        _, _, rr, pav = helper.pix2sky_vec((r0, c0), sx, th)
        x2, y2, r2, t2 = helper.sky2pix_vec((ra, dec), rr, pav)
        if abs(r2 - sx) > 2e-3 * sx or abs(((t2 - th + 180) % 360) - 180) > 0.05:
            return True, 'vector-roundtrip', 'vector (%.3f, %.2f) came back as (%.4f, %.3f) [%s]' % (sx, th, r2, t2, proj)
        # the type of the pixel coordinates must not matter: python ints, numpy ints and floats of equal value
        ri, ci = int(r0), int(c0)
        ref_v = helper.pix2sky_vec((float(ri), float(ci)), sx, th)
        ref_e = helper.pix2sky_ellipse((float(ri), float(ci)), sx, sy, th)
        for label, pixel in (('python ints', (ri, ci)), ('numpy int64', np.array([ri, ci])), ('list of ints', [ri, ci])):
            got_v = helper.pix2sky_vec(pixel, sx, th)
            got_e = helper.pix2sky_ellipse(pixel, sx, sy, th)
            if any(abs(float(g) - float(w_)) > 1e-9 for g, w_ in zip(got_v, ref_v)) or any(abs(float(g) - float(w_)) > 1e-9 for g, w_ in zip(got_e, ref_e)):
                return True, 'integer-pixel-input', 'pix2sky_vec/pix2sky_ellipse at pixel (%d, %d) given as %s: %s / %s, given as floats: %s / %s' % (ri, ci, label, [float(g) for g in got_v], [float(g) for g in got_e], [float(g) for g in ref_v], [float(g) for g in ref_e])
    # a header with SIP distortion terms: the helper answers with the full FITS WCS (astropy all_*), not the core transformation
    import warnings
    hdr = fits.Header()
    hdr['NAXIS'] = 2
    hdr['NAXIS1'] = hdr['NAXIS2'] = 400
    hdr['CTYPE1'], hdr['CTYPE2'] = 'RA---TAN-SIP', 'DEC--TAN-SIP'
    hdr['CRVAL1'], hdr['CRVAL2'] = 80.0, -25.0
    hdr['CRPIX1'] = hdr['CRPIX2'] = 200.0
    hdr['CDELT1'], hdr['CDELT2'] = -2.0 / 3600, 2.0 / 3600
    hdr['A_ORDER'] = hdr['B_ORDER'] = 2
    hdr['A_2_0'], hdr['A_0_2'], hdr['B_2_0'], hdr['B_1_1'] = 4e-5, -3e-5, 5e-5, 2e-5
    hdr['BMAJ'], hdr['BMIN'], hdr['BPA'] = 8.0 / 3600, 8.0 / 3600, 0.0
    with warnings.catch_warnings():
        warnings.simplefilter('ignore')
        helper = wh.WCSHelper.from_header(hdr)
        w = WCS(hdr, naxis=2)
        for (r0, c0) in ((200.0, 200.0), (40.0, 45.0), (350.0, 60.0)):
            ra, dec = helper.pix2sky((r0, c0))
            ref = w.all_pix2world([[c0, r0]], 1)[0]
            back = helper.sky2pix((float(ref[0]), float(ref[1])))
            if abs(ra - ref[0]) > 1e-8 or abs(dec - ref[1]) > 1e-8 or abs(back[0] - r0) > 1e-3 or abs(back[1] - c0) > 1e-3:
                return True, 'distorted-wcs', 'TAN-SIP header: pix2sky((%.0f, %.0f)) = (%r, %r), FITS WCS %s; sky2pix of that position = %s' % (r0, c0, ra, dec, list(ref), list(back))
    # wide field, near-circular ellipses away from the reference pixel: sky -> pixel -> sky returns the ellipse
    for it in range(12):
        hdr = fits.Header()
        hdr['NAXIS'] = 2
        hdr['NAXIS1'], hdr['NAXIS2'] = 4000, 4000
        proj = ('SIN', 'TAN', 'ZEA')[it % 3]
        hdr['CTYPE1'], hdr['CTYPE2'] = 'RA---' + proj, 'DEC--' + proj
        hdr['CRVAL1'], hdr['CRVAL2'] = 150.0, (-30.0, 10.0, 60.0)[it % 3]
        hdr['CRPIX1'], hdr['CRPIX2'] = 2000.0, 2000.0
        scale = 45.0 / 3600
        hdr['CDELT1'], hdr['CDELT2'] = -scale, scale
        hdr['BMAJ'], hdr['BMIN'], hdr['BPA'] = 4 * scale, 4 * scale, 0.0
        helper = wh.WCSHelper.from_header(hdr)
        r0, c0 = rng.choice([300.0, 2000.0, 3700.0]), rng.choice([300.0, 1200.0, 3700.0])
        ra, dec = helper.pix2sky((r0, c0))
        a = 4 * scale
        b = 0.95 * a
        pa = -80.0 + 20.0 * it
        if pa > 90:
            pa -= 180
        _, _, sx_, sy_, th_ = helper.sky2pix_ellipse((ra, dec), a, b, pa)
        _, _, a2, b2, pa2 = helper.pix2sky_ellipse((r0, c0), sx_, sy_, th_)
        dpa = abs(((pa2 - pa + 90) % 180) - 90)
        if abs(a2 - a) > 2e-3 * a or abs(b2 - b) > 2e-3 * b or dpa > 0.2:
            return True, 'sky-ellipse-roundtrip', 'sky ellipse (%.5f, %.5f, %.1f) at pixel (%.0f, %.0f) of a 4000^2 %s image came back as (%.5f, %.5f, %.2f)' % (a, b, pa, r0, c0, proj, a2, b2, pa2)
    return False, None, None


def history_oracle():
    """one helper, many conversions: pixels a fraction of a milli-pixel apart (a centroid refined in small steps), and position
    arrays that the caller changes in place between calls; every answer against astropy's WCS for the argument of THAT call"""
    import numpy as np
    from astropy.io import fits
    from astropy.wcs import WCS
    wh = loader.real('wcs_helpers')
    hdr = fits.Header()
    hdr['NAXIS'] = 2
    hdr['NAXIS1'], hdr['NAXIS2'] = 200, 160
    hdr['CTYPE1'], hdr['CTYPE2'] = 'RA---SIN', 'DEC--SIN'
    hdr['CRVAL1'], hdr['CRVAL2'] = 150.0, -30.0
    hdr['CRPIX1'], hdr['CRPIX2'] = 100.0, 80.0
    hdr['CDELT1'], hdr['CDELT2'] = -8.0 / 3600, 8.0 / 3600
    hdr['BMAJ'], hdr['BMIN'], hdr['BPA'] = 32.0 / 3600, 24.0 / 3600, 20.0
    helper = wh.WCSHelper.from_header(hdr)
    w = WCS(hdr, naxis=2)
    r0, c0 = 61.3137, 88.7249
    for k, step in enumerate((0.0, 2.3e-4, 4.1e-4, -3.7e-4, 1e-5, 7.7e-3, -1e-6)):
        r, cc = r0 + step, c0 - 0.7 * step
        ra, dec = helper.pix2sky((r, cc))
        ref = w.all_pix2world([[cc, r]], 1)[0]
        if abs(ra - ref[0]) * 3600 > 1e-6 * 8 or abs(dec - ref[1]) * 3600 > 1e-6 * 8:
            return True, 'pix2sky-history', 'call %d on one helper: pix2sky((%.7f, %.7f)) is off by (%.3g, %.3g) arcsec from the FITS WCS (8 arcsec pixels; earlier calls were a few 1e-4 pixel away)' % (k + 1, r, cc, (ra - ref[0]) * 3600, (dec - ref[1]) * 3600)
        back = helper.sky2pix((ra, dec))
        if abs(back[0] - r) > 1e-6 or abs(back[1] - cc) > 1e-6:
            return True, 'roundtrip-history', 'call %d on one helper: pixel -> sky -> pixel moved (%.7f, %.7f) by (%.3g, %.3g) pixel' % (k + 1, r, cc, back[0] - r, back[1] - cc)
    for kind in ('ndarray', 'list'):
        sky = np.array(helper.pix2sky((70.0, 95.0)), dtype=float)
        pos = sky if kind == 'ndarray' else list(sky)
        helper.sky2pix(pos)
        pos[0] += 0.05
        pos[1] -= 0.03
        got = helper.sky2pix(pos)
        ref = w.all_world2pix([[pos[0], pos[1]]], 1)[0]
        if abs(got[0] - ref[1]) > 1e-6 or abs(got[1] - ref[0]) > 1e-6:
            return True, 'sky2pix-history', 'sky2pix on a %s changed in place since the previous call answers (%.3f, %.3f), the FITS WCS gives (%.3f, %.3f)' % (kind, got[0], got[1], ref[1], ref[0])
        x, y, sx, sy, th = helper.sky2pix_ellipse(pos, 0.02, 0.01, 30.0)
        if abs(x - ref[1]) > 1e-6 or abs(y - ref[0]) > 1e-6:
            return True, 'sky2pix-history', 'sky2pix_ellipse at a %s changed in place is centred on (%.3f, %.3f), the FITS WCS gives (%.3f, %.3f)' % (kind, x, y, ref[1], ref[0])
    return False, None, None


def h_psfmap(wh):
    """the real get_psf_sky2sky with a psf map of symbolic shape (planes, NX, NY): the map pixel looked up is the one the psf
    map's own WCS gives for the position, clamped to the map on EACH axis with that axis' length"""
    def h(c):
        NX, NY = core.integer('NX'), core.integer('NY')
        for v in (NX, NY):
            c.assume(v.e >= 1)
            c.assume(v.e <= 4096)
        px, py = real('mx'), real('my')

        class Map:
            shape = (3, NX, NY)
            asked = []

            def __getitem__(self, key):
                Map.asked.append(key)
                return ('psf', key)
        Map.asked = []
        hp_ = wh.WCSHelper.__new__(wh.WCSHelper)
        hp_.psf_file = 'psf.fits'
        hp_._psf_map = Map()
        hp_._psf_wcs = object()
        hp_.psf_sky2pix = lambda pos: [px, py]
        out = hp_.get_psf_sky2sky(real('ra'), real('dec'))
        ok = len(Map.asked) == 1 and isinstance(Map.asked[0], tuple) and len(Map.asked[0]) == 3
        c.oblige('psf map:one look-up [planes, x, y]', z3.BoolVal(ok))
        if not ok:
            return dict()
        _, ix, iy = Map.asked[0]
        L = core.lift
        c.oblige('psf map:index within the map on each axis', z3.And(L(ix) >= 0, L(ix) <= NX.e - 1, L(iy) >= 0, L(iy) <= NY.e - 1))
        inside = z3.And(px.e >= 0, px.e <= NX.e - 1, py.e >= 0, py.e <= NY.e - 1)
        c.oblige('psf map:a position inside the map is looked up at its own pixel', z3.And(L(ix) <= px.e, px.e < L(ix) + 1, L(iy) <= py.e, py.e < L(iy) + 1), assume=[inside])
        return dict()
    return h


def psfmap_oracle():
    """real helper with non-square psf maps (wide and tall): the psf returned for a position is the one stored at the map pixel
    that the map's own FITS WCS assigns to it"""
    import os
    import shutil
    import tempfile
    from astropy.io import fits
    from astropy.wcs import WCS
    wh = loader.real('wcs_helpers')
    d = tempfile.mkdtemp(prefix='c16p_', dir='/var/tmp')
    try:
        hdr = fits.Header()
        hdr['NAXIS'] = 2
        hdr['NAXIS1'], hdr['NAXIS2'] = 300, 300
        hdr['CTYPE1'], hdr['CTYPE2'] = 'RA---SIN', 'DEC--SIN'
        hdr['CRVAL1'], hdr['CRVAL2'] = 50.0, -30.0
        hdr['CRPIX1'] = hdr['CRPIX2'] = 150.0
        hdr['CDELT1'], hdr['CDELT2'] = -0.01, 0.01
        hdr['BMAJ'] = hdr['BMIN'] = 0.03
        hdr['BPA'] = 0.0
        for (n2, n1) in ((10, 30), (30, 10)):
            ph = fits.Header()
            ph['CTYPE1'], ph['CTYPE2'] = 'RA---SIN', 'DEC--SIN'
            ph['CRVAL1'], ph['CRVAL2'] = 50.0, -30.0
            ph['CRPIX1'], ph['CRPIX2'] = n1 / 2.0, n2 / 2.0
            ph['CDELT1'], ph['CDELT2'] = -3.0 / n1, 3.0 / n2
            jj, ii = real_np.meshgrid(real_np.arange(n1), real_np.arange(n2))
            cube = real_np.array([0.03 + 1e-4 * ii + 1e-6 * jj, 0.02 + 1e-4 * ii + 1e-6 * jj, 0.0 * ii])
            pf = os.path.join(d, 'psf_%d_%d.fits' % (n2, n1))
            fits.PrimaryHDU(cube, header=ph).writeto(pf)
            helper = wh.WCSHelper.from_header(hdr, psf_file=pf)
            pw = WCS(ph, naxis=2)
            for (ra, dec) in ((50.0, -30.0), (51.2, -30.9), (48.7, -29.1), (51.4, -29.2), (48.9, -31.1)):
                a, b, pa = helper.get_psf_sky2sky(ra, dec)
                xx, yy = pw.all_world2pix([[ra, dec]], 0)[0]          # 0-based (col, row) of the map
                cands = set()
                for r_ in (int(real_np.floor(yy)), int(real_np.ceil(yy)), int(round(yy)) , int(real_np.floor(yy + 1)), int(real_np.ceil(yy + 1))):
                    for c_ in (int(real_np.floor(xx)), int(real_np.ceil(xx)), int(round(xx)), int(real_np.floor(xx + 1)), int(real_np.ceil(xx + 1))):
                        r2, c2 = min(max(r_, 0), n2 - 1), min(max(c_, 0), n1 - 1)
                        cands.add(round(float(cube[0, r2, c2]), 9))
                if round(float(a), 9) not in cands:
                    return True, 'psf-map-lookup', 'psf map of shape (3, %d, %d): position (%.1f, %.1f) falls on map pixel (row %.2f, col %.2f) but the psf returned (a=%.6f) is stored elsewhere' % (n2, n1, ra, dec, yy, xx, a)
        return False, None, None
    except Exception as e:
        return True, 'raises-%s' % type(e).__name__, repr(e)[:300]
    finally:
        shutil.rmtree(d, ignore_errors=True)


def two_images_oracle():
    """two real helpers with identical CRPIX/CDELT/beam but different pointing centres, used alternately in one process"""
    from astropy.io import fits
    from astropy.wcs import WCS
    wh = loader.real('wcs_helpers')
    hs = []
    for crval in ((30.0, -15.0), (31.0, -15.5)):
        hdr = fits.Header()
        hdr['NAXIS'] = 2
        hdr['NAXIS1'], hdr['NAXIS2'] = 200, 160
        hdr['CTYPE1'], hdr['CTYPE2'] = 'RA---SIN', 'DEC--SIN'
        hdr['CRVAL1'], hdr['CRVAL2'] = crval
        hdr['CRPIX1'], hdr['CRPIX2'] = 100.0, 80.0
        hdr['CDELT1'], hdr['CDELT2'] = -0.002, 0.002
        hdr['BMAJ'], hdr['BMIN'], hdr['BPA'] = 0.008, 0.006, 20.0
        hs.append((wh.WCSHelper.from_header(hdr), WCS(hdr, naxis=2)))
    for pos in ((30.4, -15.2), (30.9, -15.4)):
        for helper, w in hs + hs[::-1]:
            got = helper.sky2pix(pos)
            ref = w.all_world2pix([pos], 1)[0]
            if abs(got[0] - ref[1]) > 1e-6 or abs(got[1] - ref[0]) > 1e-6:
                return True, 'cross-image-state', 'sky2pix%s = %s but this image\'s WCS gives (row, col) = (%.4f, %.4f) (two images with equal CRPIX/CDELT in one process)' % (pos, list(got), ref[1], ref[0])
    return False, None, None


def run(rep):
    wh = sym_wh()
    rep.assume('floats as reals', 'real wcs_helpers source as a private package copy')
    rep.kernel('K-points', functions=[F + ':WCSHelper.pix2sky', F + ':WCSHelper.sky2pix'], bounds='any pixel, ANY WCS (uninterpreted functions with the inverse axiom W^-1(W(p)) = p)',
               stubs=['astropy WCS.all_pix2world/all_world2pix -> uninterpreted functions, origin o means W_o(p) = W_0(p - o)'], outside=['wcslib projection code'])
    st, res = explore(h_points(wh), wall_s=300)
    rep.stats(st)
    handle(rep, res, 'K-points')
    st, res = explore(h_two_helpers(wh), wall_s=300)
    rep.stats(st)
    handle(rep, res, 'K-points', two=True)
    rep.end_kernel()
    rep.kernel('K-vectors', functions=[F + ':WCSHelper.pix2sky_vec', F + ':WCSHelper.sky2pix_vec', F + ':WCSHelper.pix2sky_ellipse', F + ':WCSHelper.sky2pix_ellipse',
                                       F + ':WCSHelper.get_psf_sky2sky', F + ':WCSHelper.get_psf_sky2pix', F + ':WCSHelper.get_psf_pix2pix', F + ':WCSHelper.get_beamarea_pix'],
               bounds='all real positions, lengths > 0, angles; conformal first-order WCS with symbolic scale k>0, rotation, handedness +-1, reference pixel/position, cos(dec0) in (0,1]',
               stubs=['WCS -> conformal-flat linear map', 'translate/gcd/bear -> first-order planar forms (the spherical ones are C17)'],
               assumes=['identities via sympy normalisation, z3 verdict on the residual; |sig| = 1'],
               outside=['projection distortion (the 1e-3 / 0.01 deg tolerances of the statement are that gap)', 'skewed CD matrices', 'psf maps'])
    wq = 1.0 if rep.tier == 'thorough' else 0.3      # the unchanged tree needs seconds; the budget only bounds edited code
    plans = [(h_vec(wh), dict(wall_s=600 * wq)), (h_ellipse(wh), dict(wall_s=900 * wq)), (h_psf(wh), dict(wall_s=600 * wq))]
    for st, res in core.explore_many(plans, workers=3):
        rep.stats(st)
        handle(rep, res, 'K-vectors')
    rep.end_kernel()
    rep.kernel('K-psfmap', functions=[F + ':WCSHelper.get_psf_sky2sky'], bounds='psf maps of any shape (planes, 1..4096, 1..4096), any position of the map pixel (symbolic reals)',
               stubs=['psf map -> index recorder of symbolic shape', 'psf_sky2pix -> arbitrary map pixel'])
    st, res = explore(h_psfmap(wh), wall_s=300)
    rep.stats(st)
    for r in res:
        for ob in r['obligations']:
            rep.count(ob['result'], ob['name'])
            if ob['result'] == 'sat':
                bad, cls, detail = psfmap_oracle()
                rep.finding('C16/K-psfmap/%s' % (cls or ob['name'].split(':')[-1]), dict(psfmap=True), detail or ob['name'], reproduced=bad)
    bad, cls, detail = psfmap_oracle()
    rep.validated_runs(10)
    if bad:
        rep.finding('C16/K-psfmap/%s' % cls, dict(psfmap=True), detail)
    rep.end_kernel()
    bad, cls, detail = two_images_oracle()
    rep.validated_runs(1)
    if bad:
        rep.finding('C16/K-points/%s' % cls, dict(seed=rep.seed, two=True), detail, kernel='K-points')
    bad, cls, detail = history_oracle()
    rep.validated_runs(1)
    if bad:
        rep.finding('C16/K-points/%s' % cls, dict(history=True), detail, kernel='K-points')
    nor = 600 if rep.tier == 'thorough' else 40
    bad, cls, detail = real_oracle(rep.seed, nor)
    rep.validated_runs(nor)
    if bad:
        rep.finding('C16/K-vectors/%s' % cls if 'roundtrip' in cls or cls in ('ellipse-length', 'position-angle') else 'C16/K-points/%s' % cls, dict(seed=rep.seed), detail, kernel='K-vectors')


def handle(rep, res, kname, two=False):
    for r in res:
        for ob in r['obligations']:
            rep.count(ob['result'], ob['name'])
            if ob['result'] == 'sat':
                bad, cls, detail = two_images_oracle() if two else real_oracle(11, 60)
                if not bad and 'later' in ob['name']:
                    bad, cls, detail = history_oracle()
                rep.finding('C16/%s/%s' % (kname, cls or ob['name']), dict(seed=11, obligation=ob['name'], two=two), detail or ob['name'], reproduced=bad)
        if r['status'] != 'ok':
            continue
        rep.sample(dict(kernel=kname, obligations=[(o['name'], o['result'], o.get('normaliser', '')[:40]) for o in r['obligations']][:10]))


def replay(w):
    if w['witness'].get('psfmap'):
        bad, cls, detail = psfmap_oracle()
        return bad, '%s: %s' % (cls, detail)
    if w['witness'].get('history'):
        bad, cls, detail = history_oracle()
        return bad, '%s: %s' % (cls, detail)
    if w['witness'].get('two'):
        bad, cls, detail = two_images_oracle()
        return bad, '%s: %s' % (cls, detail)
    bad, cls, detail = real_oracle(int(w['witness'].get('seed', 11)), 60)
    return bad, '%s: %s' % (cls, detail)


if __name__ == '__main__':
    main(sys.modules[__name__])
