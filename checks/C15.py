"""C15 compress then expand restores shape, WCS and grid-node values.
The real fits_tools.compress and expand run on an array of SYMBOLIC shape (rows, cols) and a header of symbolic
values, the decimation factor enumerated 1..64 (the arithmetic is then linear): array slicing/assignment and
np.arange/mgrid/RegularGridInterpolator are recording stubs, so z3 decides the index bookkeeping."""
import sys

import numpy as real_np
import z3

from symx import core, loader, slicer
from symx.core import SN, SB, real, integer, explore
from symx.report import main

PID = 'C15'
F = 'AegeanTools/fits_tools.py'
KEYS = ['BN_CFAC', 'BN_NPX1', 'BN_NPX2', 'BN_RPX1', 'BN_RPX2']


class Arr:
    """array of symbolic shape; records slicing reads and slice assignments"""
    def __init__(self, shape, name):
        self.shape = tuple(shape)
        self.name = name
        self.assigned = []

    def __getitem__(self, key):
        return ('view', self.name, key)

    def __setitem__(self, key, val):
        self.assigned.append((key, val))

    def astype(self, *a, **k):
        return self


class Affine:
    """np.arange(n) followed by + integer and * integer: element i = (i + off) * mul, length n"""
    def __init__(self, n, off=0, mul=1):
        self.n, self.off, self.mul = n, off, mul

    def __add__(self, o):
        r = Affine(self.n, self.off + o, self.mul)
        if hasattr(self, 'over'):
            raise core.Unsupported('arithmetic after element assignment')
        return r
    __radd__ = __add__

    def __mul__(self, o):
        return Affine(self.n, self.off, self.mul * o)
    __rmul__ = __mul__

    def base_at(self, i):
        return (i + core.lift(self.off)) * core.lift(self.mul)

    def at(self, i):
        r = self.base_at(i)
        for k, v in getattr(self, 'over', {}).items():       # element overrides rows[k] = v (k may be negative)
            idx = core.lift(self.n) + k if k < 0 else z3.IntVal(k)
            r = z3.If(i == idx, core.lift(v), r)
        return r

    def __getitem__(self, k):
        if isinstance(k, int):
            idx = core.lift(self.n) + k if k < 0 else z3.IntVal(k)
            return SN(self.at(idx))
        raise core.Unsupported('index %r of an arange-based grid' % (k,))

    def __setitem__(self, k, v):
        if not isinstance(k, int):
            raise core.Unsupported('assignment to index %r of an arange-based grid' % (k,))
        if not hasattr(self, 'over'):
            self.over = {}
        self.over[k] = v


class Hdr(dict):
    def __setitem__(self, k, v):
        if isinstance(v, tuple):
            v = v[0]
        dict.__setitem__(self, k, v)


class HDU:
    pass


class Rec:
    pass


def mk_np(rec):
    class NP(loader.NPProxy):
        def squeeze(self, a):
            return a

        def empty(self, shape, *a, **k):
            rec.new = Arr(shape, 'new')
            return rec.new

        def array(self, a, *args, **kw):
            return a

        def arange(self, n):
            return Affine(n)

        def indices(self, dimensions, dtype=None, **kw):
            # the same grid as mgrid[0:n0, 0:n1]; a narrow integer dtype silently wraps indices it cannot hold
            rec.mgrid = tuple(slice(0, n, None) for n in dimensions)
            rec.grid_dtype = dtype
            return ('gx', rec.mgrid), ('gy', rec.mgrid)

        @property
        def mgrid(self):
            class G:
                def __getitem__(s, key):
                    rec.mgrid = key
                    return ('gx', key), ('gy', key)
            return G()
    return NP()


def sym_ft():
    ft = loader.load_private(['fits_tools'])['fits_tools']
    loader.patch(ft)
    ft.load_file_or_hdu = lambda x: x
    return ft


def isslice(k, start, stop, step):
    def same(a, b):
        if a is None or b is None:
            return a is None and b is None
        if isinstance(a, SN) or isinstance(b, SN):
            return z3.is_true(z3.simplify(core.lift(a) == core.lift(b)))
        return a == b
    return isinstance(k, slice) and same(k.start, start) and same(k.stop, stop) and same(k.step, step)


def h_roundtrip(ft, f, cdkind):
    def h(c):
        rec = Rec()
        ft.np = mk_np(rec)
        cx, cy = integer('cx'), integer('cy')
        c.assume(cx.e >= 2)
        c.assume(cy.e >= 2)
        hdr = Hdr()
        crpix1, crpix2 = real('CRPIX1'), real('CRPIX2')
        cd1, cd2 = real('CDELT1'), real('CDELT2')
        hdr.update(CRPIX1=crpix1, CRPIX2=crpix2, NAXIS1=cy, NAXIS2=cx)
        k1, k2 = ('CDELT1', 'CDELT2') if cdkind == 'CDELT' else ('CD1_1', 'CD2_2')
        hdr[k1], hdr[k2] = cd1, cd2
        if cdkind == 'CD':
            hdr['CD1_2'], hdr['CD2_1'] = real('CD1_2'), real('CD2_1')
        hdr['CRVAL1'], hdr['CRVAL2'], hdr['EQUINOX'] = real('CRVAL1'), real('CRVAL2'), 2000.0
        original = dict(hdr)
        data = Arr((cx, cy), 'data')
        hdu = HDU()
        hdu.header, hdu.data = hdr, data
        hl = [hdu]
        tag = 'compress[f=%d,%s]' % (f, cdkind)
        out = ft.compress(hl, f)
        c.oblige(tag + ':succeeds', z3.BoolVal(out is hl))
        if out is not hl:
            return dict()
        new = rec.new
        nx, ny = new.shape[0] - 1, new.shape[1] - 1
        L = core.lift
        ceilx = (cx.e + f - 1) / f
        ceily = (cy.e + f - 1) / f
        c.oblige(tag + ':stored block is ceil(rows/f) x ceil(cols/f), plus one closing row and column', z3.And(L(nx) == ceilx, L(ny) == ceily))
        A = new.assigned
        ok = len(A) == 4
        if ok:
            (k0, v0), (k1_, v1), (k2_, v2), (k3, v3) = A
            ok = (isinstance(k0, tuple) and isslice(k0[0], None, nx, None) and isslice(k0[1], None, ny, None) and v0[0] == 'view' and v0[1] == 'data'
                  and isslice(v0[2][0], None, None, f) and isslice(v0[2][1], None, None, f))
            ok = ok and k1_[0] == -1 and isslice(k1_[1], None, ny, None) and v1[2][0] == -1 and isslice(v1[2][1], None, None, f)
            ok = ok and isslice(k2_[0], None, nx, None) and k2_[1] == -1 and isslice(v2[2][0], None, None, f) and v2[2][1] == -1
            ok = ok and k3 == (-1, -1) and v3[2] == (-1, -1)
        c.oblige(tag + ':sample (i,j) = data[i*f, j*f]; closing row/col = last data row/col', z3.BoolVal(bool(ok)))
        h2 = hdu.header
        c.oblige(tag + ':BN_* keywords = those is_compressed() tests', z3.BoolVal(all(k in h2 for k in KEYS) and bool(ft.is_compressed(h2))))
        c.oblige(tag + ':BN_CFAC, BN_NPX1/2 hold factor and the original size', z3.And(L(h2['BN_CFAC']) == f, L(h2['BN_NPX1']) == cy.e, L(h2['BN_NPX2']) == cx.e))
        c.oblige(tag + ':pixel scale multiplied by f', z3.And(L(h2[k1]) == cd1.e * f, L(h2[k2]) == cd2.e * f))
        # the reference pixel must keep pointing at the same sky point: old pixel p (1-based) -> new pixel (p-1)/f + 1
        c.oblige(tag + ':CRPIX maps to the decimated grid', z3.And(L(h2['CRPIX1']) == (crpix1.e - 1) / f + 1, L(h2['CRPIX2']) == (crpix2.e - 1) / f + 1))
        # ---- expand what compress produced
        etag = 'expand[f=%d,%s]' % (f, cdkind)
        cdata = Arr((nx + 1, ny + 1), 'cdata')
        hdu.data = cdata
        calls = []

        class RGI:
            def __init__(self, pts, vals):
                calls.append((pts, vals))

            def __call__(self, xi):
                calls.append(('eval', xi))
                return Arr(('interp',), 'interp')
        ft.RegularGridInterpolator = RGI
        out2 = ft.expand(hl)
        c.oblige(etag + ':succeeds', z3.BoolVal(out2 is hl))
        if out2 is not hl:
            return dict()
        mg = rec.mgrid
        c.oblige(etag + ':restores the original dimensions (rows, cols)', z3.And(L(mg[0].start) == 0, L(mg[0].stop) == cx.e, L(mg[1].start) == 0, L(mg[1].stop) == cy.e))
        gdt = getattr(rec, 'grid_dtype', None)
        if gdt is not None:
            try:
                top = real_np.iinfo(gdt).max if real_np.issubdtype(gdt, real_np.integer) else None
            except Exception:
                top = None
            if top is not None:
                c.oblige(etag + ':the pixel-index grid can hold every pixel index (no integer wrap-around)', z3.And(cx.e - 1 <= top, cy.e - 1 <= top), info='dtype %s holds at most %d' % (real_np.dtype(gdt).name, top))
        (rows, cols), vals = calls[0]
        okr = isinstance(rows, Affine) and isinstance(cols, Affine) and vals is cdata
        c.oblige(etag + ':interpolates the stored samples on an arange-based grid', z3.BoolVal(bool(okr)))
        if okr:
            i = z3.Int('i')
            for nm, ax, n, size in (('row', rows, nx + 1, cx), ('col', cols, ny + 1, cy)):
                c.oblige(etag + ':%s node i (i < stored samples) sits at coordinate i*f' % nm, z3.Implies(z3.And(i >= 0, i < L(ax.n) - 1), ax.at(i) == i * f))
                c.oblige(etag + ':%s nodes strictly increasing' % nm, z3.Implies(z3.And(i >= 0, i < L(ax.n) - 1), ax.at(i) < ax.at(i + 1)))
                c.oblige(etag + ':%s nodes: one per stored sample' % nm, L(ax.n) == L(n))
                c.oblige(etag + ':%s nodes bracket every target index (no extrapolation), also for f > size' % nm, z3.And(ax.at(z3.IntVal(0)) <= 0, ax.at(L(ax.n) - 1) >= size.e - 1))
        h3 = hdu.header
        c.oblige(etag + ':compression keywords removed', z3.BoolVal(not any(k in h3 for k in KEYS)))
        c.oblige(etag + ':CRPIX restored', z3.And(L(h3['CRPIX1']) == crpix1.e, L(h3['CRPIX2']) == crpix2.e))
        c.oblige(etag + ':pixel scale restored', z3.And(L(h3[k1]) == cd1.e, L(h3[k2]) == cd2.e))
        rest = [k for k in original if k not in ('NAXIS1', 'NAXIS2', 'HISTORY')]
        c.oblige(etag + ':every WCS keyword of the original header is restored', z3.And([z3.BoolVal(k in h3) for k in rest] + [L(h3[k]) == L(original[k]) for k in rest if k in h3]))
        return dict(f=f)
    return h


FB = 'AegeanTools/BANE.py'


def h_bane_compressed():
    """the block of BANE.filter_image that writes compressed maps: compress() edits the header it is given IN PLACE, so each of
    the two maps must be handed its own copy of the image header"""
    import copy as real_copy

    def h(c):
        fac, text = slicer.slice_function(FB, 'filter_image', targets=['hdu', 'hdulist', 'hdu.header', 'hdulist[0].header', 'hdulist[0].data'], calls=['compress('],
                                          params=['bkg', 'rms', 'bscale', 'header', 'step_size', 'bkg_out', 'rms_out', 'compressed', 'out_base'], closure=False)
        calls = []

        class HDU:
            def __init__(self, data=None, header=None):
                self.data, self.header = data, header

        class Fits:
            PrimaryHDU = HDU
            HDUList = list

        def compress(datafile, factor, outfile=None):
            hd = datafile[0].header
            calls.append((dict(hd), datafile[0].data, outfile, factor))
            # what the real compress does to the header it is given (C15 K-bookkeeping decides the real one)
            hd['CRPIX1'] = (hd['CRPIX1'] - 1) / factor + 1
            hd['CRPIX2'] = (hd['CRPIX2'] - 1) / factor + 1
            hd['CDELT1'] = hd['CDELT1'] * factor
            hd['CDELT2'] = hd['CDELT2'] * factor
            hd['BN_CFAC'] = factor
            return datafile
        header = {'CRPIX1': real('crpix1'), 'CRPIX2': real('crpix2'), 'CDELT1': real('cdelt1'), 'CDELT2': real('cdelt2'), 'HISTORY': 'x'}
        orig = dict(header)

        class Arr2:
            def __init__(self, nm):
                self.nm = nm

            def __truediv__(self, o):
                return (self.nm, o)
        f = fac(dict(core.BUILTINS, fits=Fits, copy=real_copy, compress=compress, logging=loader.NullLog(), os=__import__('os')))
        f(Arr2('bkg'), Arr2('rms'), 1.0, header, (integer('grid'), integer('grid')), 'o_bkg.fits', 'o_rms.fits', True, 'o')
        tag = 'filter_image compressed output'
        c.oblige(tag + ':compress called once per map', z3.BoolVal(len(calls) == 2))
        if len(calls) != 2:
            return dict(slice=text[:500])
        L = core.lift
        for k, nm in ((0, 'bkg'), (1, 'rms')):
            hd, data, out, factor_ = calls[k]
            c.oblige(tag + ':%s map decimated by the grid step' % nm, L(factor_) == L(integer('grid')))
            c.oblige(tag + ':%s map compressed from the image header itself (not one already rescaled)' % nm,
                     z3.And([L(hd[q]) == L(orig[q]) for q in ('CRPIX1', 'CRPIX2', 'CDELT1', 'CDELT2')] + [z3.BoolVal('BN_CFAC' not in hd)]))
            c.oblige(tag + ':%s data and file name' % nm, z3.BoolVal(isinstance(data, tuple) and data[0] == nm and out == 'o_%s.fits' % nm))
        c.oblige(tag + ":the caller's header is left alone", z3.And([L(header[q]) == L(orig[q]) for q in ('CRPIX1', 'CRPIX2', 'CDELT1', 'CDELT2')]))
        return dict(slice=text[:500])
    return h


def h_bane_grid():
    """the grid the maps are computed on, when the output is to be compressed: compress() decimates both axes by ONE factor (the
    first step), so the grid has to be square by the time the maps are made - for every requested grid"""
    def h(c):
        fac, text = slicer.slice_function(FB, 'filter_image', targets=['step_size'], params=['step_size', 'box_size', 'compressed', 'header'], returns=['step_size'], closure=False)
        gx, gy = integer('gridx'), integer('gridy')
        c.assume(gx.e >= 1)
        c.assume(gy.e >= 1)
        f = fac(dict(core.BUILTINS, logging=loader.NullLog(), np=loader.NPProxy()))
        (ss,) = f((gx, gy), None, True, {})
        L = core.lift
        c.oblige('filter_image compressed output:maps are computed on a square grid (both axes are decimated by step_size[0])', L(ss[0]) == L(ss[1]))
        c.oblige('filter_image compressed output:the grid is not made coarser than requested', z3.And(L(ss[0]) <= gx.e, L(ss[1]) <= gy.e, L(ss[0]) >= 1))
        (ss2,) = f((gx, gy), None, False, {})
        c.oblige('filter_image:the requested grid is kept when the output is not compressed', z3.And(L(ss2[0]) == gx.e, L(ss2[1]) == gy.e))
        return dict(slice=text[:400])
    return h


def bane_compressed_oracle():
    """real BANE with compressed output: both files expand to the image's shape and WCS"""
    import os
    import shutil
    import tempfile
    from astropy.io import fits
    bane = loader.real('BANE')
    ft = loader.real('fits_tools')
    d = tempfile.mkdtemp(prefix='c15b_', dir='/var/tmp')
    try:
        rng = real_np.random.default_rng(2)
        img = rng.normal(0, 1, (60, 75)).astype(real_np.float32)
        hdr = fits.Header()
        hdr['CTYPE1'], hdr['CTYPE2'] = 'RA---SIN', 'DEC--SIN'
        hdr['CRVAL1'], hdr['CRVAL2'] = 30.0, -40.0
        hdr['CRPIX1'], hdr['CRPIX2'] = 35.25, 30.5
        hdr['CDELT1'], hdr['CDELT2'] = -0.01, 0.01
        hdr['BMAJ'] = hdr['BMIN'] = 0.03
        hdr['BPA'] = 0.0
        fn = os.path.join(d, 'im.fits')
        fits.PrimaryHDU(img, header=hdr).writeto(fn)
        # square and rectangular grids (a rectangular one in either orientation, one step a multiple of the other or not)
        for grid in ((4, 4), (8, 4), (4, 8), (6, 4)):
            ret = bane.filter_image(fn, os.path.join(d, 'out'), step_size=grid, box_size=(grid[0] * 3, grid[1] * 3), cores=1, nslice=1, compressed=True)
            for k_, nm in enumerate(('bkg', 'rms')):
                with fits.open(os.path.join(d, 'out_%s.fits' % nm)) as small:
                    fac_ = int(small[0].header.get('BN_CFAC', 0))
                e = ft.expand(os.path.join(d, 'out_%s.fits' % nm))
                h_ = e[0].header
                if tuple(e[0].data.shape) != img.shape:
                    return True, 'bane-compressed-shape', 'grid %s: the compressed %s map expands to shape %s, the image is %s' % (grid, nm, e[0].data.shape, img.shape)
                for k in ('CRPIX1', 'CRPIX2', 'CDELT1', 'CDELT2'):
                    if abs(h_[k] - hdr[k]) > 1e-9:
                        return True, 'bane-compressed-wcs', 'grid %s: the compressed %s map written by BANE expands to %s = %r, the image has %r' % (grid, nm, k, h_[k], hdr[k])
                # the file holds the map BANE computed (and returns): complete cells of the expanded file agree with it
                if isinstance(ret, tuple) and len(ret) == 2 and fac_ >= 1:
                    full = real_np.asarray(ret[k_], dtype=float)
                    R_, C_ = (img.shape[0] - 1) // fac_ * fac_ + 1, (img.shape[1] - 1) // fac_ * fac_ + 1
                    dev = float(real_np.nanmax(real_np.abs(real_np.asarray(e[0].data, dtype=float)[:R_, :C_] - full[:R_, :C_])))
                    if not dev <= 2e-3:
                        return True, 'bane-compressed-values', 'grid %s: the compressed %s map, expanded, differs from the map the same call computed by up to %.3g on complete cells (file decimated by %d)' % (grid, nm, dev, fac_)
        return False, None, None
    except Exception as e:
        return True, 'raises-%s' % type(e).__name__, repr(e)[:300]
    finally:
        shutil.rmtree(d, ignore_errors=True)


def oracle(shape, f, cd='CDELT'):
    """property-level oracle on the real compress/expand through in-memory HDUs"""
    from astropy.io import fits
    ft = loader.real('fits_tools')
    R, C = shape
    yy, xx = real_np.mgrid[0:R, 0:C]
    data = (0.5 * yy - 0.25 * xx + 3).astype(real_np.float32)      # linear: exact on complete cells
    hdr = fits.Header()
    hdr['CRPIX1'], hdr['CRPIX2'] = 7.5, 3.25
    if cd == 'CDELT':
        hdr['CDELT1'], hdr['CDELT2'] = -0.01, 0.01
    else:
        hdr['CD1_1'], hdr['CD2_2'] = -0.01, 0.01
        hdr['CD1_2'], hdr['CD2_1'] = 0.004, 0.004
    hl = fits.HDUList([fits.PrimaryHDU(data.copy(), header=hdr)])
    orig = dict(hl[0].header)
    try:
        c = ft.compress(hl, f)
        if c is None:
            return True, 'compress-fails', 'compress returned None for shape %s factor %d' % (shape, f)
        e = ft.expand(c)
        if e is None:
            return True, 'expand-fails', 'expand returned None for shape %s factor %d' % (shape, f)
    except Exception as ex:
        return True, 'raises', 'shape %s factor %d: %r' % (shape, f, ex)
    out = real_np.array(e[0].data)
    if out.shape != data.shape:
        return True, 'shape', 'shape %s factor %d came back as %s' % (shape, f, out.shape)
    h = e[0].header
    for k in ('CRPIX1', 'CRPIX2', 'CDELT1', 'CDELT2', 'CD1_1', 'CD2_2', 'CD1_2', 'CD2_1'):
        if k in orig and abs(h[k] - orig[k]) > 1e-9:
            return True, 'wcs', '%s = %r after the round trip (was %r), shape %s factor %d' % (k, h[k], orig[k], shape, f)
    if any(k in h for k in KEYS):
        return True, 'keywords', 'compression keywords left behind'
    nodes = out[::f, ::f]
    if real_np.abs(nodes - data[::f, ::f]).max() > 1e-5:
        return True, 'node-values', 'grid-node values differ by %g (shape %s factor %d)' % (real_np.abs(nodes - data[::f, ::f]).max(), shape, f)
    fr, fc = ((R - 1) // f) * f, ((C - 1) // f) * f
    if fr > 0 and fc > 0 and real_np.abs(out[:fr + 1, :fc + 1] - data[:fr + 1, :fc + 1]).max() > 1e-4:
        return True, 'complete-cells', 'linear image not reproduced on complete cells (max err %g, shape %s factor %d)' % (real_np.abs(out[:fr + 1, :fc + 1] - data[:fr + 1, :fc + 1]).max(), shape, f)
    if out.min() < data.min() - 1e-4 or out.max() > data.max() + 1e-4:
        return True, 'range', 'expanded values leave the range of the samples'
    return False, None, None


def run(rep):
    ft = sym_ft()
    thorough = rep.tier == 'thorough'
    factors = list(range(1, 65)) if thorough else [1, 2, 3, 4, 5, 7, 8, 16, 17, 31, 64]
    rep.kernel('K-bookkeeping', functions=[F + ':compress', F + ':expand', F + ':is_compressed'],
               bounds='all integer shapes rows, cols >= 2 (symbolic, incl. non-multiples and factor > size), factor in %s, CDELT and CD headers, in-memory HDU input' % ('1..64' if thorough else factors),
               stubs=['array slicing/assignment -> recorder on an array of symbolic shape', 'np.arange/mgrid -> affine index objects', 'RegularGridInterpolator -> recorder (contract: exact at nodes, within range, linear inside a cell)', 'load_file_or_hdu -> identity'],
               outside=['scipy interpolation arithmetic, float32 cast', 'SR6 command line', 'file input (astropy I/O)'])
    plans = [(h_roundtrip(ft, f, cd), {}) for f in factors for cd in ('CDELT', 'CD')]
    meta = [(f, cd) for f in factors for cd in ('CDELT', 'CD')]
    done = set()
    for (f, cd), (st, res) in zip(meta, core.explore_many(plans, workers=16)):
        rep.stats(st)
        for r in res:
            for ob in r['obligations']:
                rep.count(ob['result'], ob['name'])
                if ob['result'] == 'sat':
                    m = ob['model']
                    shape = (max(2, min(int(m.get('cx', 9)), 60)), max(2, min(int(m.get('cy', 7)), 60)))
                    if 'wrap-around' in ob['name']:
                        big = max(int(m.get('cx', 9)), int(m.get('cy', 7))) + 4 * f + 3      # far enough past the limit for a grid node to be affected
                        shape = (3, min(big, 300000)) if int(m.get('cy', 7)) >= int(m.get('cx', 9)) else (min(big, 300000), 3)
                    bad, cls, detail = oracle(shape, f, cd)
                    if not bad:
                        for shape in ((9, 7), (2, 2), (17, 32), (f + 1, 2 * f + 3)):
                            bad, cls, detail = oracle(shape, f, cd)
                            if bad:
                                break
                    key = (cls, ob['name'].split(':')[-1])
                    if bad and key in done:
                        rep.cur['sat_reproduced'] += 1
                        continue
                    if rep.finding('C15/K-bookkeeping/%s' % (cls or ob['name'].split(':')[-1]), dict(shape=list(shape), factor=f, cd=cd), detail or ob['name'], reproduced=bad) != 'not-reproduced':
                        done.add(key)
        if f in (1, 3, 64) and cd == 'CDELT' and res:
            rep.sample(dict(factor=f, header=cd, paths=st.paths, obligations=[(o['name'].split(':')[-1], o['result']) for o in res[0]['obligations']][:12]))
    rep.end_kernel()
    for shape, f, cdk in (((9, 7), 2, 'CDELT'), ((2, 2), 5, 'CDELT'), ((33, 20), 4, 'CD'), ((16, 16), 16, 'CDELT'), ((17, 5), 1, 'CD')):
        bad, cls, detail = oracle(shape, f, cdk)
        rep.validated_runs(1)
        if bad:
            rep.finding('C15/K-bookkeeping/%s' % cls, dict(shape=list(shape), factor=f, cd=cdk), detail, kernel='K-bookkeeping')
    rep.kernel('K-bane-output', functions=[FB + ':filter_image'], bounds='the block that writes compressed maps; header values and grid symbolic',
               stubs=['compress -> recorder that edits the header it is given in place, as the real one does', 'astropy HDU objects -> records'],
               assumes=['slice: statements assigning hdu / hdulist / their header and data, and the compress calls (with their enclosing if)'])
    try:
        st0, res0 = explore(h_bane_grid(), wall_s=120)
        st, res = explore(h_bane_compressed())
        rep.stats(st0)
        res = list(res0) + list(res)
        rep.stats(st)
        for r in res:
            for ob in r['obligations']:
                rep.count(ob['result'], ob['name'])
                if ob['result'] == 'sat':
                    bad, cls, detail = bane_compressed_oracle()
                    rep.finding('C15/K-bane-output/%s' % (cls or ob['name'].split(':')[-1]), dict(bane=True), detail or ob['name'], reproduced=bad)
    except slicer.AnchorMissing as e:
        rep.inconc('K-bane-output: anchor-missing %s' % e)
    bad, cls, detail = bane_compressed_oracle()
    rep.validated_runs(1)
    if bad:
        rep.finding('C15/K-bane-output/%s' % cls, dict(bane=True), detail)
    rep.end_kernel()
    # a compressed map is read like an uncompressed one and yields the image's shape (the loader Aegean uses; C20 decides it)
    from checks import C20
    for rows_, n_ in ((47, 3), (12, 1), (9, 4)):
        try:
            bad, cls, detail = C20.oracle_bands(rows_, n_, 'compressed', cols=38)
        except Exception as e:
            bad, cls, detail = False, None, repr(e)
        rep.validated_runs(1)
        if bad:
            rep.finding('C15/K-accept/%s' % cls, dict(accept=True, rows=rows_, n=n_), detail, kernel='K-bookkeeping')
            break
    rep.not_decided += ['a compressed background/noise file is accepted by Aegean wherever an uncompressed one is: decided for the loader in C20 K-exec; here only replayed on real files', 'interpolated values (scipy)']


def replay(w):
    wit = w['witness']
    if wit.get('bane'):
        bad, cls, detail = bane_compressed_oracle()
        return bad, '%s: %s' % (cls, detail)
    if wit.get('accept'):
        from checks import C20
        bad, cls, detail = C20.oracle_bands(int(wit['rows']), int(wit['n']), 'compressed', cols=38)
        return bad, '%s: %s' % (cls, detail)
    bad, cls, detail = oracle(tuple(wit['shape']), int(wit['factor']), wit.get('cd', 'CDELT'))
    return bad, '%s: %s' % (cls, detail)


if __name__ == '__main__':
    main(sys.modules[__name__])
