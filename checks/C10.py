"""C10 masking keeps or removes exactly the pixels/rows whose position is in the region.
The real MIMAS.mask_plane / mask_file plane loop / mask_table run with the WCS and the region membership as
uninterpreted functions and symbolic pixel values: z3 decides which pixel coordinate (and origin) each element
is tested with, and that nothing else changes."""
import sys

import numpy as real_np
import z3

from symx import core, loader
from symx.core import SN, SB, real, explore
from symx.report import main
from checks import islands as I

PID = 'C10'
F = 'AegeanTools/MIMAS.py'


class NanVal:
    """a pixel: an opaque value (z3 Real) that may be blank (z3 Bool); blanking under a condition is an ite on the flag"""
    def __init__(self, v, nan):
        self.v, self.nan = v, nan

    def isnan_sb(self):
        return SB(self.nan)

    def blank_if(self, cond):
        return NanVal(self.v, z3.Or(self.nan, cond))


NARROWED = []


class SymArray(real_np.ndarray):
    """object ndarray of NanVal whose (boolean-mask) assignment of NaN accepts SB masks, also inside tuple keys; a cast of the
    pixel values to a float type narrower than float64 is recorded (the symbolic pixels stand for double-precision data)"""
    def astype(self, dtype, *a, **k):
        try:
            dt = real_np.dtype(dtype)
        except TypeError:
            return self
        if dt.kind == 'f' and dt.itemsize < 8:
            NARROWED.append(dt.name)
        elif dt.kind in 'iu':
            NARROWED.append(dt.name)
        return self

    def __setitem__(self, key, val):
        isnanval = isinstance(val, float) and val != val
        keys = key if isinstance(key, tuple) else (key,)
        symmask = [k for k in keys if isinstance(k, real_np.ndarray) and k.dtype == object]
        if not isnanval or (not symmask and not any(isinstance(k, real_np.ndarray) and k.dtype == bool for k in keys)):
            if isnanval:
                # plain (slice / integer) assignment of NaN
                idx = real_np.arange(self.size).reshape(self.shape)[key]
                for flat in real_np.atleast_1d(idx).ravel():
                    pos = real_np.unravel_index(int(flat), self.shape)
                    real_np.ndarray.__setitem__(self, pos, real_np.ndarray.__getitem__(self, pos).blank_if(z3.BoolVal(True)))
                return
            real_np.ndarray.__setitem__(self, key, val)
            return
        idx = real_np.arange(self.size).reshape(self.shape)
        masks = [(n, k) for n, k in enumerate(keys) if isinstance(k, real_np.ndarray) and k.dtype in (object, bool)]
        if len(masks) != 1:
            raise core.Unsupported('assignment with %d mask arrays' % len(masks))
        n, M = masks[0]
        for p in real_np.ndindex(M.shape):
            cond = M[p]
            cond = cond.e if isinstance(cond, SB) else z3.BoolVal(bool(cond))
            if z3.is_false(z3.simplify(cond)):
                continue
            ck = keys[:n] + tuple(int(x) for x in p) + keys[n + 1:]
            sel = idx[ck]
            for flat in real_np.atleast_1d(sel).ravel():
                pos = real_np.unravel_index(int(flat), self.shape)
                real_np.ndarray.__setitem__(self, pos, real_np.ndarray.__getitem__(self, pos).blank_if(cond))


class NP(loader.NPProxy):
    def isnan(self, a):
        if isinstance(a, real_np.ndarray) and a.dtype == object:
            out = real_np.empty(a.shape, dtype=object)
            for k in real_np.ndindex(a.shape):
                v = real_np.ndarray.__getitem__(a, k) if isinstance(a, SymArray) else a[k]
                out[k] = v.isnan_sb() if isinstance(v, NanVal) else bool(v != v)
            return out
        return loader.NPProxy.isnan(self, a)

    def isfinite(self, a):
        if isinstance(a, real_np.ndarray) and a.dtype == object:
            out = self.isnan(a)
            for k in real_np.ndindex(out.shape):
                out[k] = ~out[k] if isinstance(out[k], SB) else (not out[k])
            return out
        return loader.NPProxy.isfinite(self, a)


class Region(I.UFRegion):
    def sky_within(self, ra, dec, degin=False):
        self.degin.append(degin)
        out = []
        self.narrowed = getattr(self, 'narrowed', False) or any(getattr(v, 'narrow', False) for v in list(ra) + list(dec))
        for a, d in zip(ra, dec):
            if not isinstance(a, I.Sky) or not isinstance(d, I.Sky):
                ok = isinstance(a, I.Sky) or isinstance(d, I.Sky) or False
                out.append(SB(False))          # non-finite coordinate: never inside (C08 decides this for the real Region)
            else:
                out.append(SB(I.Inside(a.e, d.e)))
        return real_np.array(out, dtype=object)


def sym_mimas():
    mods = loader.load_private(['regions', 'catalogs', 'MIMAS'])
    mim = mods['MIMAS']
    loader.patch(mim, np=NP(), builtins=False)
    return mim


def mkdata(shape, prefix='px'):
    """every pixel has an opaque symbolic value and a symbolic "was already blank" flag"""
    data = real_np.empty(shape, dtype=object).view(SymArray)
    for k in real_np.ndindex(shape):
        nm = '_'.join(str(x) for x in k)
        real_np.ndarray.__setitem__(data, k, NanVal(z3.Real('%s_%s' % (prefix, nm)), z3.Bool('nan_%s' % nm)))
    return data


def plane_claims(c, tag, out, plane_idx, R, C, negate, labels=None):
    """labels: array mapping an output index to the ORIGINAL index of that pixel (after squeezing)"""
    cl_mask = []
    cl_keep = []
    for i in range(R):
        for j in range(C):
            k = plane_idx + (i, j)
            v = real_np.ndarray.__getitem__(out, k)
            orig = k if labels is None else labels[k]
            nm = '_'.join(str(x) for x in orig)
            inside = I.inside_pixel(i, j)
            want_blank = inside if negate else z3.Not(inside)
            if not isinstance(v, NanVal):
                cl_mask.append(z3.BoolVal(False))
                continue
            cl_mask.append(v.nan == z3.Or(z3.Bool('nan_%s' % nm), want_blank))
            cl_keep.append(v.v == z3.Real('px_%s' % nm))
    c.oblige(tag + ':blank afterwards <=> blank before or pixel centre %s the region' % ('inside' if negate else 'outside'), z3.And(cl_mask))
    c.oblige(tag + ':other pixel values unchanged', z3.And(cl_keep) if cl_keep else z3.BoolVal(True))


def h_plane(mim, R, C, negate):
    def h(c):
        data = mkdata((R, C))
        reg, wcs = Region(), I.UFWcs()
        out = mim.mask_plane(data, wcs, reg, negate=negate)
        tag = 'mask_plane[%dx%d,negate=%d]' % (R, C, negate)
        c.oblige(tag + ':same array returned, shape kept', z3.BoolVal(out.shape == (R, C)))
        c.oblige(tag + ':degrees handed to the region', z3.BoolVal(all(reg.degin)))
        c.oblige(tag + ':pixel-centre coordinates reach the region in double precision (no narrowing cast)', z3.BoolVal(not getattr(reg, 'narrowed', False)))
        plane_claims(c, tag, out, (), R, C, negate)
        return tag
    return h


def h_file(mim, shape, negate):
    R, C = shape[-2], shape[-1]

    def h(c):
        data = mkdata(shape)
        written = []

        class HDU:
            header = {'h': 1}

        class HL(list):
            def writeto(self, fn, overwrite=False):
                written.append(self[0].data)
        hdu = HDU()
        hdu.data = data
        reg, wcs = Region(), I.UFWcs()

        class FakeFits:
            @staticmethod
            def open(fn, *a, **k):
                return HL([hdu])

        class FakeWcsMod:
            @staticmethod
            def WCS(header, naxis=None):
                return wcs

        class FakeOs:
            class path:
                exists = staticmethod(lambda p: True)

        class FakeRegion:
            load = staticmethod(lambda f: reg)
        saved = (mim.pyfits, mim.pywcs, mim.os, mim.Region)
        mim.pyfits, mim.pywcs, mim.os, mim.Region = FakeFits, FakeWcsMod, FakeOs, FakeRegion
        del NARROWED[:]
        try:
            mim.mask_file('r.mim', 'in.fits', 'out.fits', negate=negate)
        finally:
            mim.pyfits, mim.pywcs, mim.os, mim.Region = saved
        tag = 'mask_file%s[negate=%d]' % (list(shape), negate)
        c.oblige(tag + ':output written once', z3.BoolVal(len(written) == 1))
        c.oblige(tag + ':pixel values are not cast to a narrower type (double-precision images keep their values)', z3.BoolVal(not NARROWED), info=str(NARROWED))
        if len(written) != 1:
            return tag
        out = written[0]
        labels = real_np.empty(shape, dtype=object)
        for k in real_np.ndindex(shape):
            labels[k] = k
        labels = real_np.squeeze(labels) if len(shape) > 2 else labels
        sq = [n for n in shape if n != 1]
        c.oblige(tag + ':data squeezed to planes', z3.BoolVal(list(out.shape) == sq or list(out.shape) == list(shape)))
        if out.ndim == 2:
            plane_claims(c, tag, out, (), R, C, negate, labels)
        elif out.ndim == 3:
            for p in range(out.shape[0]):
                plane_claims(c, tag + ':plane %d' % p, out, (p,), R, C, negate, labels)
        else:
            c.oblige(tag + ':every plane masked', z3.BoolVal(False))
        return tag
    return h


class FakeTable:
    def __init__(self, cols, n):
        self.cols = cols
        self.n = n
        self.selected = None

    def __getitem__(self, k):
        if isinstance(k, str):
            return self.cols[k]
        self.selected = k
        return ('rows', k)

    def __len__(self):
        return self.n


def h_table(mim, n, nanrows, negate, racol, deccol):
    def h(c):
        ra = []
        dec = []
        for k in range(n):
            if k in nanrows:
                ra.append(float('nan'))
                dec.append(I.Sky(z3.Real('dec_%d' % k)))
            else:
                ra.append(I.Sky(z3.Real('ra_%d' % k)))
                dec.append(I.Sky(z3.Real('dec_%d' % k)))
        t = FakeTable({racol: real_np.array(ra, dtype=object), deccol: real_np.array(dec, dtype=object), 'ra' if racol != 'ra' else 'other': None}, n)
        reg = Region()
        out = mim.mask_table(reg, t, negate=negate, racol=racol, deccol=deccol)
        tag = 'mask_table[n=%d,nan=%s,negate=%d,cols=%s]' % (n, sorted(nanrows), negate, racol)
        sel = t.selected
        ok = sel is not None and len(sel) == n and isinstance(out, tuple) and out[0] == 'rows'
        c.oblige(tag + ':one boolean row selector applied to the table (order and columns preserved)', z3.BoolVal(bool(ok)))
        if not ok:
            return tag
        cl = []
        for k in range(n):
            keep = core.lb(sel[k])
            if k in nanrows:
                inside = z3.BoolVal(False)
            else:
                inside = I.Inside(z3.Real('ra_%d' % k), z3.Real('dec_%d' % k))
            cl.append(keep == (inside if negate else z3.Not(inside)))
        c.oblige(tag + ':row kept <=> %s the region; undefined coordinates never inside' % ('inside' if negate else 'not inside'), z3.And(cl) if cl else z3.BoolVal(True))
        c.oblige(tag + ':degrees handed to the region', z3.BoolVal(all(reg.degin)))
        return tag
    return h


# ------------------------------------------------------------------------------------------------
def oracle_plane(R=30, C=40, negate=False, planes=0):
    """property-level oracle on the real mask_plane/mask_file with a real SIN WCS and a real circular region"""
    from astropy.io import fits
    from astropy.wcs import WCS
    mim = loader.real('MIMAS')
    regions = loader.real('regions')
    hdr = fits.Header()
    hdr['CTYPE1'], hdr['CTYPE2'] = 'RA---SIN', 'DEC--SIN'
    hdr['CRVAL1'], hdr['CRVAL2'] = 120.0, -35.0
    hdr['CRPIX1'], hdr['CRPIX2'] = C / 2.0, R / 2.0
    hdr['CDELT1'], hdr['CDELT2'] = -2.0 / 60, 2.0 / 60
    wcs = WCS(hdr, naxis=2)
    reg = regions.Region(maxdepth=12)
    reg.add_circles(real_np.radians(120.0), real_np.radians(-35.0), real_np.radians(0.33))
    data = real_np.arange(R * C, dtype=float).reshape(R, C)
    out = mim.mask_plane(data.copy(), wcs, reg, negate=negate)
    jj, ii = real_np.meshgrid(real_np.arange(C), real_np.arange(R))
    sky = wcs.all_pix2world(real_np.column_stack([jj.ravel(), ii.ravel()]), 0)
    inside = reg.sky_within(sky[:, 0], sky[:, 1], degin=True).reshape(R, C)
    want_blank = inside if negate else ~inside
    got_blank = ~real_np.isfinite(out)
    nbad = int((want_blank != got_blank).sum())
    if nbad:
        return True, 'pixel-offset', '%d of %d pixels masked differently from the per-pixel-centre oracle (%dx%d SIN image, circle r=0.33 deg, negate=%s)' % (nbad, R * C, R, C, negate)
    if not real_np.array_equal(out[~got_blank], data[~got_blank]):
        return True, 'values-changed', 'unmasked pixel values changed'
    return False, None, None


def oracle_large(negate=False, R=1100, C=1000):
    """a plane of more than 2**20 pixels (any block-wise or chunked processing has to cover every row and column); the expected
    mask comes from astropy's WCS and healpy alone"""
    from astropy.io import fits
    from astropy.wcs import WCS
    import healpy as hp
    mim = loader.real('MIMAS')
    regions = loader.real('regions')
    hdr = fits.Header()
    hdr['CTYPE1'], hdr['CTYPE2'] = 'RA---SIN', 'DEC--SIN'
    hdr['CRVAL1'], hdr['CRVAL2'] = 200.0, 20.0
    hdr['CRPIX1'], hdr['CRPIX2'] = C / 2.0, R / 2.0
    hdr['CDELT1'], hdr['CDELT2'] = -1.0 / 600, 1.0 / 600
    wcs = WCS(hdr, naxis=2)
    D = 11
    reg = regions.Region(maxdepth=D)
    reg.add_circles(real_np.radians(200.0), real_np.radians(20.0), real_np.radians(0.9 * min(R, C) / 600.0))
    reg.add_circles(real_np.radians(200.0 + 0.45 * C / 600.0), real_np.radians(20.0 + 0.45 * R / 600.0), real_np.radians(0.3))
    stored = real_np.array(sorted(int(p) for p in reg.get_demoted()))
    data = real_np.ones((R, C), dtype=real_np.float32)
    out = mim.mask_plane(data.copy(), wcs, reg, negate=negate)
    jj, ii = real_np.meshgrid(real_np.arange(C), real_np.arange(R))
    sky = wcs.all_pix2world(real_np.column_stack([jj.ravel(), ii.ravel()]), 0)
    pix = hp.ang2pix(2 ** D, real_np.radians(90 - sky[:, 1]), real_np.radians(sky[:, 0]), nest=True)
    inside = real_np.isin(pix, stored).reshape(R, C)
    want_blank = inside if negate else ~inside
    got_blank = ~real_np.isfinite(out)
    diff = want_blank != got_blank
    nbad = int(diff.sum())
    if nbad:
        rows = sorted(set(real_np.nonzero(diff)[0].tolist()))
        return True, 'large-plane', '%d of %d pixels masked differently from the per-pixel-centre oracle (%dx%d SIN image, negate=%s); rows affected: %s%s' % (nbad, R * C, R, C, negate, rows[:6], '...' if len(rows) > 6 else '')
    return False, None, None


def oracle_fine(negate=False, N=120):
    """regions and depths finer than the pixel grid, pixels far below an arcsecond: 0.05 arcsec pixels against explicit
    depth-18 cells (0.8 arcsec); the oracle takes each pixel centre through astropy (float64) and healpy ang2pix"""
    import healpy as hp
    from astropy.io import fits
    from astropy.wcs import WCS
    mim = loader.real('MIMAS')
    regions = loader.real('regions')
    hdr = fits.Header()
    hdr['CTYPE1'], hdr['CTYPE2'] = 'RA---SIN', 'DEC--SIN'
    hdr['CRVAL1'], hdr['CRVAL2'] = 201.3, -43.0
    hdr['CRPIX1'], hdr['CRPIX2'] = N / 2.0, N / 2.0
    hdr['CDELT1'], hdr['CDELT2'] = -0.05 / 3600, 0.05 / 3600
    wcs = WCS(hdr, naxis=2)
    jj, ii = real_np.meshgrid(real_np.arange(N), real_np.arange(N))
    sky = wcs.all_pix2world(real_np.column_stack([jj.ravel(), ii.ravel()]), 0)
    cell = hp.ang2pix(2 ** 18, real_np.radians(90 - sky[:, 1]), real_np.radians(sky[:, 0]), nest=True)
    cells = sorted(set(int(x) for x in cell))
    keep = set(cells[::2])                        # every other cell that the image touches
    reg = regions.Region(maxdepth=18)
    reg.add_pixels(sorted(keep), 18)
    data = real_np.arange(N * N, dtype=float).reshape(N, N)
    out = mim.mask_plane(data.copy(), wcs, reg, negate=negate)
    inside = real_np.array([int(x) in keep for x in cell]).reshape(N, N)
    want_blank = inside if negate else ~inside
    got_blank = ~real_np.isfinite(out)
    nbad = int((want_blank != got_blank).sum())
    if nbad:
        return True, 'pixel-position-precision', '%d of %d pixels of a %dx%d image with 0.05 arcsec pixels masked differently from the float64 pixel-centre oracle (depth-18 cells, negate=%s)' % (nbad, N * N, N, N, negate)
    return False, None, None


def oracle_file(negate=False, R=12, C=15):
    """real mask_file on a 3-plane cube with pre-existing blanks that differ between planes"""
    import os
    import shutil
    import tempfile
    from astropy.io import fits
    from astropy.wcs import WCS
    mim = loader.real('MIMAS')
    regions = loader.real('regions')
    d = tempfile.mkdtemp(prefix='c10_', dir='/var/tmp')
    try:
        hdr = fits.Header()
        hdr['CTYPE1'], hdr['CTYPE2'] = 'RA---SIN', 'DEC--SIN'
        hdr['CRVAL1'], hdr['CRVAL2'] = 120.0, -35.0
        hdr['CRPIX1'], hdr['CRPIX2'] = C / 2.0, R / 2.0
        hdr['CDELT1'], hdr['CDELT2'] = -4.0 / 60, 4.0 / 60
        data = real_np.arange(3 * R * C, dtype=float).reshape(3, R, C) * 1.000000123 + 1.1      # double precision values that single precision cannot hold
        data[0, 2, 3] = real_np.nan
        data[0, R // 2, C // 2] = real_np.nan
        data[1, 5, 1] = real_np.nan
        data[2, R // 2, C // 2 + 1] = real_np.nan
        fn, rf, of = os.path.join(d, 'in.fits'), os.path.join(d, 'r.mim'), os.path.join(d, 'out.fits')
        fits.PrimaryHDU(data, header=hdr).writeto(fn)
        reg = regions.Region(maxdepth=12)
        reg.add_circles(real_np.radians(120.0), real_np.radians(-35.0), real_np.radians(0.25))
        reg.save(rf)
        mim.mask_file(rf, fn, of, negate=negate)
        out = fits.getdata(of)
        wcs = WCS(hdr, naxis=2)
        jj, ii = real_np.meshgrid(real_np.arange(C), real_np.arange(R))
        sky = wcs.all_pix2world(real_np.column_stack([jj.ravel(), ii.ravel()]), 0)
        inside = reg.sky_within(sky[:, 0], sky[:, 1], degin=True).reshape(R, C)
        blank = inside if negate else ~inside
        for p in range(3):
            want_nan = ~real_np.isfinite(data[p]) | blank
            got_nan = ~real_np.isfinite(out[p])
            if (want_nan != got_nan).any():
                return True, 'plane-mask', 'plane %d of a 3x%dx%d cube: %d pixels blanked differently from "blank before or outside the region" (negate=%s)' % (p, R, C, int((want_nan != got_nan).sum()), negate)
            if not real_np.array_equal(out[p][~got_nan], data[p][~got_nan]):
                return True, 'values-changed', 'plane %d: unmasked values changed' % p
        return False, None, None
    finally:
        shutil.rmtree(d, ignore_errors=True)


def oracle_table(negate=False):
    from astropy.table import Table
    mim = loader.real('MIMAS')
    regions = loader.real('regions')
    reg = regions.Region(maxdepth=9)
    reg.add_circles(real_np.radians(10.0), real_np.radians(-5.0), real_np.radians(1.0))
    ra = real_np.array([10.0, 10.5, 13.0, real_np.nan, 9.2, 10.0])
    dec = real_np.array([-5.0, -5.2, -5.0, -5.0, -4.5, real_np.nan])
    t = Table({'myra': ra, 'mydec': dec, 'id': real_np.arange(6)})
    out = mim.mask_table(reg, t, negate=negate, racol='myra', deccol='mydec')
    inside = real_np.array([bool(reg.sky_within(a, d, degin=True)[0]) if real_np.isfinite(a) and real_np.isfinite(d) else False for a, d in zip(ra, dec)])
    keep = inside if negate else ~inside
    want = list(real_np.arange(6)[keep])
    got = list(out['id'])
    if got != want:
        return True, 'table-rows', 'rows kept %s expected %s (negate=%s)' % (got, want, negate)
    # coordinates that are undefined because the column entry is masked (e.g. after a left join): the value hidden under the
    # mask lies inside the region, the row has no position
    tm = Table({'myra': ra.copy(), 'mydec': dec.copy(), 'id': real_np.arange(6)}, masked=True)
    tm['myra'].mask = [False, True, False, False, False, False]
    tm['mydec'].mask = [True, False, False, False, False, False]
    out = mim.mask_table(reg, tm, negate=negate, racol='myra', deccol='mydec')
    defined = real_np.array([False, False, True, True, True, True])
    keepm = (inside & defined) if negate else ~(inside & defined)
    want = [int(v) for v in real_np.arange(6)[keepm]]
    got = [int(v) for v in out['id']]
    if got != want:
        return True, 'table-masked-coordinates', 'table with masked coordinates: rows kept %s expected %s (negate=%s); rows 0 and 1 have a masked dec / ra whose hidden value is inside the region' % (got, want, negate)
    return False, None, None


def run(rep):
    mim = sym_mimas()
    thorough = rep.tier == 'thorough'
    rep.assume('WCS = any pixel->sky map (uninterpreted), region = any set of sky positions (uninterpreted predicate): the claim holds for every projection, CRPIX, region and depth',
               'Region.sky_within never answers True for a non-finite coordinate (decided for the real Region in C08)')
    shapes = [(1, 1), (1, 3), (2, 3), (3, 2), (3, 4), (4, 3)] + ([(4, 4), (2, 5), (5, 2)] if thorough else [])
    rep.kernel('K-mask_plane', functions=[F + ':mask_plane'], bounds='image shapes %s, negate on/off; symbolic pixel values' % shapes,
               stubs=['wcs.wcs_pix2world -> uninterpreted Wra/Wdec with origin bookkeeping', 'region.sky_within -> uninterpreted Inside', 'data array -> SymArray (boolean-mask assignment as element-wise ite)'],
               assumes=['oracle: element [i,j] blanked iff not Inside(W_fits(x=j+1, y=i+1)) (xor negate)'], outside=['wcslib itself'])
    plans = [(h_plane(mim, R, C, neg), {}) for R, C in shapes for neg in (False, True)]
    meta = [('plane', dict(R=R, C=C, negate=neg)) for R, C in shapes for neg in (False, True)]
    for (st, res), (kind, m) in zip(core.explore_many(plans, workers=8), meta):
        rep.stats(st)
        for r in res:
            for ob in r['obligations']:
                rep.count(ob['result'], ob['name'])
                if ob['result'] == 'sat':
                    bad, cls, detail = oracle_plane(negate=m['negate'])
                    kind_ = 'plane'
                    if not bad:
                        bad, cls, detail = oracle_fine(negate=m['negate'])
                        kind_ = 'fine'
                    rep.finding('C10/K-mask_plane/%s' % (cls or ob['name'].split(':')[-1]), dict(kind=kind_, negate=m['negate']), detail or ob['name'], reproduced=bad)
        rep.sample(dict(kernel='K-mask_plane', case=res[0]['out'], obligations=[(o['name'].split(':')[-1], o['result']) for o in res[0]['obligations']]))
    rep.end_kernel()
    rep.kernel('K-mask_file', functions=[F + ':mask_file', F + ':mask_plane'], bounds='data shapes (2,3), (2,2,3), (3,2,2), (1,2,2,3), (1,1,2,3); negate on/off',
               stubs=['pyfits.open / pywcs.WCS / Region.load / os.path.exists -> fakes; writeto recorded'])
    fshapes = [(2, 3), (2, 2, 3), (3, 2, 2), (1, 2, 2, 3), (1, 1, 2, 3)]
    for shape in fshapes:
        for neg in (False, True):
            st, res = explore(h_file(mim, shape, neg))
            rep.stats(st)
            for r in res:
                for ob in r['obligations']:
                    rep.count(ob['result'], ob['name'])
                    if ob['result'] == 'sat':
                        bad, cls, detail = oracle_file(negate=neg)
                        kind = 'file'
                        if not bad:
                            bad, cls, detail = oracle_plane(negate=neg)
                            kind = 'plane'
                        rep.finding('C10/K-mask_file/%s' % (cls or ob['name'].split(':')[-1]), dict(kind=kind, negate=neg), detail or ob['name'], reproduced=bad)
    rep.end_kernel()
    rep.kernel('K-mask_table', functions=[F + ':mask_table'], bounds='tables of 0-4 rows, every single undefined-coordinate row position, negate on/off, default and custom column names',
               stubs=['astropy Table -> recorder (column access, boolean row selection)', 'region -> uninterpreted Inside; non-finite never inside'])
    cases = []
    for n in range(0, 5):
        for nan in [set()] + [{k} for k in range(n)]:
            for neg in (False, True):
                for cols in (('ra', 'dec'), ('myra', 'mydec')):
                    cases.append((n, nan, neg, cols))
    for n, nan, neg, cols in cases:
        st, res = explore(h_table(mim, n, nan, neg, cols[0], cols[1]))
        rep.stats(st)
        for r in res:
            for ob in r['obligations']:
                rep.count(ob['result'], ob['name'])
                if ob['result'] == 'sat':
                    bad, cls, detail = oracle_table(neg)
                    rep.finding('C10/K-mask_table/%s' % (cls or ob['name'].split(':')[-1]), dict(kind='table', negate=neg), detail or ob['name'], reproduced=bad)
    rep.sample(dict(kernel='K-mask_table', cases=len(cases)))
    rep.end_kernel()
    # executor validation / property-level runs on the real code
    for neg in (False, True):
        for fn, kind, k in ((oracle_plane, 'plane', 'K-mask_plane'), (oracle_table, 'table', 'K-mask_table'), (oracle_file, 'file', 'K-mask_file'), (oracle_fine, 'fine', 'K-mask_plane'), (oracle_large, 'large', 'K-mask_plane')):
            bad, cls, detail = fn(negate=neg)
            rep.validated_runs(1)
            if bad:
                rep.finding('C10/%s/%s' % (k, cls), dict(kind=kind, negate=neg), detail, kernel=k)
    from checks import C08
    C08.membership_kernel(rep, 'C10')
    rep.not_decided += ['wcslib projection arithmetic', 'FITS I/O of mask_file/mask_catalog (astropy)']


def replay(w):
    if w['witness'].get('kind') == 'membership':
        from checks import C08
        bad, cls, detail = C08.replay_case(w['witness'])
        return bad, '%s: %s' % (cls, detail)
    wit = w['witness']
    fn = {'plane': oracle_plane, 'file': oracle_file, 'fine': oracle_fine, 'large': oracle_large}.get(wit.get('kind'), oracle_table)
    bad, cls, detail = fn(negate=bool(wit.get('negate')))
    return bad, '%s: %s' % (cls, detail)


if __name__ == '__main__':
    main(sys.modules[__name__])
