"""C10 masking keeps or removes exactly the pixels/rows whose position is in the region.
The real MIMAS.mask_plane / mask_file plane loop / mask_table run with the WCS and the region membership as
uninterpreted functions and symbolic pixel values: z3 decides which pixel coordinate (and origin) each element
is tested with, and that nothing else changes."""
import sys

import numpy as real_np
import z3

from symx import core, loader
from symx.core import SN, SB, real, explore
from symx.report import main
from checks import islands as I

PID = 'C10'
F = 'AegeanTools/MIMAS.py'


class SymArray(real_np.ndarray):
    """object ndarray whose boolean-mask assignment accepts SB masks and applies them element-wise as ite"""
    def __setitem__(self, idx, val):
        if isinstance(idx, real_np.ndarray) and idx.dtype == object:
            for k in real_np.ndindex(idx.shape):
                old = real_np.ndarray.__getitem__(self, k)
                cond = idx[k]
                cond = cond.e if isinstance(cond, SB) else z3.BoolVal(bool(cond))
                real_np.ndarray.__setitem__(self, k, ('ite', cond, val, old))
        else:
            real_np.ndarray.__setitem__(self, idx, val)


class Region(I.UFRegion):
    def sky_within(self, ra, dec, degin=False):
        self.degin.append(degin)
        out = []
        for a, d in zip(ra, dec):
            if not isinstance(a, I.Sky) or not isinstance(d, I.Sky):
                ok = isinstance(a, I.Sky) or isinstance(d, I.Sky) or False
                out.append(SB(False))          # non-finite coordinate: never inside (C08 decides this for the real Region)
            else:
                out.append(SB(I.Inside(a.e, d.e)))
        return real_np.array(out, dtype=object)


def sym_mimas():
    mods = loader.load_private(['regions', 'catalogs', 'MIMAS'])
    mim = mods['MIMAS']
    loader.patch(mim, builtins=False)
    return mim


def mkdata(shape, prefix='px'):
    data = real_np.empty(shape, dtype=object).view(SymArray)
    for k in real_np.ndindex(shape):
        real_np.ndarray.__setitem__(data, k, ('px',) + k)
    return data


def plane_claims(c, tag, out, plane_idx, R, C, negate, labels=None):
    cl_mask = []
    cl_keep = []
    for i in range(R):
        for j in range(C):
            k = plane_idx + (i, j)
            v = real_np.ndarray.__getitem__(out, k)
            lab = ('px',) + k if labels is None else labels[k]
            inside = I.inside_pixel(i, j)
            want_blank = inside if negate else z3.Not(inside)
            if isinstance(v, tuple) and v[0] == 'ite':
                blank_is_nan = isinstance(v[2], float) and v[2] != v[2]
                cl_mask.append(v[1] == want_blank if blank_is_nan else z3.BoolVal(False))
                cl_keep.append(z3.BoolVal(v[3] == lab))
            else:
                # untouched element: must never need blanking
                cl_mask.append(z3.Not(want_blank))
                cl_keep.append(z3.BoolVal(v == lab))
    c.oblige(tag + ':blanked <=> pixel centre %s the region' % ('inside' if negate else 'outside'), z3.And(cl_mask))
    c.oblige(tag + ':other pixel values unchanged', z3.And(cl_keep))


def h_plane(mim, R, C, negate):
    def h(c):
        data = mkdata((R, C))
        reg, wcs = Region(), I.UFWcs()
        out = mim.mask_plane(data, wcs, reg, negate=negate)
        tag = 'mask_plane[%dx%d,negate=%d]' % (R, C, negate)
        c.oblige(tag + ':same array returned, shape kept', z3.BoolVal(out.shape == (R, C)))
        c.oblige(tag + ':degrees handed to the region', z3.BoolVal(all(reg.degin)))
        plane_claims(c, tag, out, (), R, C, negate)
        return tag
    return h


def h_file(mim, shape, negate):
    R, C = shape[-2], shape[-1]

    def h(c):
        data = mkdata(shape)
        written = []

        class HDU:
            header = {'h': 1}

        class HL(list):
            def writeto(self, fn, overwrite=False):
                written.append(self[0].data)
        hdu = HDU()
        hdu.data = data
        reg, wcs = Region(), I.UFWcs()

        class FakeFits:
            @staticmethod
            def open(fn, *a, **k):
                return HL([hdu])

        class FakeWcsMod:
            @staticmethod
            def WCS(header, naxis=None):
                return wcs

        class FakeOs:
            class path:
                exists = staticmethod(lambda p: True)

        class FakeRegion:
            load = staticmethod(lambda f: reg)
        saved = (mim.pyfits, mim.pywcs, mim.os, mim.Region)
        mim.pyfits, mim.pywcs, mim.os, mim.Region = FakeFits, FakeWcsMod, FakeOs, FakeRegion
        try:
            mim.mask_file('r.mim', 'in.fits', 'out.fits', negate=negate)
        finally:
            mim.pyfits, mim.pywcs, mim.os, mim.Region = saved
        tag = 'mask_file%s[negate=%d]' % (list(shape), negate)
        c.oblige(tag + ':output written once', z3.BoolVal(len(written) == 1))
        if len(written) != 1:
            return tag
        out = written[0]
        labels = real_np.empty(shape, dtype=object)
        for k in real_np.ndindex(shape):
            labels[k] = ('px',) + k
        labels = real_np.squeeze(labels) if len(shape) > 2 else labels
        sq = [n for n in shape if n != 1]
        c.oblige(tag + ':data squeezed to planes', z3.BoolVal(list(out.shape) == sq or list(out.shape) == list(shape)))
        if out.ndim == 2:
            plane_claims(c, tag, out, (), R, C, negate, labels)
        elif out.ndim == 3:
            for p in range(out.shape[0]):
                plane_claims(c, tag + ':plane %d' % p, out, (p,), R, C, negate, labels)
        else:
            c.oblige(tag + ':every plane masked', z3.BoolVal(False))
        return tag
    return h


class FakeTable:
    def __init__(self, cols, n):
        self.cols = cols
        self.n = n
        self.selected = None

    def __getitem__(self, k):
        if isinstance(k, str):
            return self.cols[k]
        self.selected = k
        return ('rows', k)

    def __len__(self):
        return self.n


def h_table(mim, n, nanrows, negate, racol, deccol):
    def h(c):
        ra = []
        dec = []
        for k in range(n):
            if k in nanrows:
                ra.append(float('nan'))
                dec.append(I.Sky(z3.Real('dec_%d' % k)))
            else:
                ra.append(I.Sky(z3.Real('ra_%d' % k)))
                dec.append(I.Sky(z3.Real('dec_%d' % k)))
        t = FakeTable({racol: real_np.array(ra, dtype=object), deccol: real_np.array(dec, dtype=object), 'ra' if racol != 'ra' else 'other': None}, n)
        reg = Region()
        out = mim.mask_table(reg, t, negate=negate, racol=racol, deccol=deccol)
        tag = 'mask_table[n=%d,nan=%s,negate=%d,cols=%s]' % (n, sorted(nanrows), negate, racol)
        sel = t.selected
        ok = sel is not None and len(sel) == n and isinstance(out, tuple) and out[0] == 'rows'
        c.oblige(tag + ':one boolean row selector applied to the table (order and columns preserved)', z3.BoolVal(bool(ok)))
        if not ok:
            return tag
        cl = []
        for k in range(n):
            keep = core.lb(sel[k])
            if k in nanrows:
                inside = z3.BoolVal(False)
            else:
                inside = I.Inside(z3.Real('ra_%d' % k), z3.Real('dec_%d' % k))
            cl.append(keep == (inside if negate else z3.Not(inside)))
        c.oblige(tag + ':row kept <=> %s the region; undefined coordinates never inside' % ('inside' if negate else 'not inside'), z3.And(cl) if cl else z3.BoolVal(True))
        c.oblige(tag + ':degrees handed to the region', z3.BoolVal(all(reg.degin)))
        return tag
    return h


# ------------------------------------------------------------------------------------------------
def oracle_plane(R=30, C=40, negate=False, planes=0):
    """property-level oracle on the real mask_plane/mask_file with a real SIN WCS and a real circular region"""
    from astropy.io import fits
    from astropy.wcs import WCS
    mim = loader.real('MIMAS')
    regions = loader.real('regions')
    hdr = fits.Header()
    hdr['CTYPE1'], hdr['CTYPE2'] = 'RA---SIN', 'DEC--SIN'
    hdr['CRVAL1'], hdr['CRVAL2'] = 120.0, -35.0
    hdr['CRPIX1'], hdr['CRPIX2'] = C / 2.0, R / 2.0
    hdr['CDELT1'], hdr['CDELT2'] = -2.0 / 60, 2.0 / 60
    wcs = WCS(hdr, naxis=2)
    reg = regions.Region(maxdepth=12)
    reg.add_circles(real_np.radians(120.0), real_np.radians(-35.0), real_np.radians(0.33))
    data = real_np.arange(R * C, dtype=float).reshape(R, C)
    out = mim.mask_plane(data.copy(), wcs, reg, negate=negate)
    jj, ii = real_np.meshgrid(real_np.arange(C), real_np.arange(R))
    sky = wcs.all_pix2world(real_np.column_stack([jj.ravel(), ii.ravel()]), 0)
    inside = reg.sky_within(sky[:, 0], sky[:, 1], degin=True).reshape(R, C)
    want_blank = inside if negate else ~inside
    got_blank = ~real_np.isfinite(out)
    nbad = int((want_blank != got_blank).sum())
    if nbad:
        return True, 'pixel-offset', '%d of %d pixels masked differently from the per-pixel-centre oracle (%dx%d SIN image, circle r=0.33 deg, negate=%s)' % (nbad, R * C, R, C, negate)
    if not real_np.array_equal(out[~got_blank], data[~got_blank]):
        return True, 'values-changed', 'unmasked pixel values changed'
    return False, None, None


def oracle_table(negate=False):
    from astropy.table import Table
    mim = loader.real('MIMAS')
    regions = loader.real('regions')
    reg = regions.Region(maxdepth=9)
    reg.add_circles(real_np.radians(10.0), real_np.radians(-5.0), real_np.radians(1.0))
    ra = real_np.array([10.0, 10.5, 13.0, real_np.nan, 9.2, 10.0])
    dec = real_np.array([-5.0, -5.2, -5.0, -5.0, -4.5, real_np.nan])
    t = Table({'myra': ra, 'mydec': dec, 'id': real_np.arange(6)})
    out = mim.mask_table(reg, t, negate=negate, racol='myra', deccol='mydec')
    inside = real_np.array([bool(reg.sky_within(a, d, degin=True)[0]) if real_np.isfinite(a) and real_np.isfinite(d) else False for a, d in zip(ra, dec)])
    keep = inside if negate else ~inside
    want = list(real_np.arange(6)[keep])
    got = list(out['id'])
    if got != want:
        return True, 'table-rows', 'rows kept %s expected %s (negate=%s)' % (got, want, negate)
    return False, None, None


def run(rep):
    mim = sym_mimas()
    thorough = rep.tier == 'thorough'
    rep.assume('WCS = any pixel->sky map (uninterpreted), region = any set of sky positions (uninterpreted predicate): the claim holds for every projection, CRPIX, region and depth',
               'Region.sky_within never answers True for a non-finite coordinate (decided for the real Region in C08)')
    shapes = [(1, 1), (1, 3), (2, 3), (3, 2), (3, 4), (4, 3)] + ([(4, 4), (2, 5), (5, 2)] if thorough else [])
    rep.kernel('K-mask_plane', functions=[F + ':mask_plane'], bounds='image shapes %s, negate on/off; symbolic pixel values' % shapes,
               stubs=['wcs.wcs_pix2world -> uninterpreted Wra/Wdec with origin bookkeeping', 'region.sky_within -> uninterpreted Inside', 'data array -> SymArray (boolean-mask assignment as element-wise ite)'],
               assumes=['oracle: element [i,j] blanked iff not Inside(W_fits(x=j+1, y=i+1)) (xor negate)'], outside=['wcslib itself'])
    plans = [(h_plane(mim, R, C, neg), {}) for R, C in shapes for neg in (False, True)]
    meta = [('plane', dict(R=R, C=C, negate=neg)) for R, C in shapes for neg in (False, True)]
    for (st, res), (kind, m) in zip(core.explore_many(plans, workers=8), meta):
        rep.stats(st)
        for r in res:
            for ob in r['obligations']:
                rep.count(ob['result'], ob['name'])
                if ob['result'] == 'sat':
                    bad, cls, detail = oracle_plane(negate=m['negate'])
                    rep.finding('C10/K-mask_plane/%s' % (cls or ob['name'].split(':')[-1]), dict(kind='plane', negate=m['negate']), detail or ob['name'], reproduced=bad)
        rep.sample(dict(kernel='K-mask_plane', case=res[0]['out'], obligations=[(o['name'].split(':')[-1], o['result']) for o in res[0]['obligations']]))
    rep.end_kernel()
    rep.kernel('K-mask_file', functions=[F + ':mask_file', F + ':mask_plane'], bounds='data shapes (2,3), (2,2,3), (3,2,2), (1,2,2,3), (1,1,2,3); negate on/off',
               stubs=['pyfits.open / pywcs.WCS / Region.load / os.path.exists -> fakes; writeto recorded'])
    fshapes = [(2, 3), (2, 2, 3), (3, 2, 2), (1, 2, 2, 3), (1, 1, 2, 3)]
    for shape in fshapes:
        for neg in (False, True):
            st, res = explore(h_file(mim, shape, neg))
            rep.stats(st)
            for r in res:
                for ob in r['obligations']:
                    rep.count(ob['result'], ob['name'])
                    if ob['result'] == 'sat':
                        bad, cls, detail = oracle_plane(negate=neg)
                        rep.finding('C10/K-mask_file/%s' % (cls or ob['name'].split(':')[-1]), dict(kind='plane', negate=neg), detail or ob['name'], reproduced=bad)
    rep.end_kernel()
    rep.kernel('K-mask_table', functions=[F + ':mask_table'], bounds='tables of 0-4 rows, every single undefined-coordinate row position, negate on/off, default and custom column names',
               stubs=['astropy Table -> recorder (column access, boolean row selection)', 'region -> uninterpreted Inside; non-finite never inside'])
    cases = []
    for n in range(0, 5):
        for nan in [set()] + [{k} for k in range(n)]:
            for neg in (False, True):
                for cols in (('ra', 'dec'), ('myra', 'mydec')):
                    cases.append((n, nan, neg, cols))
    for n, nan, neg, cols in cases:
        st, res = explore(h_table(mim, n, nan, neg, cols[0], cols[1]))
        rep.stats(st)
        for r in res:
            for ob in r['obligations']:
                rep.count(ob['result'], ob['name'])
                if ob['result'] == 'sat':
                    bad, cls, detail = oracle_table(neg)
                    rep.finding('C10/K-mask_table/%s' % (cls or ob['name'].split(':')[-1]), dict(kind='table', negate=neg), detail or ob['name'], reproduced=bad)
    rep.sample(dict(kernel='K-mask_table', cases=len(cases)))
    rep.end_kernel()
    # executor validation / property-level runs on the real code
    for neg in (False, True):
        for fn, kind, k in ((oracle_plane, 'plane', 'K-mask_plane'), (oracle_table, 'table', 'K-mask_table')):
            bad, cls, detail = fn(negate=neg)
            rep.validated_runs(1)
            if bad:
                rep.finding('C10/%s/%s' % (k, cls), dict(kind=kind, negate=neg), detail, kernel=k)
    rep.not_decided += ['wcslib projection arithmetic', 'FITS I/O of mask_file/mask_catalog (astropy)']


def replay(w):
    wit = w['witness']
    bad, cls, detail = (oracle_plane(negate=bool(wit.get('negate'))) if wit.get('kind') == 'plane' else oracle_table(bool(wit.get('negate'))))
    return bad, '%s: %s' % (cls, detail)


if __name__ == '__main__':
    main(sys.modules[__name__])
