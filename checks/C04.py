"""C04 model derivatives and per-parameter 1-sigma errors are the true ones.
The real fitting.jacobian / lmfit_jacobian / covar_errors run on symbolic parameters, pixels, vary flags, B and
inverse matrices; the oracle differentiates the term produced by executing the real elliptical_gaussian."""
import itertools
import math
import random
import sys

import numpy as real_np
import z3

from symx import core, loader, nz
from symx.core import SN, SB, real, angle_deg, explore
from symx.report import main

PID = 'C04'
F = 'AegeanTools/fitting.py'
NAMES = ['amp', 'xo', 'yo', 'sx', 'sy', 'theta']


class Par:
    def __init__(self, value, vary=True):
        self.value = value
        self.vary = vary
        self.stderr = None

    def __deepcopy__(self, memo):
        return self


class Params(dict):
    pass


def sym_fitting():
    mods = loader.load_private(['fitting'])
    fit = mods['fitting']
    loader.patch(fit, np=loader.NPProxy(sym_pi=True))
    return fit


def mkpars(n, varyspec):
    """varyspec[i][p] : True/False/SB"""
    pars = Params()
    pars['components'] = Par(n, False)
    V = {}
    for i in range(n):
        for p in NAMES:
            nm = 'c%d_%s' % (i, p)
            v = angle_deg(nm) if p == 'theta' else real(nm)
            V[nm] = v
            pars[nm] = Par(v, varyspec[i][p])
    return pars, V


def deriv(c, t, var, angname, memo=None):
    """d t / d var for a z3 term t; var is a z3 Real const; angname != None when var is an angle (degrees) with atoms"""
    memo = {} if memo is None else memo

    def go(t):
        i = t.get_id()
        if i in memo:
            return memo[i]
        r = go1(t)
        memo[i] = r
        return r

    def go1(t):
        if z3.is_rational_value(t) or z3.is_int_value(t):
            return z3.RealVal(0)
        if z3.is_const(t):
            if t.eq(var):
                return z3.RealVal(1)
            if angname and angname in c.atoms:
                cc, ss = c.atoms[angname]
                if t.eq(cc):
                    return -c.K * ss
                if t.eq(ss):
                    return c.K * cc
            nm = str(t)
            if nm in c.exps:
                E, g = c.exps[nm]
                return E * go(g)
            return z3.RealVal(0)
        k = t.decl().kind()
        ch = t.children()
        if k == z3.Z3_OP_ADD:
            return z3.Sum([go(x) for x in ch])
        if k == z3.Z3_OP_SUB:
            r = go(ch[0])
            for x in ch[1:]:
                r = r - go(x)
            return r
        if k == z3.Z3_OP_UMINUS:
            return -go(ch[0])
        if k == z3.Z3_OP_MUL:
            tot = z3.RealVal(0)
            for a in range(len(ch)):
                term = go(ch[a])
                if z3.is_rational_value(term) and term.numerator_as_long() == 0:
                    continue
                for b in range(len(ch)):
                    if b != a:
                        term = term * ch[b]
                tot = tot + term
            return tot
        if k == z3.Z3_OP_DIV:
            a, b = ch
            return (go(a) * b - a * go(b)) / (b * b)
        if k == z3.Z3_OP_POWER:
            a, n = ch
            nv = n.as_long() if z3.is_int_value(n) else int(n.numerator_as_long())
            return nv * (a ** (nv - 1)) * go(a)
        if k == z3.Z3_OP_TO_REAL:
            return go(ch[0])
        raise NotImplementedError(str(t.decl()))
    return go(t)


PATTERNS = {'all': dict(amp=1, xo=1, yo=1, sx=1, sy=1, theta=1), 'stage1': dict(amp=1, xo=0, yo=0, sx=0, sy=0, theta=0),
            'stage2': dict(amp=1, xo=1, yo=1, sx=0, sy=0, theta=0), 'none': dict(amp=0, xo=0, yo=0, sx=0, sy=0, theta=0),
            'shape': dict(amp=0, xo=0, yo=0, sx=1, sy=1, theta=1)}


def varyspec(n, symbolic, others):
    spec = []
    for i in range(n):
        if i in symbolic:
            spec.append({p: SB(z3.Bool('vary_c%d_%s' % (i, p))) for p in NAMES})
        else:
            spec.append({p: bool(PATTERNS[others[i]][p]) for p in NAMES})
    return spec


ROWCACHE = {}


def h_rows(fit, n, symbolic, others):
    def h(c):
        pars, V = mkpars(n, varyspec(n, symbolic, others))
        x, y = real('x'), real('y')
        for i in range(n):
            c.assume(V['c%d_sx' % i].e > 0)
            c.assume(V['c%d_sy' % i].e > 0)
            c.assume(V['c%d_amp' % i].e != 0)
        # the oracle's model: execute the REAL model function component by component
        models = [fit.elliptical_gaussian(x, y, *[pars['c%d_%s' % (i, p)].value for p in NAMES]) for i in range(n)]
        J = fit.jacobian(pars, x, y)
        free = [(i, p) for i in range(n) for p in NAMES if bool(pars['c%d_%s' % (i, p)].vary)]
        tag = 'jacobian[n=%d]' % n
        nrows = len(J)
        c.oblige(tag + ':row count == free parameters', z3.BoolVal(nrows == len(free)))
        out = dict(free=free, rows=[])
        if nrows != len(free):
            return out
        for r, (i, p) in enumerate(free):
            row = J[r]
            nm = 'c%d_%s' % (i, p)
            key = (n, i, p, core.lift(row).sexpr())
            if key in ROWCACHE:
                out['rows'].append((i, p, 'cached:' + ROWCACHE[key]))
                continue
            true = deriv(c, models[i].e, V[nm].e, nm if p == 'theta' else None)
            rec = nz.identity(c, '%s:row (c%d,%s) == d model/d %s' % (tag, i, p, p), core.lift(row), true,
                              positive=['c%d_sx' % i, 'c%d_sy' % i])
            ROWCACHE[key] = rec['result']
            out['rows'].append((i, p, rec['result']))
        return out
    return h


def num_jac_check(vals, n, vary):
    """property-level oracle on the REAL code: analytic rows vs central differences of the real model (own units)"""
    import lmfit
    fit = loader.real('fitting')
    pars = lmfit.Parameters()
    pars.add('components', value=n, vary=False)
    for i in range(n):
        for p in NAMES:
            pars.add('c%d_%s' % (i, p), value=float(vals['c%d_%s' % (i, p)]), vary=bool(vary[i][p]))
    xs, ys = real_np.meshgrid(real_np.arange(7.0), real_np.arange(6.0), indexing='ij')
    xs, ys = xs.ravel(), ys.ravel()
    J = real_np.array(fit.jacobian(pars, xs, ys))
    free = [(i, p) for i in range(n) for p in NAMES if vary[i][p]]
    if J.shape[0] != len(free):
        return True, 'row-count', 'jacobian has %d rows for %d free parameters' % (J.shape[0], len(free))
    model = fit.ntwodgaussian_lmfit(pars)
    for r, (i, p) in enumerate(free):
        nm = 'c%d_%s' % (i, p)
        v0 = pars[nm].value
        eps = 1e-6 * max(1.0, abs(v0))
        pars[nm].value = v0 + eps
        hi = model(xs, ys)
        pars[nm].value = v0 - eps
        lo = model(xs, ys)
        pars[nm].value = v0
        num = (hi - lo) / (2 * eps)
        scale = max(1e-12, real_np.abs(num).max(), real_np.abs(J[r]).max())
        if real_np.abs(num - J[r]).max() > 1e-5 * scale:
            return True, 'row:%s' % p, 'row %d (c%d_%s): analytic/numeric ratio %.6g at %s' % (r, i, p, float(real_np.abs(J[r]).max() / max(1e-300, real_np.abs(num).max())), {k: round(float(v), 4) for k, v in vals.items()})
    return False, None, None


def default_vals(n, rng):
    vals = {}
    for i in range(n):
        vals.update({'c%d_amp' % i: rng.uniform(0.5, 3) * rng.choice([-1, 1]), 'c%d_xo' % i: rng.uniform(2, 4), 'c%d_yo' % i: rng.uniform(2, 3.5),
                     'c%d_sx' % i: rng.uniform(1.5, 2.5), 'c%d_sy' % i: rng.uniform(0.8, 1.3), 'c%d_theta' % i: rng.uniform(20, 70)})
    return vals


def run_rows(rep, fit, thorough):
    rep.kernel('K-rows', functions=[F + ':jacobian', F + ':elliptical_gaussian'],
               bounds='1-3 components (thorough: 4); one symbolic pixel (x,y) (the numpy code is element-wise); all reals amp!=0, sx,sy>0, any theta; vary flags: n=1 all 64 subsets; n>=2 one component Boolean-symbolic (64 subsets) x the others in {all,stage1,stage2,none(,shape)}; thorough adds all 4096 subsets for n=2',
               stubs=['lmfit.Parameters -> record class', 'math/np trig -> units-aware trig algebra; exp -> atom E>0 keyed by exponent'],
               assumes=['oracle: chain-rule derivative of the term obtained by executing the real elliptical_gaussian; d sin(theta deg)/d theta = K cos, K = pi/180 symbolic'],
               outside=['Bmatrix eigen-decomposition (LAPACK)', 'floating point rounding'])
    plans = [(1, [0], ['all'])]
    pats = ['all', 'stage1', 'stage2', 'none'] + (['shape'] if thorough else [])
    if thorough:
        plans.append((2, [0, 1], ['all', 'all']))
    for s_ in range(2):
        for o1 in pats:
            o = [o1]
            o.insert(s_, 'all')
            plans.append((2, [s_], o))
    for n in ((3, 4) if thorough else (3,)):
        for s in range(n):
            for oth in itertools.product(pats, repeat=n - 1):
                o = list(oth)
                o.insert(s, 'all')
                plans.append((n, [s], o))
    rng = random.Random(rep.seed)
    results = core.explore_many([(h_rows(fit, n, symb, others), {}) for n, symb, others in plans])
    for (n, symb, others), (st, res) in zip(plans, results):
        rep.stats(st)
        for r in res:
            for ob in r['obligations']:
                rep.count(ob['result'], ob['name'])
                if ob['result'] == 'sat':
                    m = ob['model']
                    vals = default_vals(n, rng)
                    for k in list(vals):
                        if k in m and not isinstance(m[k], bool):
                            try:
                                fv = float(m[k])
                                if abs(fv) < 1e3 and (not k.endswith(('sx', 'sy')) or fv > 1e-3) and (not k.endswith('amp') or abs(fv) > 1e-3):
                                    vals[k] = fv
                            except Exception:
                                pass
                    free = (r['out'] or {}).get('free', [])
                    vary = [{p: ((i, p) in free) for p in NAMES} for i in range(n)]
                    bad, cls, detail = num_jac_check(vals, n, vary)
                    if not bad:
                        # model values may sit where the row vanishes (sx == sy, theta multiple of 90): generic point
                        vals = default_vals(n, rng)
                        bad, cls, detail = num_jac_check(vals, n, vary)
                    rep.finding('C04/K-rows/%s' % (cls or ob['name']), dict(kind='rows', n=n, vals=vals, vary=vary), detail or ob['name'], reproduced=bad)
        if len(rep.samples) < 6:
            rep.sample(dict(kernel='K-rows', n=n, symbolic_components=symb, others=others, paths=st.paths,
                            first=[(o['name'], o['result'], o.get('normaliser', '')[:50]) for o in res[0]['obligations']][:8]))
    rep.end_kernel()


# ------------------------------------------------------------------------------------------------
def h_lmfit_jac(fit, npix, nfree, with_errs, with_B):
    def h(c):
        R = real_np.empty((nfree, npix), dtype=object)
        for k in range(nfree):
            for m in range(npix):
                R[k, m] = real('R_%d_%d' % (k, m))
        fit.jacobian = lambda pars, x, y: [R[k].copy() for k in range(nfree)]
        errs = None
        if with_errs:
            errs = real_np.array([real('err_%d' % m) for m in range(npix)], dtype=object)
            for e in errs:
                c.assume(e.e > 0)
        B = None
        if with_B:
            B = real_np.empty((npix, npix), dtype=object)
            for a in range(npix):
                for b in range(npix):
                    B[a, b] = real('B_%d_%d' % (a, b))
        out = fit.lmfit_jacobian(None, None, None, errs=errs, B=B)
        tag = 'lmfit_jacobian[pix=%d,free=%d,errs=%d,B=%d]' % (npix, nfree, with_errs, with_B)
        c.oblige(tag + ':shape (pixels, free)', z3.BoolVal(tuple(real_np.shape(out)) == (npix, nfree)))
        claims = []
        for nn in range(npix):
            for k in range(nfree):
                want = None
                if with_B:
                    for m in range(npix):
                        t = (R[k, m] / errs[m] if with_errs else R[k, m]) * B[m, nn]
                        want = t if want is None else want + t
                else:
                    want = R[k, nn] / errs[nn] if with_errs else R[k, nn]
                claims.append(core.lift(out[nn, k]) == core.lift(want))
        c.oblige(tag + ':J[n,k] == sum_m d_k(m)/err_m * B[m,n]', z3.And(claims))
        return tag
    return h


def h_covar(fit, n, symbolic, others, useC, npix=3):
    def h(c):
        spec = varyspec(n, symbolic, others)
        pars, V = mkpars(n, spec)
        calls = {'inv': [], 'jac': []}

        def fake_jac(params, x, y, errs=None, B=None, emp=False):
            free = [(i, p) for i in range(n) for p in NAMES if bool(params['c%d_%s' % (i, p)].vary)]
            J = real_np.empty((npix, len(free)), dtype=object)
            for m in range(npix):
                for k in range(len(free)):
                    J[m, k] = real('J_%d_%d' % (m, k))
            calls['jac'].append((J, errs, B))
            return J

        def fake_inv(M):
            M = real_np.asarray(M, dtype=object)
            tagm = 'Ci' if (useC and not calls['inv']) else 'M'
            out = real_np.empty(M.shape, dtype=object)
            for a in range(M.shape[0]):
                for b in range(M.shape[1]):
                    out[a, b] = real('%s_%d_%d' % (tagm, a, b))
            calls['inv'].append((M, out))
            return out
        fit.lmfit_jacobian = fake_jac
        fit.inv = fake_inv
        data = real_np.zeros((npix, 1))
        Bm = real_np.empty((npix, npix), dtype=object)
        for a in range(npix):
            for b in range(npix):
                Bm[a, b] = real('B_%d_%d' % (a, b))
        Cm = None
        if useC:
            Cm = real_np.empty((npix, npix), dtype=object)
            for a in range(npix):
                for b in range(npix):
                    Cm[a, b] = real('C_%d_%d' % (a, b))
        out = fit.covar_errors(pars, data, errs=real('errs'), B=Bm, C=Cm)
        free = [(i, p) for i in range(n) for p in NAMES if bool(pars['c%d_%s' % (i, p)].vary)]
        tag = 'covar_errors[n=%d,C=%d]' % (n, useC)
        res = dict(free=free)
        if not free:
            return res
        J = calls['jac'][-1][0]
        M_in, M_out = calls['inv'][-1]
        nf = len(free)
        # Fisher matrix handed to inv
        cl = []
        for a in range(nf):
            for b in range(nf):
                if useC:
                    Ci = calls['inv'][0][1]
                    want = None
                    for m1 in range(npix):
                        for m2 in range(npix):
                            t = J[m1, a] * Ci[m1, m2] * J[m2, b]
                            want = t if want is None else want + t
                else:
                    want = None
                    for m in range(npix):
                        t = J[m, a] * J[m, b]
                        want = t if want is None else want + t
                cl.append(core.lift(M_in[a, b]) == core.lift(want))
        c.oblige(tag + ':matrix inverted == J^T %s J' % ('C^-1' if useC else ''), z3.And(cl), timeout_ms=5000)
        if useC:
            c.oblige(tag + ':C itself is inverted first', z3.And([core.lift(calls['inv'][0][0][a, b]) == Cm[a, b].e for a in range(npix) for b in range(npix)]))
            c.oblige(tag + ':jacobian for C case built without B', z3.BoolVal(calls['jac'][-1][2] is None))
        else:
            c.oblige(tag + ':jacobian whitened with B', z3.BoolVal(calls['jac'][-1][2] is Bm))
        for r, (i, p) in enumerate(free):
            se = pars['c%d_%s' % (i, p)].stderr
            ok = isinstance(se, SN)
            if ok:
                c.oblige(tag + ':stderr(c%d,%s)^2 == own diagonal entry [%d]' % (i, p, r), se.e * se.e == M_out[r, r].e, assume=[M_out[r, r].e >= 0])
            else:
                c.oblige(tag + ':stderr(c%d,%s) set' % (i, p), z3.BoolVal(False))
        return res
    return h


def stderr_check(n, vary, rng):
    """property-level oracle: real covar_errors vs explicit inverse Fisher matrix from real lmfit_jacobian"""
    import lmfit
    fit = loader.real('fitting')
    vals = default_vals(n, rng)
    for i in range(n):
        vals['c%d_xo' % i] += 2.0 * i
    pars = lmfit.Parameters()
    pars.add('components', value=n, vary=False)
    for i in range(n):
        for p in NAMES:
            pars.add('c%d_%s' % (i, p), value=float(vals['c%d_%s' % (i, p)]), vary=bool(vary[i][p]))
    data = real_np.zeros((9, 8))
    mask = real_np.where(real_np.isfinite(data))
    J = fit.lmfit_jacobian(pars, mask[0], mask[1], errs=1.0)
    want = real_np.sqrt(real_np.diag(real_np.linalg.inv(J.T.dot(J))))
    out = fit.covar_errors(pars, data, errs=1.0, B=None)
    free = [(i, p) for i in range(n) for p in NAMES if vary[i][p]]
    for r, (i, p) in enumerate(free):
        got = out['c%d_%s' % (i, p)].stderr
        if got is None or abs(got - want[r]) > 1e-6 * max(1e-12, abs(want[r])):
            return True, 'component-rank', 'component %d %s: stderr %r but own diagonal entry gives %r (free %s)' % (i, p, got, float(want[r]), free)
    # correlated noise: stderr from J^T C^-1 J, through both calling conventions (B with C, B alone), masked pixels included
    data = real_np.zeros((7, 6))
    data[0, 0] = data[3, 4] = real_np.nan
    mask = real_np.where(real_np.isfinite(data))
    Cm = fit.Cmatrix(mask[0], mask[1], 0.6, 0.5, 20.0)
    Bm = fit.Bmatrix(Cm)
    J = fit.lmfit_jacobian(pars, mask[0], mask[1], errs=1.0)
    want = real_np.sqrt(real_np.diag(real_np.linalg.inv(J.T.dot(real_np.linalg.inv(Cm)).dot(J))))
    for label, kw in (('B and C', dict(B=Bm, C=Cm)), ('B only', dict(B=Bm))):
        import copy
        out = fit.covar_errors(copy.deepcopy(pars), data, errs=1.0, **kw)
        for r, (i, p) in enumerate(free):
            got = out['c%d_%s' % (i, p)].stderr
            if got is None or not (abs(got - want[r]) <= 1e-4 * max(1e-12, abs(want[r]))):
                return True, 'fisher-matrix', 'covar_errors(%s): component %d %s stderr %r, but sqrt of the own diagonal entry of inv(J^T C^-1 J) is %r' % (label, i, p, got, float(want[r]))
    # the same source in units a million times smaller (a micro-Jy source in a Jy map) at the same signal to noise: the Fisher
    # matrix is badly scaled, not singular; the amplitude error scales with the flux and every other error is unchanged
    scale = 1e-6
    pars2 = copy.deepcopy(pars)
    for i in range(n):
        pars2['c%d_amp' % i].value = pars2['c%d_amp' % i].value * scale
    J2 = fit.lmfit_jacobian(pars2, mask[0], mask[1], errs=scale)
    F2 = J2.T.dot(real_np.linalg.inv(Cm)).dot(J2)
    dsc = 1.0 / real_np.sqrt(real_np.diag(F2))
    want2 = real_np.sqrt(real_np.diag(dsc[:, None] * real_np.linalg.inv(F2 * dsc[:, None] * dsc[None, :]) * dsc[None, :]))
    out2 = fit.covar_errors(copy.deepcopy(pars2), data, errs=scale, B=Bm, C=Cm)
    for r, (i, p) in enumerate(free):
        got = out2['c%d_%s' % (i, p)].stderr
        if got is None or not (abs(got - want2[r]) <= 1e-4 * max(1e-30, abs(want2[r]))):
            return True, 'fisher-matrix-scaling', 'covar_errors(B and C) on amplitudes of 1e-6: component %d %s stderr %r, the (diagonally rescaled) inverse Fisher matrix gives %r' % (i, p, got, float(want2[r]))
    return False, None, None


def run_matrix(rep, fit, thorough):
    rep.kernel('K-lmfit_jacobian', functions=[F + ':lmfit_jacobian'], bounds='2-3 pixels, 1-3 free parameters, symbolic row entries, symbolic errs (>0) and B, all four errs/B combinations',
               stubs=['jacobian -> symbolic matrix (its rows are decided in K-rows)'])
    saved = fit.jacobian
    for npix, nfree in ((2, 1), (2, 3), (3, 2)):
        for we, wb in itertools.product((False, True), repeat=2):
            st, res = explore(h_lmfit_jac(fit, npix, nfree, we, wb))
            rep.stats(st)
            for r in res:
                for ob in r['obligations']:
                    rep.count(ob['result'], ob['name'])
                    if ob['result'] == 'sat':
                        rep.finding('C04/K-lmfit_jacobian/%s' % ob['name'].split(':')[-1], dict(kind='lmfit_jacobian'), ob['name'], reproduced=lmfit_jac_check()[0])
            rep.sample(dict(kernel='K-lmfit_jacobian', case=res[0]['out'], obligations=[(o['name'], o['result']) for o in res[0]['obligations']]))
    fit.jacobian = saved
    rep.end_kernel()
    rep.kernel('K-stderr', functions=[F + ':covar_errors'], bounds='1-3 components; one component Boolean-symbolic x others in {all,stage1,stage2,none} (thorough: all 4096 subsets for n=2, C case for n=3); 3 pixels; with B and with C',
               stubs=['scipy inv -> arbitrary symbolic matrix M (recorded argument)', 'lmfit_jacobian -> symbolic J of shape (pixels, free)', 'np.sqrt -> radical r>=0, r^2 = M[r,r]'],
               assumes=['diagonal entries of the inverse are non-negative where a stderr is compared'])
    plans = [(1, [0], ['all'])]
    pats = ['all', 'stage1', 'stage2', 'none']
    if thorough:
        plans.append((2, [0, 1], ['all', 'all']))
    for s_ in range(2):
        for o1 in pats:
            o = [o1]
            o.insert(s_, 'all')
            plans.append((2, [s_], o))
    for s in range(3):
        for oth in itertools.product(pats, repeat=2):
            o = list(oth)
            o.insert(s, 'all')
            plans.append((3, [s], o))
    rng = random.Random(rep.seed)
    saved = (fit.lmfit_jacobian, fit.inv)
    done = False
    jobs = [(n, symb, others, useC) for n, symb, others in plans for useC in (False, True) if not (useC and n == 3 and not thorough)]
    results = core.explore_many([(h_covar(fit, n, symb, others, useC), dict(wall_s=(600 if thorough else 90))) for n, symb, others, useC in jobs])
    for (n, symb, others, useC), (st, res) in zip(jobs, results):
        rep.stats(st)
        for r in res:
            for ob in r['obligations']:
                rep.count(ob['result'], ob['name'])
                if ob['result'] == 'sat' and not done:
                    free = (r['out'] or {}).get('free', [])
                    vary = [{p: ((i, p) in free) for p in NAMES} for i in range(n)]
                    bad, cls, detail = stderr_check(n, vary, rng)
                    if rep.finding('C04/K-stderr/%s' % (cls or ob['name'].split(':')[-1]), dict(kind='stderr', n=n, vary=vary), detail or ob['name'], reproduced=bad) != 'not-reproduced':
                        done = True
        if len(rep.samples) < 10:
            rep.sample(dict(kernel='K-stderr', n=n, symbolic=symb, others=others, useC=useC, paths=st.paths))
    fit.lmfit_jacobian, fit.inv = saved
    rep.end_kernel()


def lmfit_jac_check():
    fit = loader.real('fitting')
    import lmfit
    rng = random.Random(3)
    vals = default_vals(1, rng)
    pars = lmfit.Parameters()
    pars.add('components', value=1, vary=False)
    for p in NAMES:
        pars.add('c0_' + p, value=vals['c0_' + p], vary=True)
    xs, ys = real_np.array([1., 2., 3.]), real_np.array([2., 2., 3.])
    base = real_np.array(fit.jacobian(pars, xs, ys))
    errs = real_np.array([1.0, 2.0, 0.5])
    B = real_np.array([[1., 2, 0], [0, 1, 3], [4, 0, 1]])
    got = fit.lmfit_jacobian(pars, xs, ys, errs=errs, B=B)
    want = ((base / errs).dot(B)).T
    bad = got.shape != want.shape or real_np.abs(got - want).max() > 1e-9
    return bad, 'whitening', 'lmfit_jacobian != ((J/errs).B)^T'


def run(rep):
    fit = sym_fitting()
    thorough = rep.tier == 'thorough'
    rep.assume('floats as reals', 'real fitting.py source loaded as a private package copy from REPO_ROOT on every run')
    run_rows(rep, fit, thorough)
    run_matrix(rep, fit, thorough)
    # executor validation: real jacobian vs numeric differences on random parameters (also the replay oracle)
    rng = random.Random(rep.seed + 1)
    for n in (1, 2):
        vary = [{p: True for p in NAMES} for _ in range(n)]
        bad, cls, detail = num_jac_check(default_vals(n, rng), n, vary)
        rep.validated_runs(1)
        if bad:
            rep.finding('C04/K-rows/%s' % cls, dict(kind='rows', n=n), detail, kernel='K-rows')
    bad, cls, detail = stderr_check(2, [{p: True for p in NAMES} for _ in range(2)], rng)
    rep.validated_runs(1)
    if bad:
        rep.finding('C04/K-stderr/%s' % cls, dict(kind='stderr', n=2, vary=[{p: True for p in NAMES}] * 2), detail, kernel='K-stderr')
    rep.not_decided += ['Bmatrix (eigen-decomposition) is the inverse square root of the covariance', 'hessian (not handed to the optimiser)']


def replay(w):
    wit = w['witness']
    rng = random.Random(7)
    if wit.get('kind') == 'rows':
        n = int(wit['n'])
        vals = wit.get('vals') or default_vals(n, rng)
        vary = wit.get('vary') or [{p: True for p in NAMES} for _ in range(n)]
        bad, cls, detail = num_jac_check({k: float(v) for k, v in vals.items()}, n, vary)
    elif wit.get('kind') == 'stderr':
        bad, cls, detail = stderr_check(int(wit['n']), wit['vary'], rng)
    else:
        bad, cls, detail = lmfit_jac_check()
    return bad, '%s: %s' % (cls, detail)


if __name__ == '__main__':
    main(sys.modules[__name__])
