"""C07 BANE always terminates, is schedule-independent and fails cleanly.
K-width   : FP-exact slice of the stripe-height arithmetic of filter_mc_sharemem
K-layout  : backward slice of the stripe layout + Barrier/Pool construction on symbolic-length lists (LIA)
K-protocol: bounded model checking (z3) of the worker protocol; skeleton extracted from the AST of sigma_filter /
            _sf2 on every run, Barrier/Pool semantics hand-modelled after CPython; all schedules, one optional fault
K-cleanup : crash point as a solver variable over the try/finally that owns the shared-memory segments
Models are replayed on the real filter_image through the env-guarded delay/fault hook with a watchdog."""
import ast
import glob
import json
import os
import shutil
import subprocess
import sys
import tempfile
import time

import numpy as real_np
import z3

from symx import core, fp, loader, slicer
from symx.core import SN, SB, explore
from symx.report import main, VERIF

PID = 'C07'
F = 'AegeanTools/BANE.py'


# ------------------------------------------------------------------------------------------------
# symbolic-length lists for the layout slice
# ------------------------------------------------------------------------------------------------
class SymRange:
    def __init__(self, start, stop, step):
        self.start, self.stop, self.step = [core.lift(v) for v in (start, stop, step)]

    def length(self):
        s, e, st = self.start, self.stop, self.step
        return z3.If(e > s, (e - s + st - 1) / st, z3.IntVal(0))

    def at(self, k):
        return self.start + k * self.step


class SymList:
    def __init__(self, base=None, tail=()):
        self.base = base
        self.tail = list(tail)

    def append(self, x):
        self.tail.append(core.lift(x))

    def length(self):
        b = self.base.length() if self.base is not None else z3.IntVal(0)
        return b + len(self.tail)

    def at(self, k):
        """element at symbolic index k (0 <= k < length assumed by the caller)"""
        r = None
        bl = self.base.length() if self.base is not None else z3.IntVal(0)
        for i in reversed(range(len(self.tail))):
            r = self.tail[i] if r is None else z3.If(k == bl + i, self.tail[i], r)
        if self.base is not None:
            r = self.base.at(k) if r is None else z3.If(k < bl, self.base.at(k), r)
        return r


def conc_list(v):
    return SymList(None, [core.lift(x) for x in v])


def sym_range(*a):
    if any(isinstance(x, SN) for x in a):
        a = list(a)
        if len(a) == 1:
            a = [0, a[0], 1]
        if len(a) == 2:
            a = [a[0], a[1], 1]
        return SymRange(*a)
    return range(*a)


def sym_list(x=()):
    if isinstance(x, SymRange):
        return SymList(x)
    return list(x)


def sym_len(x):
    if isinstance(x, SymList):
        return SN(x.length())
    return len(x)


class Rec:
    def __init__(self):
        self.barrier = None
        self.pool = None

    def Barrier(self, *a, **k):
        self.barrier = (a, k)
        return 'barrier'

    def Pool(self, *a, **k):
        self.pool = (a, k)
        return 'pool'


# ------------------------------------------------------------------------------------------------
# skeleton extraction
# ------------------------------------------------------------------------------------------------
def skeleton():
    """ordered synchronisation-relevant events of sigma_filter + facts about _sf2 / filter_mc_sharemem"""
    fn = {f: slicer.get_function(F, f) for f in ('sigma_filter', '_sf2', 'filter_mc_sharemem')}
    events = []

    def walk(stmts, guard):
        for s in stmts:
            if isinstance(s, ast.If):
                g = ast.unparse(s.test)
                walk(s.body, guard + [g])
                walk(s.orelse, guard + ['not ' + g])
                continue
            if isinstance(s, (ast.For, ast.While, ast.With)):
                walk(s.body, guard)
                continue
            if isinstance(s, ast.FunctionDef):
                continue
            for node in ast.walk(s):
                if isinstance(node, ast.Call) and isinstance(node.func, ast.Attribute) and isinstance(node.func.value, ast.Name) and node.func.value.id == 'barrier':
                    events.append((node.func.attr, tuple(guard)))
            if isinstance(s, (ast.Assign, ast.AugAssign)):
                tg = s.targets[0] if isinstance(s, ast.Assign) else s.target
                t = ast.unparse(tg)
                v = ast.unparse(s.value)
                if 'ibkg[' in v and not t.startswith('ibkg'):
                    events.append(('read ibkg', tuple(guard), ast.unparse(s)))
                if (t.startswith('ibkg[') or t.startswith('irms[')) and 'np.ndarray' not in v:
                    events.append(('write ' + t.split('[')[0], tuple(guard), ast.unparse(s)))
    walk(fn['sigma_filter'].body, [])
    kinds = [e[0] for e in events]
    waits = [i for i, k in enumerate(kinds) if k == 'wait']
    sk = dict(events=[(e[0], list(e[1])) for e in events], n_waits=len(waits))
    sk['reset_after_wait'] = [any(k == 'reset' for k in kinds[w + 1:(waits[n + 1] if n + 1 < len(waits) else len(kinds))]) for n, w in enumerate(waits)]
    sk['second_wait_guarded_by_domask'] = len(waits) > 1 and any('domask' in g for g in events[waits[1]][1])
    # which reads of ibkg happen between which waits; which writes
    def phase(i):
        return sum(1 for w in waits if w < i)
    sk['reads'] = [dict(phase=phase(i), src=e[2]) for i, e in enumerate(events) if e[0] == 'read ibkg']
    sk['writes'] = [dict(phase=phase(i), what=e[0], src=e[2], masked='domask' in ' '.join(e[1])) for i, e in enumerate(events) if e[0].startswith('write')]
    # does a read touch rows outside the stripe's own [ymin:ymax]?
    sk['read_foreign_rows'] = any('ymin:ymax' not in r['src'].split('ibkg[')[1].split(']')[0] for r in sk['reads'])
    sf2 = fn['_sf2']
    sk['abort_on_failure'] = any(isinstance(c, ast.Call) and getattr(c.func, 'attr', '') == 'abort' for h in ast.walk(sf2) if isinstance(h, ast.ExceptHandler) for c in ast.walk(h))
    sk['sf2_reraises'] = any(isinstance(c, ast.Raise) for h in ast.walk(sf2) if isinstance(h, ast.ExceptHandler) for c in ast.walk(h))
    mc = fn['filter_mc_sharemem']
    sk['get_timeout'] = [ast.unparse(k.value) for c in ast.walk(mc) if isinstance(c, ast.Call) and getattr(c.func, 'attr', '') == 'get' for k in c.keywords if k.arg == 'timeout']
    sk['maxtasksperchild'] = [ast.unparse(k.value) for c in ast.walk(mc) if isinstance(c, ast.Call) and getattr(c.func, 'attr', '') == 'Pool' for k in c.keywords if k.arg == 'maxtasksperchild']
    return sk


# ------------------------------------------------------------------------------------------------
# K-width (FP exact)
# ------------------------------------------------------------------------------------------------
def k_width(rep):
    rep.kernel('K-width', functions=[F + ':filter_mc_sharemem'], bounds='all integers img_y >= 1, nslice >= 2, step >= 1 (floats as reals: bit-precise queries on this expression return unknown in z3 within 30 s per nslice; '
               'the pool-size obligation of K-layout does not depend on the rounding)',
               assumes=['slice: the statement assigning width_y (with its enclosing if nslice > 1)'])
    try:
        fac, text = slicer.slice_function(F, 'filter_mc_sharemem', targets=['width_y'], params=['img_y', 'nslice', 'step_size'], returns=['width_y'], flatten_loops=True, search=True)
    except slicer.AnchorMissing as e:
        rep.inconc('anchor-missing %s' % e)
        rep.end_kernel()
        return
    rep.sample(dict(kernel='K-width', slice=text))
    f = fac(dict(core.BUILTINS))

    def h(c):
        H, ns, st = core.integer('img_y'), core.integer('nslice'), core.integer('step')
        c.assume(H.e >= 1)
        c.assume(ns.e >= 2)
        c.assume(st.e >= 1)
        (w,) = f(H, ns, (st, st))
        c.oblige('width:stripe height is an integer >= 1', z3.And(core.lift(w) >= 1, z3.BoolVal(isinstance(w, SN) and w.is_int)), timeout_ms=60000)
        c.oblige('width:stripe height >= grid step', core.lift(w) >= st.e, timeout_ms=60000)
        return dict()
    st_, res = explore(h)
    rep.stats(st_)
    for r in res:
        for ob in r['obligations']:
            rep.count(ob['result'], ob['name'])
            if ob['result'] == 'sat':
                m = ob['model']
                wit = dict(kind='layout', H=int(m.get('img_y', 16)), nslice=int(m.get('nslice', 2)), cores=int(m.get('nslice', 2)), step=int(m.get('step', 4)))
                bad, cls, detail = replay_run(wit)
                rep.finding('C07/K-width/%s' % (cls or ob['name'].split(':')[-1]), wit, detail or ob['name'], reproduced=bad)
    rep.end_kernel()


# ------------------------------------------------------------------------------------------------
# K-layout / pool
# ------------------------------------------------------------------------------------------------
BANE_GLOBALS = {}


def k_layout(rep):
    if not BANE_GLOBALS:
        BANE_GLOBALS.update(vars(loader.load_private(['BANE'])['BANE']))
    rep.kernel('K-layout', functions=[F + ':filter_mc_sharemem'],
               bounds='all integers img_y >= 1, cores >= 1, nslice >= 1 or None; stripe height = ANY integer w >= 1 (K-width); lists of symbolic length (linear integer arithmetic), arbitrary element index',
               stubs=['range/list/len -> symbolic-length lists', 'multiprocessing context -> recorder of Barrier(parties=) and Pool(processes=)', 'int(...) of the stripe height expression -> fresh integer w >= 1'],
               assumes=['a worker blocked in barrier.wait() keeps its pool slot, so all parties must be able to run at once: processes >= parties'])
    try:
        fac, text = slicer.slice_function(F, 'filter_mc_sharemem', targets=['barrier', 'pool', 'ymins', 'ymaxs'], params=['cores', 'nslice', 'shape', 'step_size'],
                                          calls=['ymaxs.append'], returns=['ymins', 'ymaxs'], closure=True, closure_exclude=(), optional_calls=True)
    except slicer.AnchorMissing as e:
        rep.inconc('anchor-missing %s' % e)
        rep.end_kernel()
        return
    rep.sample(dict(kernel='K-layout', slice=text))

    def h(c, nslice_none):
        rec = Rec()
        img_y, img_x = core.integer('img_y'), core.integer('img_x')
        cores = core.integer('cores')
        c.assume(img_y.e >= 1)
        c.assume(img_x.e >= 1)
        c.assume(cores.e >= 1)
        if nslice_none:
            nslice = None
        else:
            nslice = core.integer('nslice')
            c.assume(nslice.e >= 1)
        w = core.integer('w')
        c.assume(w.e >= 1)

        class MP:
            @staticmethod
            def cpu_count():
                return cores

            @staticmethod
            def get_context(m):
                return rec

        class Sys:
            platform = 'linux'
        glob_ = dict(BANE_GLOBALS)
        glob_.update(core.BUILTINS)
        glob_.update(range=sym_range, list=sym_list, len=sym_len, int=lambda x: w, multiprocessing=MP, sys=Sys, init=None, memory_id='m',
                     logging=loader.NullLog())
        f = fac(glob_)
        ymins, ymaxs = f(cores, nslice, (img_y, img_x), (core.integer('step0'), core.integer('step1')))
        if isinstance(ymins, list):
            ymins = conc_list(ymins)
        if isinstance(ymaxs, list):
            ymaxs = conc_list(ymaxs)
        L1, L2 = ymins.length(), ymaxs.length()
        k = z3.Int('k')
        tag = 'layout[nslice=%s]' % ('None' if nslice_none else 'sym')
        c.oblige(tag + ':as many stripe ends as stripe starts', L1 == L2)
        c.oblige(tag + ':at least one stripe', L1 >= 1)
        c.oblige(tag + ':first stripe starts at row 0', ymins.at(z3.IntVal(0)) == 0)
        c.oblige(tag + ':stripes abut ymaxs[k] == ymins[k+1]', z3.Implies(z3.And(k >= 0, k < L1 - 1), ymaxs.at(k) == ymins.at(k + 1)), assume=[L1 == L2])
        c.oblige(tag + ':last stripe ends at the last row', ymaxs.at(L2 - 1) == img_y.e, assume=[L2 >= 1])
        c.oblige(tag + ':every stripe is non-empty', z3.Implies(z3.And(k >= 0, k < L1), ymins.at(k) < ymaxs.at(k)), assume=[L1 == L2])
        ok = rec.barrier is not None and rec.pool is not None and 'parties' in rec.barrier[1] and 'processes' in rec.pool[1]
        c.oblige(tag + ':Barrier(parties=) and Pool(processes=) constructed', z3.BoolVal(bool(ok)))
        if ok:
            parties = core.lift(rec.barrier[1]['parties'])
            procs = core.lift(rec.pool[1]['processes'])
            c.oblige(tag + ':parties == number of stripes', parties == L2)
            rec_ = c.oblige(tag + ':pool processes >= barrier parties (all stripes can run at once)', procs >= parties)
        return dict(nslice_none=nslice_none)
    for nn in (True, False):
        st, res = explore(lambda c, nn=nn: h(c, nn))
        rep.stats(st)
        for r in res:
            for ob in r['obligations']:
                rep.count(ob['result'], ob['name'])
                if ob['result'] == 'sat':
                    m = ob['model']
                    H = int(m.get('img_y', 101))
                    w = max(1, int(m.get('w', 50)))
                    cores = max(1, int(m.get('cores', 2)))
                    ns = int(m.get('nslice', cores)) if not nn else cores
                    # realise the model through the public API: choose (rows, nslice, cores) giving stripes > cores
                    wit = dict(kind='layout', H=max(H, 8), nslice=max(ns, 1), cores=cores, step=4, model={k_: str(v) for k_, v in m.items()})
                    if 'processes' in ob['name']:
                        wit = search_layout_witness() or wit
                    bad, cls, detail = replay_run(wit)
                    rep.finding('C07/K-layout/%s' % (cls or ob['name'].split(':')[-1]), wit, detail or ob['name'], reproduced=bad)
            rep.sample(dict(kernel='K-layout', nslice_none=nn, path=r['trace'], obligations=[(o['name'].split(':')[-1], o['result']) for o in r['obligations']]))
    rep.end_kernel()


def search_layout_witness():
    """smallest public-API setting whose realised stripe count exceeds the pool size under the CURRENT source
    (uses the real layout statements through the slice in concrete mode)"""
    try:
        fac, _ = slicer.slice_function(F, 'filter_mc_sharemem', targets=['barrier', 'pool', 'ymins', 'ymaxs'], params=['cores', 'nslice', 'shape', 'step_size'],
                                       calls=['ymaxs.append'], returns=['ymins', 'ymaxs'], closure=True, closure_exclude=(), optional_calls=True)
    except slicer.AnchorMissing:
        return None
    cands = [(H, cores, ns, st) for H in (101, 64, 33, 16) for cores in (2, 3) for ns in (cores, cores + 1, 2 * cores) for st in (4,)]
    cands += [(H, cores, ns, st) for st in (1, 2, 3, 4, 8) for cores in (1, 2, 3) for ns in range(1, 13) for H in range(8, 131)]
    for H, cores, ns, st in cands:
            if True:
                rec = Rec()

                class MP:
                    cpu_count = staticmethod(lambda: cores)
                    get_context = staticmethod(lambda m: rec)

                class Sys:
                    platform = 'linux'
                g2 = dict(BANE_GLOBALS)
                g2.update(multiprocessing=MP, sys=Sys, init=None, memory_id='m', logging=loader.NullLog())
                f = fac(g2)
                try:
                    ymins, ymaxs = f(cores, ns, (H, 16), (st, st))
                except Exception:
                    continue
                if rec.pool and rec.barrier and rec.pool[1].get('processes', 0) < rec.barrier[1].get('parties', 0):
                    return dict(kind='layout', H=H, nslice=ns, cores=cores, step=st)
    return None


# ------------------------------------------------------------------------------------------------
# K-protocol: BMC
# ------------------------------------------------------------------------------------------------
Q, P1, ATB1, INB1, AFB1, P2, ATB2, INB2, AFB2, P3, DONE, ERR = range(12)
PCN = ['Q', 'P1', 'ATB1', 'INB1', 'AFB1', 'P2', 'ATB2', 'INB2', 'AFB2', 'P3', 'DONE', 'ERR']


FILL, DRAIN, RESET, BROKEN = 0, 1, 2, 3       # Barrier._state 0, 1, -1, -2
BW = 5


def bmc(sk, n, c, domask, fault, goal, timeout_ms=120000):
    """n stripes, pool of c processes. Returns (result, trace, seconds, horizon) for the reachability goal.
    Finite-domain encoding (5-bit vectors) of the transition system, unrolled to the exact maximum trace length."""
    P = n
    has_reset = [bool(x) for x in sk['reset_after_wait']] + [False, False]
    abort = sk['abort_on_failure']
    two = domask and sk['n_waits'] >= 2
    T = 11 * n + 2
    V = lambda nm: z3.BitVec(nm, BW)
    K = lambda v: z3.BitVecVal(v, BW)
    S = [dict(pc=[V('pc_%d_%d' % (t, p)) for p in range(n)], idx=[V('idx_%d_%d' % (t, p)) for p in range(n)], cnt=V('cnt_%d' % t), st=V('st_%d' % t)) for t in range(T + 1)]
    who = [V('who_%d' % t) for t in range(T)]
    NONE = K(31)
    fpv, flv = V('fp'), V('fl')
    sol = z3.SolverFor('QF_BV')
    sol.set('timeout', timeout_ms)
    sol.add([S[0]['pc'][p] == Q for p in range(n)] + [S[0]['idx'][p] == NONE for p in range(n)] + [S[0]['cnt'] == 0, S[0]['st'] == FILL])
    if fault:
        sol.add(z3.ULT(fpv, n), z3.Or(flv == P1, flv == P2, flv == P3) if two else z3.Or(flv == P1, flv == P2))
    else:
        sol.add(fpv == NONE, flv == NONE)

    def fin(s, p):
        return z3.Or(s['pc'][p] == DONE, s['pc'][p] == ERR)

    def running(s):
        return z3.Sum([z3.If(z3.And(s['pc'][p] != Q, z3.Not(fin(s, p))), K(1), K(0)) for p in range(n)])

    def enabled(s, p):
        pc = s['pc'][p]
        start = z3.And(pc == Q, z3.ULT(running(s), c), *[s['pc'][q] != Q for q in range(p)])
        arrive = z3.And(z3.Or(pc == ATB1, pc == ATB2), z3.Or(s['st'] == FILL, s['st'] == BROKEN))
        wake = z3.And(z3.Or(pc == INB1, pc == INB2), s['st'] != FILL)
        other = z3.Or(pc == P1, pc == AFB1, pc == P2, pc == AFB2, pc == P3)
        return z3.Or(start, arrive, wake, other)

    def err_st(st):
        return K(BROKEN) if abort else st

    def step(s, s2, p):
        pc, st, cnt, idx = s['pc'][p], s['st'], s['cnt'], s['idx'][p]
        cases = []
        isf = z3.And(fpv == p, flv == pc)
        cases.append((pc == Q, K(P1), idx, cnt, st))
        for loc, nxt in ((P1, ATB1), (P2, (ATB2 if two else DONE)), (P3, DONE)):
            cases.append((z3.And(pc == loc, isf), K(ERR), idx, cnt, err_st(st)))
            cases.append((z3.And(pc == loc, z3.Not(isf)), K(nxt), idx, cnt, st))
        for at, inb, af in ((ATB1, INB1, AFB1), (ATB2, INB2, AFB2)):
            cases.append((z3.And(pc == at, st == BROKEN), K(ERR), idx, cnt, err_st(st)))
            cases.append((z3.And(pc == at, st == FILL, cnt + 1 == P), K(af), cnt, cnt, z3.If(cnt != 0, K(DRAIN), K(FILL))))
            cases.append((z3.And(pc == at, st == FILL, cnt + 1 != P), K(inb), cnt, cnt + 1, st))
            cases.append((z3.And(pc == inb, st == DRAIN), K(af), idx, cnt - 1, z3.If(cnt - 1 == 0, K(FILL), K(DRAIN))))
            nst = z3.If(z3.And(cnt - 1 == 0, st == RESET), K(FILL), st)
            cases.append((z3.And(pc == inb, z3.Or(st == RESET, st == BROKEN)), K(ERR), idx, cnt - 1, (K(BROKEN) if abort else nst)))
        for k, (af, nxt) in enumerate(((AFB1, P2), (AFB2, P3))):
            if has_reset[k]:
                newst = z3.If(cnt != 0, z3.If(z3.Or(st == FILL, st == BROKEN), K(RESET), st), K(FILL))
                cases.append((z3.And(pc == af, idx == 0), K(nxt), idx, cnt, newst))
                cases.append((z3.And(pc == af, idx != 0), K(nxt), idx, cnt, st))
            else:
                cases.append((pc == af, K(nxt), idx, cnt, st))
        out = [z3.Implies(cond, z3.And(s2['pc'][p] == npc, s2['idx'][p] == nidx, s2['cnt'] == ncnt, s2['st'] == nst)) for cond, npc, nidx, ncnt, nst in cases]
        frame = [z3.And(s2['pc'][q] == s['pc'][q], s2['idx'][q] == s['idx'][q]) for q in range(n) if q != p]
        return z3.And(out + frame)

    def same(s, s2):
        return z3.And([s2['pc'][q] == s['pc'][q] for q in range(n)] + [s2['idx'][q] == s['idx'][q] for q in range(n)] + [s2['cnt'] == s['cnt'], s2['st'] == s['st']])
    for t in range(T):
        s, s2 = S[t], S[t + 1]
        anyen = z3.Or([enabled(s, p) for p in range(n)])
        sol.add(z3.If(anyen, z3.And(z3.ULT(who[t], n), z3.And([z3.Implies(who[t] == p, z3.And(enabled(s, p), step(s, s2, p))) for p in range(n)])),
                      z3.And(who[t] == NONE, same(s, s2))))
    final = S[T]
    le = lambda a, v: z3.ULE(a, v)
    if goal == 'deadlock':
        g = z3.Not(z3.And([fin(final, p) for p in range(n)]))
    elif goal == 'broken':
        g = z3.Or([final['pc'][p] == ERR for p in range(n)])
    elif goal == 'silent-fault':          # a fault happened but no worker reports an error
        g = z3.And(z3.Or([z3.And(S[t]['pc'][p] == flv, fpv == p, S[t + 1]['pc'][p] == ERR) for t in range(T) for p in range(n)]), z3.And([final['pc'][p] != ERR for p in range(n)]))
    elif goal == 'read-before-write':     # some worker is past the first barrier while another has not finished writing its bkg rows
        g = z3.Or([z3.And(z3.UGE(S[t]['pc'][p], P2), le(S[t]['pc'][p], DONE), le(S[t]['pc'][q], P1)) for t in range(T + 1) for p in range(n) for q in range(n) if p != q])
    elif goal == 'mask-before-read':      # some worker masks ibkg while another may still read it (has not finished P2)
        g = z3.Or([z3.And(S[t]['pc'][p] == P3, le(S[t]['pc'][q], P2)) for t in range(T + 1) for p in range(n) for q in range(n) if p != q])
    else:
        raise ValueError(goal)
    sol.add(g)
    t0 = time.time()
    r = str(sol.check())
    dt = time.time() - t0
    trace = None
    if r == 'sat':
        m = sol.model()
        ev = lambda x: m.eval(x, model_completion=True).as_long()
        sched = [ev(x) for x in who]
        trace = dict(schedule=[x for x in sched if x < n], final=[PCN[ev(final['pc'][p])] for p in range(n)],
                     barrier_state=ev(final['st']), fault=(ev(fpv), ev(flv)),
                     steps=[[PCN[min(ev(S[t]['pc'][p]), 11)] for p in range(n)] for t in range(T + 1)])
    return r, trace, dt, T


def k_protocol(rep, sk):
    thorough = rep.tier == 'thorough'
    rep.kernel('K-protocol', functions=[F + ':sigma_filter', F + ':_sf2', F + ':filter_mc_sharemem'],
               bounds='stripes n <= 3 (thorough 4), pool size c <= n, domask on/off, ALL interleavings (schedule = solver variables), zero or one injected exception in any stripe at any phase; unrolled to the exact maximum trace length 11n+2',
               stubs=['threading/multiprocessing.Barrier -> transition model (_enter/_release/_wait/_exit/reset/abort; filling, draining, resetting, broken)',
                      'Pool(processes=c, maxtasksperchild=1).map_async(chunksize=1).get() -> at most c running tasks, FIFO start, returns when all tasks are done'],
               assumes=['the protocol skeleton (waits, resets, abort in the except handler, ibkg reads/writes) is extracted from the AST on every run', 'worker death by signal is outside'],
               outside=['more than 4 stripes (protocol symmetric in stripes)', 'numeric effect of the stripe count on the maps'])
    rep.sample(dict(kernel='K-protocol', skeleton=sk))
    nmax = 4 if thorough else 3
    jobs = []
    for n in range(1, nmax + 1):
        for c in sorted(set([n, max(1, n - 1)])):
            for dm in (True, False):
                jobs.append((n, c, dm))
    to = 120000 if not thorough else 600000
    reported = set()
    for n, c, dm in jobs:
        pool_ok = c >= n
        goals = [('deadlock', False), ('broken', False), ('read-before-write', False)]
        if dm:
            goals.append(('mask-before-read', False))
        goals += [('deadlock', True), ('silent-fault', True)]
        for goal, fault in goals:
            name = 'protocol[n=%d,pool=%d,mask=%d%s]:no %s' % (n, c, dm, ',1 fault' if fault else '', goal)
            if not pool_ok:
                # pool smaller than stripes: only meaningful if the real layout can produce it; decided in K-layout
                continue
            r, trace, dt, T = bmc(sk, n, c, dm, fault, goal, to)
            rep.count('unsat' if r == 'unsat' else ('sat' if r == 'sat' else 'unknown'), name, queries=1, solver_s=dt)
            rep.cur['paths'] += 1
            rep.paths += 1
            if r == 'sat':
                key = (goal, fault)
                if key in reported:
                    continue
                wit = dict(kind='schedule', n=n, pool=c, domask=dm, goal=goal, fault=fault, trace=trace)
                bad, cls, detail = replay_schedule(wit, sk)
                if rep.finding('C07/K-protocol/%s' % (cls or goal), wit, detail or name, reproduced=bad) != 'not-reproduced':
                    reported.add(key)
            if len(rep.samples) < 10:
                rep.sample(dict(kernel='K-protocol', query=name, result=r, horizon=T, seconds=round(dt, 2)))
    rep.end_kernel()


# ------------------------------------------------------------------------------------------------
# K-cleanup: crash point variable over the try/finally owning the shared memory
# ------------------------------------------------------------------------------------------------
def k_cleanup(rep):
    rep.kernel('K-cleanup', functions=[F + ':filter_mc_sharemem'], bounds='a fault at any statement of the try body that creates/uses the shared-memory segments (crash point = solver variable)',
               assumes=['statements of the try body execute in order; a fault at statement k skips the rest of the body and runs the finally clause',
                        'a NameError raised in the finally clause for a segment that was never created ends the clause'])
    mc = slicer.get_function(F, 'filter_mc_sharemem')
    tries = [n for n in ast.walk(mc) if isinstance(n, ast.Try) and n.finalbody]
    creates_outside = []
    best = None
    for t in tries:
        cr = [(i, ast.unparse(s.targets[0])) for i, s in enumerate(t.body) if isinstance(s, ast.Assign) and 'SharedMemory' in ast.unparse(s.value) and 'create=True' in ast.unparse(s.value)]
        if cr:
            best = (t, cr)
    allcreates = [ast.unparse(s.targets[0]) for s in ast.walk(mc) if isinstance(s, ast.Assign) and 'SharedMemory' in ast.unparse(s.value) and 'create=True' in ast.unparse(s.value)]
    if best is None:
        rep.count('sat' if allcreates else 'unknown', 'cleanup:segments created inside a try with a finally clause')
        if allcreates:
            rep.finding('C07/K-cleanup/no-finally', dict(kind='fault', point='start', stripe=0), 'shared memory is created outside any try/finally', reproduced=replay_fault(dict(point='start'))[0])
        rep.end_kernel()
        return
    t, cr = best
    nbody = len(t.body)
    fin = [ast.unparse(s) for s in t.finalbody]
    k = z3.Int('crash_at')          # statement index at which the fault happens (nbody = no fault)
    obligations = []
    for idx, name in cr:
        created = k > idx           # the create statement completed
        # the finally clause runs statements in order; it stops at the first statement touching a never-created name
        unlinked = z3.BoolVal(False)
        alive = z3.BoolVal(True)
        for st in fin:
            toks = [nm for _, nm in cr if st.startswith(nm + '.')]
            if toks:
                nm = toks[0]
                i2 = [i for i, n2 in cr if n2 == nm][0]
                alive = z3.And(alive, k > i2)
                if nm == name and st.replace(' ', '').endswith('.unlink()'):
                    unlinked = z3.Or(unlinked, alive)
        obligations.append(('cleanup:%s unlinked whenever it was created, for every crash point' % name, z3.Implies(created, unlinked)))
    s = z3.Solver()
    for name, claim in obligations:
        s.push()
        s.add(k >= 0, k <= nbody)
        s.add(z3.Not(claim))
        r = str(s.check())
        rep.count(r if r in ('sat', 'unsat') else 'unknown', name, queries=1)
        if r == 'sat':
            at = s.model()[k].as_long()
            bad, cls, detail = replay_fault(dict(point='start', stripe=0))
            rep.finding('C07/K-cleanup/%s' % (cls or 'segment-leak'), dict(kind='fault', point='start', stripe=0, crash_at=at), detail or name, reproduced=bad)
        s.pop()
    rep.sample(dict(kernel='K-cleanup', try_body=[ast.unparse(x)[:70] for x in t.body], finally_=fin, creates=cr))
    rep.end_kernel()


# ------------------------------------------------------------------------------------------------
# replays on the real BANE (subprocess + watchdog + /dev/shm listing)
# ------------------------------------------------------------------------------------------------
RUNNER = r'''
import sys, os, json, numpy as np
sys.path.insert(0, os.environ['REPO_ROOT'])
from astropy.io import fits
from AegeanTools import BANE
cfg = json.load(open(sys.argv[1]))
H, W = cfg['H'], cfg.get('W', 24)
rng = np.random.default_rng(1)
img = rng.normal(0, 1, (H, W)).astype(np.float32)
if cfg.get('nan'):
    img[0, 0] = np.nan
if cfg.get('nanpatch'):
    img[2:5, 3:8] = np.nan          # blanks in the first stripe only
fn = os.path.join(os.path.dirname(sys.argv[1]), 'img.fits')
hdr = fits.Header(); hdr['BMAJ'] = 1.0; hdr['BMIN'] = 1.0; hdr['CDELT1'] = -0.25; hdr['CDELT2'] = 0.25
fits.PrimaryHDU(img, header=hdr).writeto(fn, overwrite=True)
try:
    out = BANE.filter_image(fn, None, step_size=(cfg['step'], cfg['step']), box_size=(cfg['step'] * 3, cfg['step'] * 3), cores=cfg['cores'], nslice=cfg['nslice'], mask=cfg.get('mask', True))
    ok = out is not None and np.all(np.isfinite(out[0][1:, 1:]))
    # every output pixel was written: unit Gaussian noise cannot give a noise map below 0.1 anywhere (unwritten rows stay 0)
    if ok and not cfg.get('nanpatch') and not np.all(out[1][1:, 1:] > 0.1):
        bad_rows = sorted(set(int(r) + 1 for r in np.where(~(out[1][1:, 1:] > 0.1))[0]))
        res = 'RESULT returned unwritten-rows=%s' % bad_rows[:6]
    else:
        res = 'RESULT returned finite=%s' % ok
except BaseException as e:
    res = 'RESULT raised %s: %s' % (type(e).__name__, str(e).replace('\n', ' ')[-200:])
# segments of THIS run still present while the calling process is alive (the property: released when the call returns or raises)
try:
    ids = set(open(os.environ.get('AEGEAN_VERIF_IDFILE', '')).read().split())
except Exception:
    ids = set()
left = sorted(f for f in os.listdir('/dev/shm') if f.startswith(('ibkg_', 'irms_')) and f.split('_', 1)[1] in ids)
res += ' STILL-THERE=%s' % ','.join(left)
open(os.path.join(os.path.dirname(sys.argv[1]), 'result.txt'), 'w').write(res)
print(res)
'''


def shm_segments():
    return set(glob.glob('/dev/shm/ibkg_*') + glob.glob('/dev/shm/irms_*'))


def run_bane(cfg, schedule=None, timeout=40):
    d = tempfile.mkdtemp(prefix='c07_', dir='/var/tmp')
    before = shm_segments()
    try:
        json.dump(cfg, open(os.path.join(d, 'cfg.json'), 'w'))
        open(os.path.join(d, 'run.py'), 'w').write(RUNNER)
        env = dict(os.environ)
        env['REPO_ROOT'] = loader.REPO
        env['AEGEAN_VERIF'] = '1'
        if schedule:
            json.dump(schedule, open(os.path.join(d, 'sched.json'), 'w'))
            env['AEGEAN_VERIF_SCHEDULE'] = os.path.join(d, 'sched.json')
        else:
            env.pop('AEGEAN_VERIF_SCHEDULE', None)
        env['AEGEAN_VERIF_IDFILE'] = os.path.join(d, 'ids.txt')
        log = open(os.path.join(d, 'out.txt'), 'w')
        p = subprocess.Popen(['/venv/bin/python', os.path.join(d, 'run.py'), os.path.join(d, 'cfg.json')], stdout=log, stderr=subprocess.STDOUT, env=env, start_new_session=True)
        t0 = time.time()
        rf = os.path.join(d, 'result.txt')
        while time.time() - t0 < timeout and not os.path.exists(rf) and p.poll() is None:
            time.sleep(0.1)
        time.sleep(0.3)
        hung = not os.path.exists(rf) and p.poll() is None
        t1 = time.time()
        while p.poll() is None and time.time() - t1 < 3:
            time.sleep(0.1)
        try:
            os.killpg(p.pid, 9)
        except Exception:
            pass
        log.close()
        out = open(os.path.join(d, 'out.txt'), errors='replace').read()
        res = [open(rf).read()] if os.path.exists(rf) else []
        ids = set(open(os.path.join(d, 'ids.txt')).read().split()) if os.path.exists(os.path.join(d, 'ids.txt')) else None
        leaked = shm_segments() - before
        if ids is not None:
            leaked = set(f for f in leaked if f.split('_', 1)[1] in ids)      # only segments created by this run
        if res and 'STILL-THERE=' in res[-1]:
            inproc = [x for x in res[-1].split('STILL-THERE=')[1].split(',') if x]
            leaked |= set('/dev/shm/' + x for x in inproc)                     # seen by the caller itself right after the call
            res[-1] = res[-1].split(' STILL-THERE=')[0]
        for f in leaked:
            try:
                os.unlink(f)
            except Exception:
                pass
        return dict(hung=hung, result=res[-1] if res else 'no result line: ' + out[-300:], leaked=sorted(leaked), seconds=round(time.time() - t0, 1))
    finally:
        shutil.rmtree(d, ignore_errors=True)


def replay_run(w):
    cfg = dict(H=int(w['H']), nslice=int(w['nslice']), cores=int(w['cores']), step=int(w.get('step', 4)))
    for k in ('nanpatch', 'mask', 'nan'):
        if k in w:
            cfg[k] = w[k]
    r = run_bane(cfg)
    if r['hung']:
        return True, ('deadlock:stripes>pool' if not cfg.get('nanpatch') else 'deadlock:barrier-arrivals'), 'filter_image(rows=%d, cores=%d, nslice=%d, grid=%d%s) did not return within 40 s' % (cfg['H'], cfg['cores'], cfg['nslice'], cfg['step'], ', blanks in the first stripe only, mask=%s' % cfg.get('mask', True) if cfg.get('nanpatch') else '')
    if r['leaked']:
        return True, 'segment-leak', 'shared memory left behind: %s' % r['leaked']
    if 'raised' in r['result']:
        return True, 'raises', r['result']
    if 'unwritten-rows' in r['result']:
        return True, 'rows-not-written', 'filter_image(rows=%d, cores=%d, nslice=%d, grid=%d): %s (noise map 0 there for unit Gaussian noise)' % (cfg['H'], cfg['cores'], cfg['nslice'], cfg['step'], r['result'])
    return False, None, r['result']


def stripe_rows(H, nslice, step):
    w = int(max(H / nslice / step, 1) * step)
    return list(range(0, H, w))


def replay_schedule(w, sk):
    """force the essence of a solver schedule on the real workers with injected delays / a fault"""
    n = int(w['n'])
    step = 4
    H = 16 * n
    rows = stripe_rows(H, n, step)
    if len(rows) != n:
        return False, None, 'cannot realise %d stripes' % n
    cfg = dict(H=H, nslice=n, cores=max(n, int(w['pool'])), step=step, mask=bool(w['domask']), nan=True)
    goal = w['goal']
    tr = w.get('trace') or {}
    sched = dict(delays=[], faults=[])
    if w.get('fault'):
        fpi, fl = tr.get('fault', (0, P1))
        point = {P1: 'start', P2: 'post_wait1', P3: 'post_wait2'}.get(fl, 'start')
        sched['faults'].append([point, rows[max(0, fpi)]])
    elif goal == 'broken':
        # the worker that arrives first at barrier 1 is held between wait() and reset() while a peer runs ahead
        first = 0
        for p in range(1, n):
            sched['delays'].append(['pre_wait1', rows[p], 1.5])
        sched['delays'].append(['post_wait1', rows[first], 4.0])
    r = run_bane(cfg, sched, timeout=60)
    if r['hung']:
        return True, ('hang-after-fault' if w.get('fault') else 'deadlock'), 'filter_image with schedule %s did not return within 60 s' % sched
    if r['leaked']:
        return True, 'segment-leak', 'shared memory left behind: %s' % r['leaked']
    if w.get('fault'):
        if 'raised' not in r['result']:
            return True, 'fault-swallowed', 'injected fault %s but filter_image %s' % (sched['faults'], r['result'])
        return False, None, r['result']
    if 'raised' in r['result']:
        return True, ('broken-barrier:reset' if 'BrokenBarrier' in r['result'] else 'raises'), r['result']
    return False, None, r['result']


def replay_fault(w):
    cfg = dict(H=32, nslice=2, cores=2, step=4)
    sched = dict(delays=[], faults=[[w.get('point', 'start'), 0]])
    r = run_bane(cfg, sched, timeout=60)
    if r['hung']:
        return True, 'hang-after-fault', 'filter_image did not return within 60 s after an injected fault at %s' % w.get('point')
    if r['leaked']:
        return True, 'segment-leak', 'shared memory left behind: %s' % r['leaked']
    if 'raised' not in r['result']:
        return True, 'fault-swallowed', r['result']
    return False, None, r['result']


def k_stripes(rep):
    """every stripe of the real sigma_filter (the C06 K-exec machinery) with blank pixels in some stripes only: the number of
    barrier arrivals must not depend on a stripe's own data"""
    from checks import C06
    rep.kernel('K-stripes', functions=[F + ':sigma_filter'], bounds='the whole function for all stripes of 8x6 / 12x6 images (2-3 stripes), blank pixels in none / the first / the last stripe only, masking on and off; symbolic pixels',
               stubs=['as C06 K-exec; barrier -> one worker at a time with deadlock detection (a stripe left waiting when all others wait or have returned)'],
               outside=['which interleavings are possible (K-protocol)'])
    bane = loader.load_private(['BANE'])['BANE']
    loader.patch(bane, builtins=False)
    cfgs = []
    for H, stripes in ((8, [(0, 4), (4, 8)]), (12, [(0, 4), (4, 8), (8, 12)])):
        for blanks in ({}, {(0, 0): 'nan'}, {(H - 1, 5): 'nan'}, {(0, 1): 'inf'}):
            for domask in (True, False):
                cfgs.append(dict(H=H, W=6, stripes=stripes, blanks=blanks, domask=domask))

    def mk(cfg):
        def h(c):
            sp = {'nan': float('nan'), 'inf': float('inf')}
            a = real_np.empty((cfg['H'], cfg['W']), dtype=object)
            for r in range(cfg['H']):
                for cc in range(cfg['W']):
                    k = cfg['blanks'].get((r, cc))
                    a[r, cc] = sp[k] if k else core.real('p_%d_%d' % (r, cc))
            tag = 'stripes[%d rows, %d stripes, blanks %s, mask %s]' % (cfg['H'], len(cfg['stripes']), sorted(cfg['blanks']) or 'none', cfg['domask'])
            try:
                C06.run_bane_sym(c, bane, a, cfg['stripes'], (2, 2), (4, 4), domask=cfg['domask'])
            except C06.Deadlock as e:
                c.oblige(tag + ':every stripe arrives at every barrier (none left waiting)', z3.BoolVal(False), info=str(e))
                return dict(deadlock=str(e))
            c.oblige(tag + ':every stripe arrives at every barrier (none left waiting)', z3.BoolVal(True))
            c.oblige(tag + ':barrier passed once per phase boundary', z3.BoolVal(bane.barrier.gen == (2 if cfg['domask'] else 1)), info='generations=%d' % bane.barrier.gen)
            return dict()
        return h

    def mk_layout(cfg):
        """the same image filtered as one stripe and as several (stripe edges on grid rows): at every grid node both layouts must
        have used the same pixels for the background (the noise differs slightly by design: a stripe's last node row sees a box cut
        one row short, which moves the interpolated background between nodes; the property allows "a small fraction of the noise")"""
        def h(c):
            H, W = cfg['H'], cfg['W']
            a = real_np.empty((H, W), dtype=object)
            for r in range(H):
                for cc in range(W):
                    a[r, cc] = core.real('p_%d_%d' % (r, cc))
            tag = 'layout independence[%dx%d, box %s, %d stripes vs 1]' % (H, W, cfg['box'], len(cfg['stripes']))
            b1, r1 = C06.run_bane_sym(c, bane, a.copy(), [(0, H)], cfg['grid'], cfg['box'], domask=True)
            bn, rn = C06.run_bane_sym(c, bane, a.copy(), cfg['stripes'], cfg['grid'], cfg['box'], domask=True)
            nodes = [(r, cc) for r in range(0, H, cfg['grid'][0]) for cc in range(0, W, cfg['grid'][1])]
            L = core.lift
            ok = all(isinstance(b1[p], core.SN) and isinstance(bn[p], core.SN) and isinstance(r1[p], core.SN) and isinstance(rn[p], core.SN) for p in nodes)
            c.oblige(tag + ':maps defined at every grid node', z3.BoolVal(ok))
            if ok:
                c.oblige(tag + ':background at the grid nodes does not depend on the number of stripes', z3.And([L(b1[p]) == L(bn[p]) for p in nodes]), timeout_ms=60000)
            return dict()
        return h
    lcfgs = [dict(H=12, W=6, grid=(2, 2), box=(4, 4), stripes=[(0, 4), (4, 8), (8, 12)], layout=True), dict(H=12, W=6, grid=(2, 2), box=(8, 4), stripes=[(0, 4), (4, 8), (8, 12)], layout=True),
             dict(H=12, W=8, grid=(2, 2), box=(4, 8), stripes=[(0, 6), (6, 12)], layout=True)]
    done = False
    plans = [(mk(cf), dict(wall_s=300)) for cf in cfgs] + [(mk_layout(cf), dict(wall_s=300)) for cf in lcfgs]
    for cfg, (st, res) in zip(cfgs + lcfgs, core.explore_many(plans, workers=8)):
        rep.stats(st)
        for r in res:
            for ob in r['obligations']:
                rep.count(ob['result'], ob['name'])
                if ob['result'] == 'sat' and cfg.get('layout'):
                    bad, cls, detail = layout_oracle()
                    rep.finding('C07/K-stripes/%s' % (cls or 'layout-independence'), dict(kind='layout-maps'), detail or ob['name'], reproduced=bool(bad))
                    continue
                if ob['result'] == 'sat' and not done:
                    for w in (dict(kind='layout', H=64, nslice=4, cores=4, step=4, nanpatch=True, mask=True), dict(kind='layout', H=64, nslice=4, cores=4, step=4, nanpatch=True, mask=False),
                              dict(kind='layout', H=64, nslice=2, cores=2, step=4, mask=True)):
                        bad, cls, detail = replay_run(dict(w))
                        if bad:
                            break
                    if rep.finding('C07/K-stripes/%s' % (cls or 'barrier-arrivals'), w, detail or ob['name'], reproduced=bool(bad)) != 'not-reproduced':
                        done = True
    rep.end_kernel()


def layout_oracle():
    """real BANE on a noisy ramp with a tall and a wide box: maps for 1 and for 3 stripes agree to a small fraction of the noise"""
    from astropy.io import fits
    bane = loader.real('BANE')
    d = tempfile.mkdtemp(prefix='c07l_', dir='/var/tmp')
    try:
        rng = real_np.random.default_rng(4)
        H, W = 300, 60
        img = (rng.normal(0, 1, (H, W)) + 0.1 * real_np.arange(H)[:, None]).astype(real_np.float32)
        hdr = fits.Header()
        hdr['BMAJ'] = hdr['BMIN'] = 1.0
        hdr['CDELT1'], hdr['CDELT2'] = -0.25, 0.25
        fn = os.path.join(d, 'r.fits')
        fits.PrimaryHDU(img, header=hdr).writeto(fn)
        for box in ((60, 20), (20, 60)):
            b1, r1 = bane.filter_image(fn, None, step_size=(5, 5), box_size=box, cores=2, nslice=1, mask=False)
            b3, r3 = bane.filter_image(fn, None, step_size=(5, 5), box_size=box, cores=2, nslice=3, mask=False)
            db, dr = float(real_np.nanmax(real_np.abs(b1 - b3))), float(real_np.nanmax(real_np.abs(r1 - r3)))
            if db > 0.4 or dr > 0.4:
                return True, 'stripe-count-changes-maps', 'box %s on a 300x60 ramp with unit noise: 1 vs 3 stripes differ by %.2f sigma in the background and %.2f sigma in the noise' % (box, db, dr)
        return False, None, None
    except Exception as e:
        return True, 'raises-%s' % type(e).__name__, repr(e)[:200]
    finally:
        shutil.rmtree(d, ignore_errors=True)


def k_real_runs(rep):
    """property-level runs of the real filter_image: layouts incl. stripes > cores, and one fault per phase"""
    rep.kernel('K-replay-oracle', functions=[F + ':filter_image'], bounds='real runs under a watchdog: 6 layouts (incl. stripes > cores and realised stripes > requested), 3 fault points',
               assumes=['these are concrete executions (validation of the model and replay oracle), not solver verdicts'])
    for cfg in (dict(H=101, nslice=2, cores=2, step=4), dict(H=64, nslice=4, cores=2, step=4), dict(H=40, nslice=1, cores=1, step=4), dict(H=33, nslice=3, cores=3, step=8),
                dict(H=7, nslice=2, cores=2, step=4), dict(H=50, nslice=6, cores=3, step=2), dict(H=64, nslice=4, cores=4, step=4, nanpatch=True),
                dict(H=49, nslice=3, cores=3, step=4), dict(H=100, nslice=3, cores=3, step=4)):
        bad, cls, detail = replay_run(dict(cfg))
        rep.validated_runs(1)
        if bad:
            w = dict(kind='layout')
            w.update(cfg)
            rep.finding('C07/K-layout/%s' % cls, w, detail, kernel='K-replay-oracle')
    bad, cls, detail = layout_oracle()
    rep.validated_runs(4)
    if bad:
        rep.finding('C07/K-stripes/%s' % cls, dict(kind='layout-maps'), detail, kernel='K-replay-oracle')
    for point in ('start', 'post_wait1', 'post_wait2'):
        bad, cls, detail = replay_fault(dict(point=point))
        rep.validated_runs(1)
        if bad:
            rep.finding('C07/K-protocol/%s' % cls, dict(kind='fault', point=point), detail, kernel='K-replay-oracle')
    rep.end_kernel()


def run(rep):
    rep.assume('hook guard AEGEAN_VERIF=1 (delays/faults at phase boundaries) is used only by the replays')
    k_width(rep)
    k_layout(rep)
    try:
        sk = skeleton()
        k_protocol(rep, sk)
    except slicer.AnchorMissing as e:
        rep.inconc('K-protocol: anchor-missing %s' % e)
    k_stripes(rep)
    k_cleanup(rep)
    k_real_runs(rep)
    rep.not_decided += ['bit-identical maps for every worker count (follows from the ordering obligations for a fixed layout; numeric equality not decided)',
                        'changing the number of stripes changes the maps by a small fraction of the noise (numeric)']


def replay(w):
    wit = w['witness']
    if wit.get('kind') == 'layout':
        bad, cls, detail = replay_run(wit)
    elif wit.get('kind') == 'layout-maps':
        bad, cls, detail = layout_oracle()
    elif wit.get('kind') == 'schedule':
        bad, cls, detail = replay_schedule(wit, skeleton())
    else:
        bad, cls, detail = replay_fault(wit)
    return bad, '%s: %s' % (cls, detail)


if __name__ == '__main__':
    main(sys.modules[__name__])
