"""shared harness for C02 / C11 / C13: the real find_islands on symbolic pixel values.
Every comparison the real code makes on a pixel forks, so along a path the flood mask is concrete and the real
scipy.ndimage.label/find_objects run on it; pixel values stay symbolic in the solver."""
import numpy as real_np
import z3

from symx import core, loader
from symx.core import SN, SB, real

F = 'AegeanTools/source_finder.py'
FM = 'AegeanTools/models.py'

R2 = z3.RealSort()
Wra = z3.Function('Wra', R2, R2, R2)      # W_0: 0-based pixel (x=col, y=row) -> sky
Wdec = z3.Function('Wdec', R2, R2, R2)
Inside = z3.Function('Inside', R2, R2, z3.BoolSort())


def sym_finder():
    mods = loader.load_private(['models', 'source_finder'])
    sf, models = mods['source_finder'], mods['models']
    loader.patch(sf, builtins=False)
    loader.patch(models, builtins=False)
    return sf, models


class Sky:
    def __init__(self, e, narrow=False):
        self.e = e
        self.narrow = narrow          # went through a cast to a float type narrower than float64


class SkyArr(real_np.ndarray):
    """object array of Sky values: a cast to a narrower float type is recorded on the values instead of failing"""
    def astype(self, dtype, *a, **k):
        try:
            dt = real_np.dtype(dtype)
        except TypeError:
            return self
        if dt.kind == 'f' and dt.itemsize < 8:
            out = real_np.empty(self.shape, dtype=object).view(SkyArr)
            for idx in real_np.ndindex(self.shape):
                v = real_np.ndarray.__getitem__(self, idx)
                real_np.ndarray.__setitem__(out, idx, Sky(v.e, True) if isinstance(v, Sky) else v)
            return out
        return self


class UFWcs:
    """WCS as uninterpreted functions; origin o means W_o(p) = W_0(p - o). Records the coordinates it was asked about."""
    ra_dec_order = True

    def __init__(self):
        self.calls = []
        self.wcs = self

    def wcs_pix2world(self, pix, origin, *a, **kw):
        pix = list(pix)
        out = real_np.empty((len(pix), 2), dtype=object)
        for n, p in enumerate(pix):
            x, y = p[0], p[1]
            X = core._toreal(core.lift(x)) - origin
            Y = core._toreal(core.lift(y)) - origin
            X, Y = z3.simplify(X), z3.simplify(Y)
            self.calls.append((X, Y))
            out[n, 0] = Sky(Wra(X, Y))
            out[n, 1] = Sky(Wdec(X, Y))
        return out.view(SkyArr)
    all_pix2world = wcs_pix2world


class UFRegion:
    def __init__(self):
        self.degin = []

    def sky_within(self, ra, dec, degin=False):
        self.degin.append(degin)
        try:
            it = list(zip(ra, dec))
        except TypeError:
            it = [(ra, dec)]
        return real_np.array([SB(Inside(a.e, d.e)) for a, d in it], dtype=object)


def inside_pixel(r, c):
    """the oracle's membership of pixel (row r, col c): Inside(W_fits(x=c+1, y=r+1)) = Inside(W_0(c, r))"""
    X, Y = z3.RealVal(c), z3.RealVal(r)
    return Inside(Wra(X, Y), Wdec(X, Y))


def components(mask):
    """reference 8-connected flood fill on a concrete boolean grid -> list of sorted pixel lists (scan order of first pixel)"""
    R, C = len(mask), len(mask[0]) if len(mask) else 0
    seen = set()
    comps = []
    for r in range(R):
        for c in range(C):
            if mask[r][c] and (r, c) not in seen:
                st = [(r, c)]
                seen.add((r, c))
                comp = []
                while st:
                    a, b = st.pop()
                    comp.append((a, b))
                    for da in (-1, 0, 1):
                        for db in (-1, 0, 1):
                            q = (a + da, b + db)
                            if 0 <= q[0] < R and 0 <= q[1] < C and mask[q[0]][q[1]] and q not in seen:
                                seen.add(q)
                                st.append(q)
                comps.append(sorted(comp))
    return comps


def island_pixels(isl):
    """(box, member pixel list) as reported by a PixelIsland, or a string describing an inconsistency"""
    (r0, r1), (c0, c1) = [tuple(int(v) for v in b) for b in isl.bounding_box]
    m = real_np.asarray(isl.mask)
    if m.shape != (r1 - r0, c1 - c0):
        return (r0, r1, c0, c1), 'box %s but mask shape %s' % ((r0, r1, c0, c1), m.shape)
    pix = sorted((r0 + a, c0 + b) for a in range(m.shape[0]) for b in range(m.shape[1]) if not m[a, b])
    return (r0, r1, c0, c1), pix


def tight_box(comp):
    rs = [p[0] for p in comp]
    cs = [p[1] for p in comp]
    return (min(rs), max(rs) + 1, min(cs), max(cs) + 1)


def make_image(R, C, nan=(), sign=1, prefix='v'):
    im = real_np.empty((R, C), dtype=object)
    for r in range(R):
        for c in range(C):
            if (r, c) in nan:
                im[r, c] = real_np.nan
            else:
                v = real('%s_%d_%d' % (prefix, r, c))
                im[r, c] = v if sign == 1 else -v
    return im


def snr_terms(R, C, nan, bkg, rms, prefix='v'):
    """oracle-side |v - bkg| / rms per finite pixel (z3 terms), independent of the code under test"""
    out = {}
    for r in range(R):
        for c in range(C):
            if (r, c) in nan:
                continue
            v = z3.Real('%s_%d_%d' % (prefix, r, c))
            b = core._toreal(core.lift(bkg[r][c]))
            s = core._toreal(core.lift(rms[r][c]))
            d = v - b
            out[(r, c)] = z3.If(d >= 0, d, -d) / s
    return out


def real_oracle(im, bkg, rms, seed, flood):
    """property-level oracle in floats: the expected islands [(box, pixels)] in scan order"""
    im = real_np.asarray(im, dtype=float)
    with real_np.errstate(invalid='ignore'):
        snr = real_np.abs(im - bkg) / rms
        a = snr >= flood
    mask = [[bool(a[r, c]) and bool(real_np.isfinite(im[r, c])) for c in range(im.shape[1])] for r in range(im.shape[0])]
    exp = []
    for comp in components(mask):
        if any(snr[p] > seed for p in comp):
            exp.append((tight_box(comp), comp))
    return exp


def compare_real(isl, exp):
    """returned PixelIslands vs expected; -> (bad, cls, detail)"""
    got = []
    for i in isl:
        box, pix = island_pixels(i)
        if isinstance(pix, str):
            return True, 'box-mask-mismatch', pix
        got.append((box, pix))
    gp = [p for _, p in got]
    ep = [p for _, p in exp]
    for box, pix in got:
        if pix not in ep:
            inexp = [e for e in ep if set(pix) & set(e)]
            return True, ('foreign-seed' if not inexp else 'wrong-pixels'), 'island %s reported but not expected (expected %s)' % (pix, ep)
    for box, pix in exp:
        if pix not in gp:
            return True, 'missing-island', 'island %s expected but not reported (got %s)' % (pix, gp)
    for (box, pix), (ebox, epix) in zip(sorted(got, key=lambda t: t[1]), sorted(exp, key=lambda t: t[1])):
        if box != ebox:
            return True, 'box-not-tight', 'island %s box %s expected %s' % (pix, box, ebox)
    allp = [p for _, pix in got for p in pix]
    if len(allp) != len(set(allp)):
        return True, 'overlap', 'islands overlap'
    return False, None, None
