"""C12 Region exports (MOC FITS, DS9 reg, .mim) describe exactly the region's sky area.
The real _uniq / write_fits / write_reg run on guarded finite sets with every membership bit symbolic, before and
after the queries that demote the internal representation; astropy/healpy are cut and their arguments recorded."""
import os
import re
import sys
import tempfile

import z3

from symx import core, loader, symset
from symx.core import explore, SB
from symx.symset import SymSet, G, TRUE, FALSE
from symx.report import main
from checks import C08

PID = 'C12'
F = 'AegeanTools/regions.py'


def decode(v):
    """NUNIQ -> (order, ipix)"""
    d = 0
    while v >= 4 * 4 ** (d + 1):
        d += 1
    return d, v - 4 * 4 ** d


def uniq_claims(c, tag, out, pre_bits, D):
    """out: list returned by _uniq (G values). pre_bits: {(d,p): z3 Bool} the region's stored pixels"""
    got = {}
    ok_types = True
    order_ok = True
    prev = None
    for g in out:
        v, guard = symset.vg(g)
        if v != int(v) or isinstance(v, float):
            ok_types = False
            continue
        if prev is not None and v < prev:
            order_ok = False
        prev = v
        d, p = decode(int(v))
        got[(d, p)] = z3.Or(got.get((d, p), FALSE), guard)
    keys = set(got) | set(pre_bits)
    c.oblige(tag + ':decoded NUNIQ list == stored pixel set (all levels)', z3.And([got.get(k, FALSE) == pre_bits.get(k, FALSE) for k in sorted(keys)]))
    c.oblige(tag + ':orders within 1..maxdepth', z3.And([z3.Not(b) for (d, p), b in got.items() if d < 1 or d > D] + [TRUE]))
    c.oblige(tag + ':values are python ints, ascending', z3.BoolVal(ok_types and order_ok))


class Recorder:
    def __init__(self):
        self.cols = []
        self.header = {}
        self.written = []


def fits_stub(rec):
    class Col:
        def __init__(self, **kw):
            rec.cols.append(kw)

    class HDU:
        def __init__(self):
            self.header = rec.header

    class Bin:
        @staticmethod
        def from_columns(cols):
            return HDU()

    class HL(list):
        def writeto(self, fn, overwrite=False):
            rec.written.append(fn)

    class FitsMod:
        Column = Col
        BinTableHDU = Bin

        @staticmethod
        def open(path, *a, **k):
            rec.template = path
            return HL([HDU(), HDU()])
    return FitsMod


def h_uniq(reg, D, uni, cached, query):
    def h(c):
        a = C08.mk(reg, 'a', D, uni, cached)
        if query == 'get_demoted':
            a.get_demoted()
        elif query == 'get_area':
            a.get_area()
        pre = {(d, u): b for d in range(1, D + 1) for u, b in a.pixeldict[d].bits.items()}
        ea = C08.alpha(a, uni)
        tag = '_uniq[D=%d,cache=%d,after=%s]' % (D, cached, query)
        out = a._uniq()
        uniq_claims(c, tag, out, pre, D)
        na = C08.alpha(a, uni)
        c.oblige(tag + ':export leaves the region unchanged', z3.And([na[u] == ea[u] for u in ea]))
        return tag
    return h


def h_writefits(reg, D, uni, cached):
    def h(c):
        rec = Recorder()
        reg.fits = fits_stub(rec)
        a = C08.mk(reg, 'a', D, uni, cached)
        pre = {(d, u): b for d in range(1, D + 1) for u, b in a.pixeldict[d].bits.items()}
        tag = 'write_fits[D=%d,cache=%d]' % (D, cached)
        a.write_fits('/nonexistent/out.fits', moctool='x')
        mo = rec.header.get('MOCORDER')
        mo = mo[0] if isinstance(mo, tuple) else mo
        c.oblige(tag + ':MOCORDER == region depth', z3.BoolVal(mo == D))
        c.oblige(tag + ':one 64-bit integer column written', z3.BoolVal(len(rec.cols) == 1 and rec.cols[0].get('format') in ('1K', 'K') and len(rec.written) == 1))
        ordering = rec.header.get('ORDERING')
        c.oblige(tag + ':ORDERING NUNIQ', z3.BoolVal(str(ordering[0] if isinstance(ordering, tuple) else ordering).strip() == 'NUNIQ'))
        if rec.cols:
            uniq_claims(c, tag + ':column', rec.cols[0].get('array'), pre, D)
        return tag
    return h


def h_writereg(reg, D, uni, cached):
    import numpy as real_np

    def h(c):
        calls = []
        coords = []

        class HP:
            @staticmethod
            def boundaries(nside, pix, step=1, nest=False):
                v, g = symset.vg(pix)
                calls.append((nside, v, g, step, nest, type(v).__name__))
                return real_np.array([[1.0, 0, 0, 0], [0, 1.0, 0, 0], [0, 0, 1.0, 0]])

            @staticmethod
            def vec2ang(vec):
                return real_np.array([0.1, 0.2, 0.3, 0.4]), real_np.array([1.0, 2.0, 3.0, 4.0])

        class Ang:
            def __init__(self, v):
                self.v = v

            def to_string(self, sep=':', precision=2):
                return 'A'

        class SC:
            def __init__(self, ra, dec, unit=None):
                coords.append((float(ra), float(dec), unit))
                self.ra, self.dec = Ang(ra), Ang(dec)
        lines = []

        class FakeFile:
            def __enter__(self):
                return self

            def __exit__(self, *a):
                return False

            def write(self, s):
                lines.append(s)
        reg.hp = HP
        reg.SkyCoord = SC
        reg.open = lambda *a, **k: FakeFile()
        a = C08.mk(reg, 'a', D, uni, cached)
        pre = {(d, u): b for d in range(1, D + 1) for u, b in a.pixeldict[d].bits.items()}
        tag = 'write_reg[D=%d,cache=%d]' % (D, cached)
        try:
            a.write_reg('/nonexistent/out.reg')
        finally:
            del reg.open
            reg.hp = C08.HPStub()
        got = {}
        conv = True
        for nside, v, g, step, nest, tn in calls:
            d = nside.bit_length() - 1
            if 2 ** d != nside or step != 1 or nest is not True or tn != 'int':
                conv = False
            got[(d, v)] = z3.Or(got.get((d, v), FALSE), g)
        keys = set(got) | set(pre)
        c.oblige(tag + ':one polygon per stored pixel', z3.And([got.get(k, FALSE) == pre.get(k, FALSE) for k in sorted(keys)]))
        c.oblige(tag + ':boundaries(nside=2**level, int id, step=1, nest=True)', z3.BoolVal(conv))
        ntext = ''.join(lines).count('polygon(')
        c.oblige(tag + ':one text line per boundaries call', z3.BoolVal(ntext == len(calls)))
        # vertices: (ra, dec) in degrees from vec2sky(degrees=True); RA handed over as hours (ra/15)
        import math
        okc = all(abs(ra * 15 - math.degrees(ph)) < 1e-9 and abs(dec - (90 - math.degrees(th))) < 1e-9
                  for (ra, dec, unit), (th, ph) in zip(coords[:4], zip([0.1, 0.2, 0.3, 0.4], [1.0, 2.0, 3.0, 4.0])))
        c.oblige(tag + ':vertices are the boundary vectors as (ra/15 h, dec deg)', z3.BoolVal(bool(okc) or not calls))
        return tag
    return h


def h_save(reg, D, uni, cached):
    def h(c):
        dumped = []

        class FakeFile:
            def __enter__(self):
                return self

            def __exit__(self, *a):
                return False

            def close(self):
                pass

        class Pk:
            @staticmethod
            def dump(obj, f, protocol=None):
                # what pickle would store: the object's state at this moment
                dumped.append((obj, {d: S.copy() for d, S in obj.pixeldict.items()}, obj.maxdepth))
        a = C08.mk(reg, 'a', D, uni, cached)
        ea = C08.alpha(a, uni)
        reg.open = lambda *x, **k: FakeFile()
        reg.cPickle = Pk
        try:
            a.save('/nonexistent/x.mim')
        finally:
            del reg.open
            import _pickle
            reg.cPickle = _pickle
        tag = 'save[D=%d,cache=%d]' % (D, cached)
        c.oblige(tag + ':the region itself is pickled once', z3.BoolVal(len(dumped) == 1 and dumped[0][0] is a and dumped[0][2] == D))
        if dumped:
            snap = reg.Region.__new__(reg.Region)
            snap.maxdepth = D
            snap.pixeldict = dumped[0][1]
            es = C08.alpha(snap, uni)
            c.oblige(tag + ':the pickled state covers exactly the region', z3.And([es[u] == ea[u] for u in ea]))
        na = C08.alpha(a, uni)
        c.oblige(tag + ':saving leaves the region unchanged', z3.And([na[u] == ea[u] for u in ea]))
        dm = a.get_demoted()
        c.oblige(tag + ':queries after saving still answer the region', z3.And([dm.bits.get(u, FALSE) == ea[u] for u in ea]))
        return tag
    return h


def h_load(reg, D, uni):
    """Region.load hands back what the unpickler read from THIS call's file contents: two loads of one (unchanged) file give
    two independent objects, so editing the first cannot change what the second describes"""
    def h(c):
        import io
        made = []

        class Pk:
            @staticmethod
            def load(f, *a, **k):
                r = C08.mk(reg, 'f%d' % len(made), D, uni, False)
                made.append(r)
                return r
        C08.load_through(reg, C08.mk(reg, 'z', D, uni, False))        # creates the stand-in file
        old = reg.cPickle
        reg.cPickle = Pk
        reg.open = lambda *x, **k: io.BytesIO(b'')
        try:
            r1 = reg.Region.load(C08._STUB_MIM)
            e1 = C08.alpha(r1, uni)
            other = C08.mk(reg, 'o', D, uni, False)
            r1.union(other)
            r2 = reg.Region.load(C08._STUB_MIM)
        finally:
            reg.cPickle = old
            del reg.open
        tag = 'load[D=%d]' % D
        c.oblige(tag + ':every load goes to the unpickler and returns its object', z3.BoolVal(len(made) == 2 and r1 is made[0] and r2 is made[1]))
        if len(made) == 2:
            want = C08.alpha(made[1], uni)
            got = C08.alpha(r2, uni)
            c.oblige(tag + ':a second load describes the file, not the edited first load', z3.And([got[u] == want[u] for u in want]))
        return tag
    return h


# ------------------------------------------------------------------------------------------------
def oracle_export(levels, D, query):
    """property-level oracle on the real code: write MOC FITS / reg / mim for a concrete region and read them back"""
    import numpy as np
    import healpy as hp
    from astropy.io import fits
    regions = loader.real('regions')
    d = tempfile.mkdtemp(prefix='c12_', dir='/var/tmp')
    try:
        r = regions.Region(maxdepth=D)
        for lv, ids in levels.items():
            if ids:
                r.add_pixels(list(ids), int(lv))
        want_leaves = C08.leaves_of(levels, D)
        if query:
            r.get_demoted()
        stored = set((lv, int(p)) for lv, S in r.pixeldict.items() for p in S)
        fn = os.path.join(d, 'm.fits')
        try:
            r.write_fits(fn)
        except Exception as e:
            return True, 'write_fits-raises', repr(e)
        with fits.open(fn) as hl:
            col = np.array(hl[1].data['NPIX']) if 'NPIX' in hl[1].columns.names else np.array(hl[1].data.field(0))
            order = hl[1].header['MOCORDER']
        leaves = set()
        for v in col:
            o, p = decode(int(v))
            f = 4 ** (D - o)
            leaves.update(range(p * f, (p + 1) * f))
        if order != D:
            return True, 'mocorder', 'MOCORDER=%r for depth %d' % (order, D)
        if leaves != want_leaves:
            return True, 'moc-pixels' + ('-after-query' if query and set() == leaves else ''), 'MOC decodes to %d deepest pixels, region has %d (levels %s, query=%s)' % (len(leaves), len(want_leaves), levels, query)
        rf = os.path.join(d, 'm.reg')
        r.write_reg(rf)
        lines = [l for l in open(rf) if 'polygon' in l]
        if len(lines) != len(stored):
            return True, 'reg-count', '%d polygons for %d stored pixels' % (len(lines), len(stored))
        # each polygon's vertices are the corners of one stored pixel (sexagesimal text parsed back, 0.02 arcsec tolerance)
        import re as _re

        def sexa(txt, hours):
            sg = -1 if txt.strip().startswith('-') else 1
            hh, mm, ss = [float(x) for x in txt.strip().lstrip('+-').split(':')]
            v = sg * (hh + mm / 60 + ss / 3600)
            return v * 15 if hours else v
        polys = []
        for l in lines:
            body = l[l.index('(') + 1:l.rindex(')')].split(',')
            polys.append(sorted((round(sexa(body[i], True) % 360, 4), round(sexa(body[i + 1], False), 4)) for i in range(0, len(body), 2)))
        want_polys = []
        for lv, p in stored:
            v = hp.boundaries(2 ** lv, int(p), step=1, nest=True)
            th, ph = hp.vec2ang(np.array(v).T)
            want_polys.append(sorted((round(float(np.degrees(a)) % 360, 4), round(float(90 - np.degrees(t)), 4)) for t, a in zip(th, ph)))

        def close(a, b):
            return all(min(abs(x[0] - y[0]), 360 - abs(x[0] - y[0])) * np.cos(np.radians(x[1])) < 2e-3 and abs(x[1] - y[1]) < 2e-3 for x, y in zip(a, b))
        for wp in want_polys:
            if not any(close(wp, gp) or close(sorted(wp, key=lambda q: q[1]), sorted(gp, key=lambda q: q[1])) for gp in polys):
                return True, 'reg-vertices', 'no DS9 polygon has the corners %s of a stored pixel' % (wp,)
        mf = os.path.join(d, 'm.mim')
        r.save(mf)
        r2 = regions.Region.load(mf)
        if r2.maxdepth != r.maxdepth or set(r2.get_demoted()) != want_leaves:
            return True, 'mim-roundtrip', 'save/load changed the region'
        # the file, not an earlier load of it, is what a load returns: edit the loaded object in place, load again
        spare = sorted(set(range(12 * 4 ** D)) - want_leaves)[:1]
        if spare:
            r2.add_pixels(spare, D)
        if want_leaves:
            other = regions.Region(maxdepth=D)
            other.add_pixels(sorted(want_leaves)[:1], D)
            r2.without(other)
        r3 = regions.Region.load(mf)
        if r3.maxdepth != r.maxdepth or set(int(p) for p in r3.get_demoted()) != want_leaves:
            return True, 'mim-load-after-edit', 'a second load of the same .mim file returned %d deepest pixels, the file holds %d (an earlier load had been edited in place)' % (len(r3.get_demoted()), len(want_leaves))
        return False, None, None
    except Exception as e:
        return True, 'raises-%s' % type(e).__name__, repr(e)
    finally:
        import shutil
        shutil.rmtree(d, ignore_errors=True)


def handle(rep, res, meta):
    for r in res:
        for ob in r['obligations']:
            rep.count(ob['result'], ob['name'])
            if ob['result'] == 'sat':
                lv = C08.model_levels(ob['model'], 'a', meta['D'], meta.get('cached'))
                if not any(lv.values()):
                    lv = {meta['D']: [1]}
                q = bool(meta.get('cached')) or meta.get('query') not in (None, 'none')
                bad, cls, detail = oracle_export(lv, meta['D'], q)
                if not bad and not q:
                    bad, cls, detail = oracle_export(lv, meta['D'], True)
                    q = True
                if not bad:
                    # the same pixel NUMBER stored at two levels (different pixels), far-apart pieces
                    for lv2, D2 in (({1: [0], 2: [0]}, 2), ({2: [5], 3: [5]}, 3), ({1: [3], 3: [3, 40]}, 3)):
                        bad, cls, detail = oracle_export(lv2, D2, False)
                        if bad:
                            lv, q = lv2, False
                            meta = dict(meta, D=D2)
                            break
                rep.finding('C12/%s/%s' % (meta['k'], cls or ob['name'].split(':')[-1]), dict(levels=lv, D=meta['D'], query=q), detail or ob['name'], reproduced=bad)
    if res:
        r = res[0]
        rep.sample(dict(case=r['out'], paths=len(res), obligations=[(o['name'], o['result']) for o in r['obligations']][:6]))


def run(rep):
    reg = C08.sym_regions()
    thorough = rep.tier == 'thorough'
    rep.assume('universe = subtree of base pixel 0 (ids used only through arithmetic that is uniform over base pixels)',
               'astropy FITS writing, SkyCoord formatting, healpy.boundaries and pickle are cut in the symbolic runs; they run for real in the replay oracle')
    depths = [1, 2, 3] + ([4] if thorough else [])
    rep.kernel('K-uniq', functions=[F + ':Region._uniq', F + ':Region.get_demoted', F + ':Region.get_area'],
               bounds='depth D in %s; all pixels below level-1 pixel 0, every membership bit symbolic; export taken with empty cache, after get_demoted, after get_area, and from the cached state' % depths)
    for D in depths:
        uni = C08.universe(D) if D < 4 else C08.universe(D, 2)
        for cached in (False, True):
            for q in ('none', 'get_demoted', 'get_area'):
                st, res = explore(h_uniq(reg, D, uni, cached, q), workers=1, wall_s=120)
                rep.stats(st)
                handle(rep, res, dict(k='K-uniq', D=D, cached=cached, query=q))
    rep.end_kernel()
    rep.kernel('K-write_fits', functions=[F + ':Region.write_fits', F + ':Region._uniq'], bounds='depth D in %s, symbolic region' % depths,
               stubs=['astropy.io.fits -> recorder (Column kwargs, header dict, writeto)'])
    for D in depths:
        uni = C08.universe(D) if D < 4 else C08.universe(D, 2)
        for cached in (False, True):
            st, res = explore(h_writefits(reg, D, uni, cached), workers=1, wall_s=120)
            rep.stats(st)
            handle(rep, res, dict(k='K-write_fits', D=D, cached=cached))
    reg.fits = __import__('astropy.io.fits', fromlist=['fits'])
    rep.end_kernel()
    rep.kernel('K-write_reg', functions=[F + ':Region.write_reg', F + ':Region.vec2sky'], bounds='depth D in %s, symbolic region' % depths[:3],
               stubs=['healpy.boundaries/vec2ang -> recorder returning fixed vectors', 'SkyCoord -> recorder', 'open -> in-memory file'],
               outside=['healpy.boundaries itself (C++), astropy sexagesimal formatting'])
    for D in depths[:3]:
        uni = C08.universe(D)
        for cached in (False, True):
            st, res = explore(h_writereg(reg, D, uni, cached), workers=1, wall_s=120)
            rep.stats(st)
            handle(rep, res, dict(k='K-write_reg', D=D, cached=cached))
    rep.end_kernel()
    rep.kernel('K-save', functions=[F + ':Region.save', F + ':Region.load'], bounds='depth D in %s, symbolic region, empty-cache and cached states' % depths[:3],
               stubs=['open -> in-memory file', 'pickle.dump -> snapshot of the object state at the time of the call'], outside=['pickle itself (library; real in the replay oracle)'])
    for D in depths[:3]:
        uni = C08.universe(D)
        for cached in (False, True):
            st, res = explore(h_save(reg, D, uni, cached), workers=1, wall_s=120)
            rep.stats(st)
            handle(rep, res, dict(k='K-save', D=D, cached=cached))
        st, res = explore(h_load(reg, D, uni), workers=1, wall_s=120)
        rep.stats(st)
        handle(rep, res, dict(k='K-save', D=D, cached=False))
    rep.end_kernel()
    rep.kernel('K-replay-oracle', functions=[F + ':Region.write_fits', F + ':Region.write_reg', F + ':Region.save', F + ':Region.load'],
               bounds='concrete regions (empty, single pixel, multi-level, full base pixel, depth 1..7, corners just south of the equator) through real astropy/healpy/pickle, before and after a query')
    cases = [({1: []}, 1), ({1: [3]}, 1), ({2: [5]}, 2), ({1: [0], 3: [40, 41]}, 3), ({1: [0], 2: [0]}, 2), ({2: [5], 3: [5]}, 3), ({2: [1, 2], 4: [200], 5: [1000, 1001]}, 5), ({1: list(range(12))}, 2),
             # pixels with corners at -1 < dec < 0 and RA below 1 h (sign and leading-zero fields of the sexagesimal text)
             ({6: [17405, 17407, 17981, 18017]}, 6), ({7: [69621, 69626]}, 7)]
    for lv, D in cases:
        for q in (False, True):
            bad, cls, detail = oracle_export(lv, D, q)
            rep.validated_runs(1)
            if bad:
                rep.finding('C12/K-uniq/%s' % cls if 'moc' in cls else 'C12/K-export/%s' % cls, dict(levels=lv, D=D, query=q), detail)
    rep.end_kernel()
    rep.not_decided += ['polygon vertices equal the HEALPix corners (healpy C++ and astropy formatting: replay oracle only, incl. corners at -1 < dec < 0)', '.mim pickle fidelity (library; replay oracle only)']


def replay(w):
    wit = w['witness']
    bad, cls, detail = oracle_export({int(k): v for k, v in wit['levels'].items()}, int(wit['D']), wit.get('query'))
    return bad, '%s: %s' % (cls, detail)


if __name__ == '__main__':
    main(sys.modules[__name__])
