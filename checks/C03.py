"""C03 every output catalogue is internally consistent and reproducible (partial: per-row invariants and numbering).
Whole-catalogue reproducibility and island-row/pixel agreement need complete runs and are NOT decided. Decided:
K-numbering : island numbers handed out by priorized_fit_islands / _refit_islands never collide (LIA, unbounded)
K-normalise : the real fix_shape / pa_limit and the RA wrap: a >= b, -90 < pa <= 90, ellipse preserved mod 180, 0 <= ra < 360
K-errors    : the real fitting.errors with the standard errors ranging over what covar_errors can emit (positive, NaN,
              the negative LinAlgError marker): every err_* is >= 0 and finite, or exactly -1
K-rows      : the real result_to_components on a two-component model: components numbered 0..n-1, flag words made of
              the documented bits only, int_flux = peak*a*b/(psf_a*psf_b)
K-flags     : the flag constants are seven distinct bits and the code references no other flag"""
import ast
import itertools
import logging
import math
import os
import shutil
import sys
import tempfile

import numpy as real_np
import z3

from symx import core, loader, nz, slicer
from symx.core import SN, SB, real, angle_deg, explore
from symx.report import main
from checks import C16, r2c

PID = 'C03'
F = 'AegeanTools/source_finder.py'
FF = 'AegeanTools/fitting.py'
ALLBITS = 127


# ------------------------------------------------------------------ K-numbering
def k_numbering(rep):
    rep.kernel('K-numbering', functions=[F + ':SourceFinder.priorized_fit_islands', F + ':SourceFinder._refit_islands'],
               bounds='all integers: group index g >= 0, position k in [0, group_size) - any number of groups (linear integer arithmetic)',
               assumes=['slice: the istart= argument of the _refit_islands call, the group_size assignment, and the start= of enumerate(group, ...) in _refit_islands',
                        'every group except the last holds exactly group_size islands (the batching loop appends when len >= group_size)'])
    try:
        fpi = slicer.get_function(F, 'priorized_fit_islands', 'SourceFinder')
        fri = slicer.get_function(F, '_refit_islands', 'SourceFinder')
    except slicer.AnchorMissing as e:
        rep.inconc('anchor-missing %s' % e)
        rep.end_kernel()
        return
    call = [n for n in ast.walk(fpi) if isinstance(n, ast.Call) and getattr(n.func, 'attr', '') == '_refit_islands']
    gs = [n for n in ast.walk(fpi) if isinstance(n, ast.Assign) and ast.unparse(n.targets[0]) == 'group_size']
    loop = [n for n in ast.walk(fpi) if isinstance(n, ast.For) and any(c is call[0] for c in ast.walk(n))] if call else []
    enum = [n for n in ast.walk(fri) if isinstance(n, ast.For) and 'enumerate(group' in ast.unparse(n.iter)]
    if not call or not gs or not loop or not enum:
        rep.inconc('anchor-missing: priorized batching statements not found')
        rep.end_kernel()
        return
    kw = {k.arg: k.value for k in call[0].keywords}
    istart_expr = kw.get('istart')
    if istart_expr is None and len(call[0].args) >= 4:
        istart_expr = call[0].args[3]
    group_size = eval(compile(ast.Expression(body=gs[0].value), '<gs>', 'eval'))
    loopvar = ast.unparse(loop[0].target).strip('()').split(',')[0].strip()
    start_kw = [k.value for k in enum[0].iter.keywords if k.arg == 'start']
    start_expr = start_kw[0] if start_kw else (enum[0].iter.args[1] if len(enum[0].iter.args) > 1 else None)
    rep.sample(dict(kernel='K-numbering', istart=ast.unparse(istart_expr) if istart_expr is not None else None, group_size=group_size, loop_variable=loopvar,
                    enumerate_start=ast.unparse(start_expr) if start_expr is not None else None))

    def h(c):
        g1, g2, k1, k2 = [core.integer(n) for n in ('g1', 'g2', 'k1', 'k2')]
        for g in (g1, g2):
            c.assume(g.e >= 0)
        for k in (k1, k2):
            c.assume(k.e >= 0)
            c.assume(k.e < group_size)

        def number(g, k):
            env = {loopvar: g, 'group_size': group_size, 'i': g}
            istart = eval(compile(ast.Expression(body=istart_expr), '<istart>', 'eval'), dict(env)) if istart_expr is not None else 0
            start = eval(compile(ast.Expression(body=start_expr), '<start>', 'eval'), dict(istart=istart)) if start_expr is not None else 0
            return core.lift(start) + k.e
        try:
            n11, n22 = number(g1, k1), number(g2, k2)
        except (core.Unsupported, core.HarnessError, core.Cut, core.Infeasible):
            raise
        except Exception as e:
            # the start number is not a closed-form function of the group index (e.g. a running counter): not encodable here
            c.oblige('numbering:start number is a function of the group index (encodable)', z3.BoolVal(False), info=repr(e))
            return dict()
        c.oblige('numbering:distinct (group, position) pairs get distinct island numbers', z3.Implies(z3.Or(g1.e != g2.e, k1.e != k2.e), n11 != n22))
        c.oblige('numbering:island numbers are non-negative', n11 >= 0)
        return dict()
    st, res = explore(h)
    rep.stats(st)
    for r in res:
        for ob in r['obligations']:
            rep.count(ob['result'], ob['name'])
            if ob['result'] == 'sat':
                bad, cls, detail = priorized_oracle(nsrc=30, blank=True)
                rep.finding('C03/K-numbering/%s' % (cls or 'duplicate-island-numbers'), dict(kind='priorized', nsrc=30, blank=True), detail or ob['name'], reproduced=bad)
    rep.end_kernel()


# ------------------------------------------------------------------ K-normalise
def k_normalise(rep, mods):
    sf = mods['source_finder']
    rep.kernel('K-normalise', functions=[F + ':fix_shape', F + ':pa_limit', F + ':SourceFinder.result_to_components'],
               bounds='all real a, b > 0, |pa| <= 720 (loop unrolling checked: at most 5 iterations), ra in (-360, 360)',
               assumes=['slice: the `if source.ra < 0` wrap of result_to_components'])

    class S:
        pass

    def h_shape(c):
        s = S()
        a, b, pa = real('a'), real('b'), real('pa')
        ea, eb = real('err_a'), real('err_b')
        c.assume(a.e > 0)
        c.assume(b.e > 0)
        c.assume(pa.e >= -720)
        c.assume(pa.e <= 720)
        s.a, s.b, s.pa, s.err_a, s.err_b = a, b, pa, ea, eb
        sf.fix_shape(s)
        out = sf.pa_limit(s.pa)
        n = z3.Int('n')
        L = core.lift
        c.oblige('normalise:a >= b > 0 and {a, b} preserved', z3.And(L(s.a) >= L(s.b), L(s.b) > 0, z3.Or(z3.And(L(s.a) == a.e, L(s.b) == b.e), z3.And(L(s.a) == b.e, L(s.b) == a.e))))
        c.oblige('normalise:errors swapped with the axes', z3.If(L(s.a) == a.e, z3.And(L(s.err_a) == ea.e, L(s.err_b) == eb.e), z3.And(L(s.err_a) == eb.e, L(s.err_b) == ea.e)), assume=[a.e != b.e])
        c.oblige('normalise:-90 < pa <= 90', z3.And(L(out) > -90, L(out) <= 90))
        swapped = z3.And(L(s.a) == b.e, a.e != b.e)
        c.oblige('normalise:same ellipse (pa changes by 90 with a swap, else by multiples of 180)', z3.Exists([n], L(out) == pa.e + z3.If(swapped, 90, 0) + 180 * z3.ToReal(n)))
        return dict()
    st, res = explore(h_shape, max_paths=400)
    rep.stats(st)
    for r in res:
        for ob in r['obligations']:
            if ob['result'] == 'sat':
                ob['normalise_witness'] = {k: float(v) for k, v in ob['model'].items() if k in ('a', 'b', 'pa', 'err_a', 'err_b') and not isinstance(v, bool)}
    collect_normalise(rep, res)
    try:
        f = slicer.get_function(F, 'result_to_components', 'SourceFinder')
        node = [n for n in ast.walk(f) if isinstance(n, ast.If) and ast.unparse(n.test).replace(' ', '') == 'source.ra<0']
        if not node:
            raise slicer.AnchorMissing('result_to_components: `if source.ra < 0` not found')
        code = compile(ast.Module(body=[node[0]], type_ignores=[]), '<ra wrap>', 'exec')
    except slicer.AnchorMissing as e:
        rep.inconc('anchor-missing %s' % e)
        code = None
    if code is not None:
        def h_ra(c):
            ra = real('ra')
            c.assume(ra.e > -360)
            c.assume(ra.e < 360)
            s = S()
            s.ra = ra
            exec(code, dict(core.BUILTINS), dict(source=s))
            c.oblige('normalise:0 <= ra < 360 for ra in (-360, 360)', z3.And(core.lift(s.ra) >= 0, core.lift(s.ra) < 360))
            return dict()
        st, res = explore(h_ra)
        rep.stats(st)
        collect(rep, res, 'K-normalise')
    rep.end_kernel()


def normalise_oracle(w):
    """the real fix_shape + pa_limit on concrete values"""
    sf = loader.real('source_finder')

    class S:
        pass
    cands = [w] + [dict(a=3.0, b=2.0, pa=p, err_a=0.1, err_b=0.2) for p in (90.0, -90.0, 270.0, -270.0, 450.0, 95.0, -180.0, 0.0, 89.999)] + [dict(a=2.0, b=3.0, pa=p, err_a=0.1, err_b=0.2) for p in (0.0, 45.0, 90.0, -135.0)]
    for v in cands:
        if not v or v.get('a', 0) <= 0 or v.get('b', 0) <= 0:
            continue
        s = S()
        s.a, s.b, s.pa, s.err_a, s.err_b = v['a'], v['b'], v.get('pa', 0.0), v.get('err_a', 0.1), v.get('err_b', 0.2)
        sf.fix_shape(s)
        out = sf.pa_limit(s.pa)
        swapped = v['a'] < v['b']
        want = v.get('pa', 0.0) + (90 if swapped else 0)
        if not (-90 < out <= 90):
            return True, 'pa-range', 'pa_limit(fix_shape(a=%(a)r, b=%(b)r, pa=%(pa)r))' % v + ' = %r is outside (-90, 90]' % out
        if abs(((out - want + 90) % 180) - 90) > 1e-9:
            return True, 'pa-ellipse', 'pa %r for input %r (not the same ellipse)' % (out, v)
        if not (s.a >= s.b) or sorted([s.a, s.b]) != sorted([v['a'], v['b']]) or (swapped and (s.err_a, s.err_b) != (v.get('err_b', 0.2), v.get('err_a', 0.1))):
            return True, 'axes', 'fix_shape(%r) gave a=%r b=%r err_a=%r err_b=%r' % (v, s.a, s.b, s.err_a, s.err_b)
    return False, None, None


def collect_normalise(rep, res):
    done = False
    for r in res:
        for ob in r['obligations']:
            rep.count(ob['result'], ob['name'])
            if ob['result'] == 'sat' and not done:
                w = ob.get('normalise_witness') or {}
                bad, cls, detail = normalise_oracle(w)
                if rep.finding('C03/K-normalise/%s' % (cls or ob['name'].split(':')[-1]), dict(kind='normalise', values=w), detail or ob['name'], reproduced=bad) != 'not-reproduced':
                    done = True
    if res:
        rep.sample(dict(kernel='K-normalise', paths=len(res), obligations=[(o['name'].split(':', 1)[-1][:80], o['result']) for o in res[0]['obligations']][:8]))


# ------------------------------------------------------------------ K-errors
VARY = {'all': dict(amp=1, xo=1, yo=1, sx=1, sy=1, theta=1), 'stage1': dict(amp=1, xo=0, yo=0, sx=0, sy=0, theta=0), 'stage2': dict(amp=1, xo=1, yo=1, sx=0, sy=0, theta=0)}
ERRS = ['err_peak_flux', 'err_a', 'err_b', 'err_pa', 'err_ra', 'err_dec', 'err_int_flux']


def h_errors(mods, varyname, bad_param, bad_kind):
    fit = mods['fitting']

    def h(c):
        S = r2c.setup(c, mods, ncomp=1)
        model, helper, V = S['model'], S['helper'], S['V']
        for p, v in VARY[varyname].items():
            model['c0_' + p].vary = bool(v)
        if bad_param:
            if bad_kind == 'nan':
                model['c0_' + bad_param].stderr = float('nan')
            else:
                e = real('neg_' + bad_param)
                c.assume(e.e < 0)
                model['c0_' + bad_param].stderr = e

        class Src:
            pass
        s = Src()
        s.source, s.flags = 0, 0
        s.peak_flux, s.a, s.b, s.pa, s.int_flux = real('peak'), real('A'), real('B'), real('PA'), real('intf')
        c.assume(s.peak_flux.e != 0)
        c.assume(s.a.e > 0)
        c.assume(s.b.e > 0)
        # the geometry is not the subject here: distances are arbitrary non-negative reals, bearings arbitrary angles,
        # sky positions arbitrary finite values (so the claims hold for every WCS)
        cnt = [0]

        def fresh(lo=None, hi=None):
            cnt[0] += 1
            v = real('g%d' % cnt[0])
            if lo is not None:
                c.assume(v.e >= lo)
            if hi is not None:
                c.assume(v.e <= hi)
            return v
        fit.gcd = lambda *a: fresh(0)
        fit.bear = lambda *a: fresh(-180, 180)
        helper.pix2sky = lambda p: [fresh(0, 360), fresh(-90, 90)]
        fit.errors(s, model, helper)
        tag = 'errors[vary=%s,%s stderr %s]' % (varyname, bad_param or 'no', bad_kind or 'bad')
        for nm in ERRS:
            v = getattr(s, nm, None)
            if isinstance(v, SN):
                c.oblige(tag + ':%s is >= 0 or exactly -1' % nm, z3.Or(v.e == -1, v.e >= 0), timeout_ms=30000)
            else:
                okv = isinstance(v, (int, float)) and v == v and (v == -1 or v >= 0) and abs(v) != float('inf')
                c.oblige(tag + ':%s is >= 0 and finite or exactly -1' % nm, z3.BoolVal(bool(okv)))
        # parameters that were not free report -1
        fixed = [p for p, v in VARY[varyname].items() if not v]
        exp = {'xo': ['err_ra', 'err_dec'], 'yo': ['err_ra', 'err_dec'], 'sx': ['err_a', 'err_b'], 'sy': ['err_a', 'err_b'], 'theta': ['err_pa']}
        for p in fixed:
            for nm in exp.get(p, []):
                v = getattr(s, nm)
                c.oblige(tag + ':%s == -1 when %s was not free' % (nm, p), (core.lift(v) == -1) if isinstance(v, SN) else z3.BoolVal(v == -1))
        return dict()
    return h


def errors_oracle():
    """real covar_errors + errors on a (nearly) degenerate two-component model: uncertainties must be >0 finite or -1"""
    import warnings
    import lmfit
    from astropy.io import fits
    fit = loader.real('fitting')
    wh = loader.real('wcs_helpers')
    models = loader.real('models')
    hdr = fits.Header()
    hdr['NAXIS'] = 2
    hdr['NAXIS1'] = hdr['NAXIS2'] = 12
    hdr['CTYPE1'], hdr['CTYPE2'] = 'RA---SIN', 'DEC--SIN'
    hdr['CRVAL1'], hdr['CRVAL2'] = 10., -20.
    hdr['CRPIX1'] = hdr['CRPIX2'] = 6.
    hdr['CDELT1'], hdr['CDELT2'] = -0.01, 0.01
    hdr['BMAJ'] = hdr['BMIN'] = 0.03
    hdr['BPA'] = 0.
    helper = wh.WCSHelper.from_header(hdr)
    data = real_np.zeros((12, 12))
    with warnings.catch_warnings():
        warnings.simplefilter('ignore')
        for shift in (0.0, 1e-9, 1e-5, 1e-3):
            p = lmfit.Parameters()
            p.add('components', value=2, vary=False)
            for i, x0 in enumerate((5.0, 5.0 + shift)):
                for n, v in (('amp', 2.0), ('xo', x0), ('yo', 6.0), ('sx', 1.5), ('sy', 1.2), ('theta', 10.0)):
                    p.add('c%d_%s' % (i, n), value=v, vary=True)
                p.add('c%d_flags' % i, value=0, vary=False)
            try:
                out = fit.covar_errors(p, data, errs=1.0, B=None)
                for j in range(2):
                    for sign in (1, -1):                    # sources of either sign (negative ones carry negative fluxes)
                        s = models.ComponentSource()
                        s.source, s.flags, s.peak_flux, s.a, s.b, s.pa, s.int_flux = j, 0, sign * 2.0, 100., 80., 10., sign * 3.0
                        fit.errors(s, out, helper)
                        for nm in ERRS:
                            v = getattr(s, nm)
                            if v is None or not real_np.isfinite(v) or (v < 0 and v != -1):
                                return True, 'uncertainty-not-positive-or-marker', 'two components %g px apart, flux sign %+d: %s = %r (must be > 0 and finite, or exactly -1)' % (shift, sign, nm, v)
            except Exception as e:
                return True, 'raises-%s' % type(e).__name__, 'errors() on a degenerate model raised %r' % (e,)
    return False, None, None


# ------------------------------------------------------------------ K-rows
def h_rows(mods):
    def h(c):
        S = r2c.setup(c, mods, ncomp=2)
        sf = S['sf']
        sf.fix_shape = lambda source: None
        sf.pa_limit = lambda pa: pa
        f0, f1, isf = [core.integer(n) for n in ('flags0', 'flags1', 'isflags')]
        for f in (f0, f1, isf):
            c.assume(f.e >= 0)
            c.assume(f.e <= ALLBITS)
        # bitwise or of symbolic words is not linear: enumerate the model flags concretely instead
        return None
    return h


def h_rows_concrete(mods, mf0, mf1, isflags):
    def h(c):
        S = r2c.setup(c, mods, ncomp=2)
        sf = S['sf']
        sf.fix_shape = lambda source: None
        sf.pa_limit = lambda pa: pa
        S['model']['c0_flags'].value = mf0
        S['model']['c1_flags'].value = float(mf1)        # lmfit hands flag words back as floats
        isl = mods['models'].IslandFittingData(5, i=None, scalars=(5, 4, None), offsets=(2, 12, 3, 13), doislandflux=False)
        srcs = S['finder'].result_to_components(r2c.Res(), S['model'], isl, isflags)
        tag = 'rows[model flags %d,%d island flags %d]' % (mf0, mf1, isflags)
        c.oblige(tag + ':one row per component, numbered 0..n-1, island number kept', z3.BoolVal([(s.island, s.source) for s in srcs] == [(5, 0), (5, 1)]))
        fl = S['fl']
        pa_, pb_ = S['psf']
        for j, s in enumerate(srcs):
            want = isflags | (mf0, mf1)[j]
            c.oblige(tag + ':component %d flags == island flags | model flags, documented bits only' % j, z3.BoolVal(isinstance(s.flags, int) and s.flags == want and (s.flags & ~ALLBITS) == 0))
            c.oblige(tag + ':component %d has a uuid of its own' % j, z3.BoolVal(bool(getattr(s, 'uuid', None)) and all(s.uuid != o.uuid for o in srcs if o is not s)))
            r2c.ident(c, tag + ':component %d int_flux == peak*a*b/(psf_a*psf_b)' % j, core.lift(s.int_flux), core.lift(s.peak_flux) * (s.a.e * s.b.e) / ((fl.k.e * pa_.e * 3600) * (fl.k.e * pb_.e * 3600)))
        return dict()
    return h


class SymIndexBox(real_np.ndarray):
    """object image whose reads at a symbolic position return a fresh symbol (the component rows look up bkg/rms at the
    rounded fitted position), concrete reads and slices behave as numpy"""
    _n = [0]

    def __getitem__(self, key):
        ks = key if isinstance(key, tuple) else (key,)
        if any(isinstance(k, SN) for k in ks):
            SymIndexBox._n[0] += 1
            return real('img_at_%d' % SymIndexBox._n[0])
        return real_np.ndarray.__getitem__(self, key)


def h_islandrow(mods, shape, blank):
    """the real result_to_components with doislandflux=True: the island row against the island's own pixels"""
    def h(c):
        S = r2c.setup(c, mods, ncomp=2)
        sf = S['sf']
        sf.fix_shape = lambda source: None
        sf.pa_limit = lambda pa: pa
        R, C = shape
        idata = real_np.empty(shape, dtype=object)
        rms = real_np.empty((64, 64), dtype=object)
        rms[...] = 1
        bkg = real_np.zeros((64, 64), dtype=object)
        xmin, ymin = 10, 20
        oc = real('outerclip')
        c.assume(oc.e > 0)
        for i in range(R):
            for j in range(C):
                idata[i, j] = float('nan') if (i, j) in blank else real('px_%d_%d' % (i, j))
                rms[xmin + i, ymin + j] = real('rms_%d_%d' % (i, j))
                c.assume(rms[xmin + i, ymin + j].e > 0)
        gd = S['finder'].global_data
        SymIndexBox._n[0] = 0
        gd.rmsimg, gd.bkgimg = rms.view(SymIndexBox), bkg.view(SymIndexBox)

        class MS:
            def __init__(self, data):
                self.perimeter = []
        sf.MarchingSquares = MS
        sf.erf = lambda x: real('erf_value')
        S['helper'].get_beamarea_deg2 = lambda ra, dec: real('beam_deg2')
        # the geometry is not the subject here (C16 / K-rows): positions, shapes and distances are arbitrary values
        cnt = [0]

        def fresh(lo=None, hi=None):
            cnt[0] += 1
            v = real('geo%d' % cnt[0])
            if lo is not None:
                c.assume(v.e >= lo)
            if hi is not None:
                c.assume(v.e <= hi)
            return v
        S['helper'].pix2sky = lambda p: [fresh(0, 359), fresh(-90, 90)]
        S['helper'].pix2sky_ellipse = lambda pos, sx, sy, th: (fresh(0, 359), fresh(-90, 90), fresh(0), fresh(0), fresh(-90, 90))
        S['helper'].get_beamarea_pix = lambda ra, dec: fresh(1)
        sf.gcd = lambda *a: fresh(0)
        sf.bear = lambda *a: fresh(-180, 180)
        isl = mods['models'].IslandFittingData(7, i=idata, scalars=(real('innerclip'), oc, None), offsets=(xmin, xmin + R, ymin, ymin + C), doislandflux=True)
        # an island handed over by find_islands has at least one pixel above the flood clip
        pre = []
        for i in range(R):
            for j in range(C):
                v = idata[i, j]
                if isinstance(v, SN):
                    pre.append(z3.If(v.e >= 0, v.e, -v.e) - oc.e * rms[xmin + i, ymin + j].e > 0)
        c.assume(z3.Or(pre))
        try:
            srcs = S['finder'].result_to_components(r2c.Res(), S['model'], isl, 0)
        except (core.Unsupported, core.HarnessError, core.Cut, core.Infeasible):
            raise
        except Exception as e:
            c.oblige('island row:result_to_components completes', z3.BoolVal(False), info=repr(e)[:200])
            return dict()
        IslandSource = mods['models'].IslandSource
        isls = [s_ for s_ in srcs if isinstance(s_, IslandSource)]
        comps = [s_ for s_ in srcs if not isinstance(s_, IslandSource)]
        tag = 'island row[%dx%d%s]' % (R, C, ', one blank' if blank else '')
        c.oblige(tag + ':exactly one island row after the component rows', z3.BoolVal(len(isls) == 1 and len(comps) == 2 and srcs[-1] is isls[0]))
        if len(isls) != 1:
            return dict()
        I_ = isls[0]
        L = core.lift
        sel = {}
        for i in range(R):
            for j in range(C):
                v = idata[i, j]
                if isinstance(v, SN):
                    a_ = z3.If(v.e >= 0, v.e, -v.e)
                    sel[i, j] = a_ - oc.e * rms[xmin + i, ymin + j].e > 0
        npx = z3.Sum([z3.If(b, 1, 0) for b in sel.values()])
        c.oblige(tag + ':island number and component count', z3.BoolVal(I_.island == 7 and I_.components == 2))
        c.oblige(tag + ':pixels == number of island pixels above the flood clip', L(I_.pixels) == npx)
        c.oblige(tag + ':extent and widths are those of the island box', z3.BoolVal(list(I_.extent) == [xmin, xmin + R, ymin, ymin + C] and (I_.x_width, I_.y_width) == (R, C)))
        pk = I_.peak_flux
        if isinstance(pk, SN):
            anysel = z3.Or(list(sel.values()))
            allneg = z3.And([z3.Implies(b, idata[k].e < 0) for k, b in sel.items()])
            c.oblige(tag + ':peak_flux is the extreme selected pixel (max, or min when every selected pixel is negative)',
                     z3.And([z3.Implies(b, z3.If(allneg, pk.e <= idata[k].e, pk.e >= idata[k].e)) for k, b in sel.items()] + [z3.Or([z3.And(b, pk.e == idata[k].e) for k, b in sel.items()])]), assume=[anysel])
        return dict(peak_symbolic=isinstance(pk, SN))
    return h


def islandrow_oracle():
    for ic, oc in ((20, 15), (10, 16)):
        bad, cls, detail = islandrow_oracle_1(ic, oc)
        if bad:
            return bad, cls, detail + ' [innerclip %s, outerclip %s]' % (ic, oc)
    return False, None, None


def islandrow_oracle_1(innerclip=20, outerclip=15):
    """real blind run with island rows on a small noise-free field: every island row against an independent flood fill.
    An outer clip above the inner clip is clamped to it (as documented in the code): detection and summary use min(inner, outer)"""
    eff = min(innerclip, outerclip)
    d = tempfile.mkdtemp(prefix='c03i_', dir='/var/tmp')
    try:
        sfm = loader.real('source_finder')
        models = loader.real('models')
        from astropy.io import fits
        fn, truth, hdr = make_field(d, 9, seed=3)
        img = fits.getdata(fn)
        f = sfm.SourceFinder(log=logging.getLogger('c03'))
        out = f.find_sources_in_image(fn, rms=0.05, bkg=0.0, cores=1, innerclip=innerclip, outerclip=outerclip, doislandflux=True)
        isls = [s_ for s_ in out if isinstance(s_, models.IslandSource)]
        comps = [s_ for s_ in out if isinstance(s_, models.ComponentSource)]
        if len(isls) != 9:
            return True, 'island-row-count', '%d island rows for 9 isolated sources' % len(isls)
        for I_ in isls:
            mine = [c_ for c_ in comps if c_.island == I_.island]
            if I_.components != len(mine):
                return True, 'island-components', 'island %d row says %d components, catalogue has %d' % (I_.island, I_.components, len(mine))
            x0, x1, y0, y1 = [int(v) for v in I_.extent]
            box = img[x0:x1, y0:y1]
            sel = abs(box) > eff * 0.05
            if int(I_.pixels) != int(sel.sum()):
                return True, 'island-pixels', 'island %d row says %d pixels, %d pixels of its box exceed the flood clip' % (I_.island, I_.pixels, int(sel.sum()))
            if abs(I_.peak_flux - box[sel].max()) > 1e-9 * abs(box[sel].max()):
                return True, 'island-peak', 'island %d row peak %r, brightest pixel %r' % (I_.island, I_.peak_flux, box[sel].max())
            if (I_.x_width, I_.y_width) != box.shape:
                return True, 'island-extent', 'island %d widths %s for a box of shape %s' % (I_.island, (I_.x_width, I_.y_width), box.shape)
            # the flood-fill bounding box of the source equals the extent
            rr, cc = real_np.where(abs(img) > eff * 0.05)
            near = [(r_, c_) for r_, c_ in zip(rr, cc) if x0 - 3 <= r_ < x1 + 3 and y0 - 3 <= c_ < y1 + 3]
            if near and (min(r_ for r_, _ in near), max(r_ for r_, _ in near) + 1, min(c_ for _, c_ in near), max(c_ for _, c_ in near) + 1) != (x0, x1, y0, y1):
                return True, 'island-extent', 'island %d extent %s but its pixels span rows %d..%d cols %d..%d' % (I_.island, I_.extent, min(r_ for r_, _ in near), max(r_ for r_, _ in near) + 1, min(c_ for _, c_ in near), max(c_ for _, c_ in near) + 1)
        return False, None, None
    except Exception as e:
        return True, 'raises-%s' % type(e).__name__, repr(e)[:300]
    finally:
        shutil.rmtree(d, ignore_errors=True)


def h_resize_markers(cl, mode):
    """input catalogues for priorized fitting pass through cluster.resize and their uncertainties are copied into the output
    when a stage does not fit them: a "not measured" marker (-1) or a positive uncertainty must still be one afterwards"""
    def h(c):
        class S:
            pass
        s_ = S()
        s_.ra, s_.dec, s_.a, s_.b, s_.pa = real('ra'), real('dec'), real('a'), real('b'), real('pa')
        s_.psf_a, s_.psf_b, s_.psf_pa = real('psf_a'), real('psf_b'), real('psf_pa')
        for v in (s_.a, s_.b, s_.psf_a, s_.psf_b):
            c.assume(v.e > 0)
        s_.island, s_.source = 0, 0
        e_ = real('err_in')
        c.assume(e_.e > 0)
        for nm in ERRS:
            setattr(s_, nm, -1 if mode == 'marker' else e_)
        ratio = real('ratio')
        c.assume(ratio.e >= 1)
        cl.resize([s_], ratio=ratio)
        tag = 'resize[%s uncertainties]' % ('masked (-1)' if mode == 'marker' else 'positive')
        for nm in ERRS:
            v = getattr(s_, nm)
            c.oblige(tag + ':%s is still -1 or positive and finite' % nm, (z3.Or(core.lift(v) == -1, core.lift(v) > 0)) if isinstance(v, SN) else z3.BoolVal(isinstance(v, (int, float)) and (v == -1 or (v > 0 and v == v and v != float('inf')))), timeout_ms=20000)
        return dict()
    return h


def resize_markers_oracle():
    cl = loader.real('cluster')
    models = loader.real('models')
    for ratio in (1.5, 3.0, 1.0):
        s_ = models.ComponentSource()
        s_.a, s_.b, s_.pa, s_.psf_a, s_.psf_b, s_.psf_pa = 40.0, 30.0, 10.0, 25.0, 20.0, 0.0
        for nm in ERRS:
            setattr(s_, nm, -1)
        out = cl.resize([s_], ratio=ratio)
        for o in out:
            for nm in ERRS:
                v = getattr(o, nm)
                if not (v == -1 or (v > 0 and real_np.isfinite(v))):
                    return True, 'marker-rescaled', 'resize(ratio=%s) turned the "not measured" marker %s = -1 into %r (priorized fitting copies it into the output when the shape is not refit)' % (ratio, nm, v)
    return False, None, None


def rows_oracle():
    """the real result_to_components on a real two-component lmfit model: numbering, distinct uuids, integer flag words,
    sexagesimal strings that parse back to the decimal position"""
    import lmfit
    from astropy.io import fits
    from checks import C17
    sfm = loader.real('source_finder')
    wh = loader.real('wcs_helpers')
    models = loader.real('models')
    at = loader.real('angle_tools')
    hdr = fits.Header()
    hdr['NAXIS'] = 2
    hdr['NAXIS1'] = hdr['NAXIS2'] = 40
    hdr['CTYPE1'], hdr['CTYPE2'] = 'RA---SIN', 'DEC--SIN'
    hdr['CRVAL1'], hdr['CRVAL2'] = 10., -20.
    hdr['CRPIX1'] = hdr['CRPIX2'] = 20.
    hdr['CDELT1'], hdr['CDELT2'] = -0.01, 0.01
    hdr['BMAJ'] = hdr['BMIN'] = 0.03
    hdr['BPA'] = 0.
    helper = wh.WCSHelper.from_header(hdr)
    finder = sfm.SourceFinder(log=logging.getLogger('c03-oracle'))
    gd = finder.global_data
    gd.wcshelper = gd.psfhelper = helper
    gd.rmsimg = real_np.ones((40, 40))
    gd.bkgimg = real_np.zeros((40, 40))
    gd.img = real_np.zeros((40, 40))
    gd.blank = False
    m = lmfit.Parameters()
    m.add('components', value=2, vary=False)
    for j, (xo, yo) in enumerate(((2.2, 3.1), (6.4, 5.2))):
        for k, v in dict(amp=5.0 - j, xo=xo, yo=yo, sx=1.6, sy=1.2, theta=20.0 + 30 * j).items():
            m.add('c%d_%s' % (j, k), value=v, vary=True)
            m['c%d_%s' % (j, k)].stderr = 0.05
        m.add('c%d_flags' % j, value=float(j), vary=False)

    class Res:
        residual = real_np.zeros(10)
    isl = models.IslandFittingData(5, i=real_np.ones((10, 10)), scalars=(5, 4, None), offsets=(10, 20, 12, 22), doislandflux=False)
    try:
        srcs = finder.result_to_components(Res(), m, isl, 0)
    except Exception as e:
        return True, 'raises-%s' % type(e).__name__, repr(e)[:300]
    comps = [s for s in srcs if isinstance(s, models.ComponentSource)]
    if [(s.island, s.source) for s in comps] != [(5, 0), (5, 1)]:
        return True, 'numbering', 'components labelled %s' % [(s.island, s.source) for s in comps]
    if len(set(s.uuid for s in comps)) != len(comps):
        return True, 'uuid-not-unique', 'two components of one island share the uuid %s' % comps[0].uuid
    for s in comps:
        if not isinstance(s.flags, (int, real_np.integer)):
            return True, 'flags-type', 'flags %r' % (s.flags,)
        if abs(at.dec2dec(s.dec_str) - s.dec) > 0.006 / 3600 or min(abs(at.ra2dec(s.ra_str) - s.ra), abs(abs(at.ra2dec(s.ra_str) - s.ra) - 360)) > 15 * 0.006 / 3600:
            return True, 'sexagesimal', '%s %s for (%r, %r)' % (s.ra_str, s.dec_str, s.ra, s.dec)
    return False, None, None


def k_flags(rep):
    rep.kernel('K-flags', functions=['AegeanTools/flags.py', F, FF], bounds='syntactic: every flags.X reference in source_finder.py / fitting.py / models.py', assumes=['flag words are only built by or-ing these constants'])
    flags = loader.real('flags')
    names = [n for n in dir(flags) if n.isupper()]
    vals = sorted(getattr(flags, n) for n in names)
    ok = vals == [1, 2, 4, 8, 16, 32, 64]
    rep.count('unsat' if ok else 'sat', 'flags:seven distinct single-bit constants')
    used = set()
    for rel in (F, FF, 'AegeanTools/models.py'):
        for n in ast.walk(ast.parse(loader.source(rel))):
            if isinstance(n, ast.Attribute) and isinstance(n.value, ast.Name) and n.value.id == 'flags' and n.attr.isupper():
                used.add(n.attr)
    ok2 = used <= set(names)
    rep.count('unsat' if ok2 else 'sat', 'flags:only documented flags are referenced')
    rep.sample(dict(kernel='K-flags', constants={n: getattr(flags, n) for n in names}, referenced=sorted(used)))
    if not ok or not ok2:
        rep.finding('C03/K-flags/undocumented-bit', dict(kind='flags'), 'flag constants %s, referenced %s' % (vals, sorted(used)), reproduced=True)
    rep.end_kernel()


# ------------------------------------------------------------------ replay oracle: real blind + priorized runs
def make_field(d, nsrc=25, seed=1, beam=(4.0, 4.0)):
    """noise-free image of isolated Gaussians on a grid (real WCS); returns (filename, truth list)"""
    from astropy.io import fits
    wh = loader.real('wcs_helpers')
    import random
    rng = random.Random(seed)
    side = int(math.ceil(math.sqrt(nsrc)))
    sep = 28
    N = sep * side + 20
    hdr = fits.Header()
    hdr['NAXIS'] = 2
    hdr['NAXIS1'] = hdr['NAXIS2'] = N
    hdr['CTYPE1'], hdr['CTYPE2'] = 'RA---SIN', 'DEC--SIN'
    hdr['CRVAL1'], hdr['CRVAL2'] = 40.0, -30.0
    hdr['CRPIX1'] = hdr['CRPIX2'] = N / 2
    scale = 10.0 / 3600
    hdr['CDELT1'], hdr['CDELT2'] = -scale, scale
    hdr['BMAJ'], hdr['BMIN'], hdr['BPA'] = beam[0] * scale, beam[1] * scale, 0.0
    x, y = real_np.mgrid[0:N, 0:N].astype(float)
    img = real_np.zeros((N, N))
    truth = []
    s = 2 * math.sqrt(2 * math.log(2))
    for k in range(nsrc):
        r0 = 20 + sep * (k // side) + rng.uniform(-0.5, 0.5)
        c0 = 20 + sep * (k % side) + rng.uniform(-0.5, 0.5)
        fwx, fwy, th = rng.uniform(4.0, 6.5), rng.uniform(4.0, 4.4), rng.uniform(-80, 80)
        peak = rng.uniform(5, 20)
        t = math.radians(th)
        u = (x - r0) * math.cos(t) + (y - c0) * math.sin(t)
        v = (x - r0) * math.sin(t) - (y - c0) * math.cos(t)
        img += peak * real_np.exp(-0.5 * ((u / (fwx / s)) ** 2 + (v / (fwy / s)) ** 2))
        truth.append(dict(row=r0, col=c0, peak=peak, fwx=fwx, fwy=fwy, theta=th))
    fn = os.path.join(d, 'field.fits')
    fits.PrimaryHDU(img, header=hdr).writeto(fn, overwrite=True)
    return fn, truth, hdr


def row_invariants(srcs, what):
    flags = loader.real('flags')
    at = loader.real('angle_tools')
    seen = set()
    uu = set()
    for s in srcs:
        key = (s.island, s.source)
        if key in seen:
            return True, 'duplicate-island-source', '%s: (island, source) = %s appears twice among %d components' % (what, key, len(srcs))
        seen.add(key)
        if getattr(s, 'uuid', None) in uu and s.uuid:
            return True, 'duplicate-uuid', '%s: uuid %s twice' % (what, s.uuid)
        uu.add(getattr(s, 'uuid', None))
        if not (s.a >= s.b > 0) or not (-90 < s.pa <= 90) or not (0 <= s.ra < 360) or abs(s.dec) > 90:
            return True, 'row-range', '%s: a=%r b=%r pa=%r ra=%r dec=%r' % (what, s.a, s.b, s.pa, s.ra, s.dec)
        if s.flags & ~ALLBITS:
            return True, 'flag-bits', '%s: flags %r' % (what, s.flags)
        if not (s.flags & (flags.NOTFIT | flags.FITERR)):
            for nm in ERRS:
                v = getattr(s, nm)
                if v is None or not real_np.isfinite(v) or (v <= 0 and v != -1):
                    return True, 'uncertainty-not-positive-or-marker', '%s: %s = %r for component %s' % (what, nm, v, key)
        if abs(s.int_flux - s.peak_flux * s.a * s.b / (s.psf_a * s.psf_b)) > 0.01 * abs(s.int_flux):
            return True, 'int-flux', '%s: int_flux %r vs peak*a*b/(psf_a*psf_b) %r' % (what, s.int_flux, s.peak_flux * s.a * s.b / (s.psf_a * s.psf_b))
        if abs(at.dec2dec(s.dec_str) - s.dec) > 0.006 / 3600 or abs(((at.ra2dec(s.ra_str) - s.ra + 180) % 360) - 180) > 0.08 / 3600:
            return True, 'sexagesimal', '%s: %s %s vs %r %r' % (what, s.ra_str, s.dec_str, s.ra, s.dec)
    by = {}
    for s in srcs:
        by.setdefault(s.island, []).append(s.source)
    for isl, nums in by.items():
        if sorted(nums) != list(range(len(nums))):
            return True, 'component-numbering', '%s: island %s has components %s' % (what, isl, sorted(nums))
    return False, None, None


def priorized_oracle(nsrc=25, stages=(1,), blank=False):
    """real blind run (twice, must be identical) then real priorized runs over > 20 groups; catalogue row invariants"""
    sfm = loader.real('source_finder')
    d = tempfile.mkdtemp(prefix='c03_', dir='/var/tmp')
    try:
        fn, truth, hdr = make_field(d, nsrc)
        out = []
        for rep_ in range(2):
            f = sfm.SourceFinder(log=logging.getLogger('c03'))
            srcs = f.find_sources_in_image(fn, rms=0.05, bkg=0.0, cores=1, innerclip=20, outerclip=15)
            out.append(srcs)
        if len(out[0]) != nsrc:
            return True, 'blind-count', 'blind finding returned %d components for %d isolated sources' % (len(out[0]), nsrc)
        bad, cls, detail = row_invariants(out[0], 'blind')
        if bad:
            return bad, cls, detail
        cols = ['island', 'source', 'ra', 'dec', 'peak_flux', 'int_flux', 'a', 'b', 'pa', 'flags'] + ERRS
        for a, b in zip(sorted(out[0]), sorted(out[1])):
            for cn in cols:
                if getattr(a, cn) != getattr(b, cn):
                    return True, 'not-reproducible', 'second run differs in %s: %r vs %r' % (cn, getattr(a, cn), getattr(b, cn))
        if blank:
            # one catalogued source of the first batch now sits on blank pixels: it yields no row, the rest must stay consistent
            from astropy.io import fits as _fits
            with _fits.open(fn, mode='update') as hl:
                t0 = truth[3]
                r0, c0 = int(round(t0['row'])), int(round(t0['col']))
                hl[0].data[r0 - 2:r0 + 3, c0 - 2:c0 + 3] = real_np.nan
        for st in stages:
            f = sfm.SourceFinder(log=logging.getLogger('c03'))
            pr = f.priorized_fit_islands(fn, catalogue=out[0], rms=0.05, bkg=0.0, stage=st, cores=1, doregroup=False)
            comps = [s for s in pr if hasattr(s, 'source')]
            bad, cls, detail = row_invariants(comps, 'priorized stage %d over %d sources' % (st, nsrc))
            if bad:
                return bad, cls, detail
            if st == stages[0] and not blank:
                # a chain: the priorized catalogue is itself the input of another priorized run
                f = sfm.SourceFinder(log=logging.getLogger('c03'))
                pr2 = f.priorized_fit_islands(fn, catalogue=comps, rms=0.05, bkg=0.0, stage=st, cores=1, doregroup=False)
                comps2 = [s for s in pr2 if hasattr(s, 'source')]
                bad, cls, detail = row_invariants(comps2, 'priorized stage %d from a priorized catalogue' % st)
                if bad:
                    return bad, cls, detail
        return False, None, None
    except Exception as e:
        return True, 'raises-%s' % type(e).__name__, repr(e)[:300]
    finally:
        shutil.rmtree(d, ignore_errors=True)


def collect(rep, res, kname, replay_fn=None, wit=None):
    done = False
    for r in res:
        for ob in r['obligations']:
            rep.count(ob['result'], ob['name'])
            if ob['result'] == 'sat' and not done:
                if replay_fn is None:
                    bad, cls, detail = priorized_oracle(25)
                    w = dict(kind='priorized', nsrc=25)
                else:
                    bad, cls, detail = replay_fn()
                    w = wit or dict(kind='errors')
                if rep.finding('C03/%s/%s' % (kname, cls or ob['name'].split(':')[-1]), w, detail or ob['name'], reproduced=bad) != 'not-reproduced':
                    done = True
    if res:
        rep.sample(dict(kernel=kname, paths=len(res), obligations=[(o['name'].split(':', 1)[-1][:80], o['result']) for o in res[0]['obligations']][:8]))


def run(rep):
    thorough = rep.tier == 'thorough'
    mods = r2c.sym_sf()
    rep.assume('floats as reals', 'conformal first-order WCS for the uncertainty conversion')
    k_numbering(rep)
    k_normalise(rep, mods)
    rep.kernel('K-errors', functions=[FF + ':errors'], bounds='one component; free-parameter patterns all / stage 1 / stage 2; standard errors all positive, or one of them NaN or negative (what covar_errors emits for a singular or indefinite Fisher matrix)',
               stubs=['pix2sky -> arbitrary finite positions, gcd -> arbitrary non-negative distance, bear -> arbitrary angle (claims hold for every WCS)', 'np.isfinite -> proxy'], outside=['exactly zero uncertainties (measure-zero alignments) are accepted as >= 0'])
    plans = []
    for vn in VARY:
        plans.append((h_errors(mods, vn, None, None), dict(wall_s=600)))
        for bp in ('amp', 'xo', 'sx', 'theta'):
            for bk in ('nan', 'neg'):
                plans.append((h_errors(mods, vn, bp, bk), dict(wall_s=600)))
    for st, res in core.explore_many(plans, workers=16):
        rep.stats(st)
        collect(rep, res, 'K-errors', errors_oracle, dict(kind='errors'))
    rep.end_kernel()
    rep.kernel('K-rows', functions=[F + ':SourceFinder.result_to_components'], bounds='two fitted components with symbolic parameters; model flag words and island flags over {0, FIXED2PSF, NOTFIT|FITERR, all seven bits}',
               stubs=['as C01 K-backward'])
    for mf0, mf1, isf in ((0, 0, 0), (4, 0, 1), (16, 4, 2), (0, 127, 64)):
        st, res = explore(h_rows_concrete(mods, mf0, mf1, isf), wall_s=600)
        rep.stats(st)
        collect(rep, res, 'K-rows', rows_oracle, dict(kind='rows'))
    bad, cls, detail = rows_oracle()
    rep.validated_runs(1)
    if bad:
        rep.finding('C03/K-rows/%s' % cls, dict(kind='rows'), detail)
    rep.end_kernel()
    rep.kernel('K-resize-markers', functions=['AegeanTools/cluster.py:resize'], bounds='one source with symbolic sizes and psf sizes, symbolic ratio >= 1; all uncertainties -1, or all positive',
               stubs=['np.sqrt -> radical'])
    clm = loader.load_private(['cluster'])['cluster']
    loader.patch(clm, builtins=False)
    for mode in ('marker', 'positive'):
        st, res = explore(h_resize_markers(clm, mode))
        rep.stats(st)
        collect(rep, res, 'K-resize-markers', resize_markers_oracle, dict(kind='resize-markers'))
    bad, cls, detail = resize_markers_oracle()
    rep.validated_runs(3)
    if bad:
        rep.finding('C03/K-resize-markers/%s' % cls, dict(kind='resize-markers'), detail)
    rep.end_kernel()
    rep.kernel('K-islandrow', functions=[F + ':SourceFinder.result_to_components'], bounds='islands 1x2, 2x2 (thorough: 2x3 with one blank pixel) of symbolic pixels of any sign, symbolic noise and flood clip, two components',
               stubs=['as K-rows; MarchingSquares -> empty contour, erf -> symbol'], outside=['contour, angular size, area, eta of the island row'])
    idone = False
    ishapes = [((1, 2), ()), ((2, 2), ())] + ([((2, 3), ((0, 2),))] if thorough else [])
    for sh, bl in ishapes:
        st, res = explore(h_islandrow(mods, sh, bl), workers=16, wall_s=(900 if thorough else 240))
        rep.stats(st)
        for r in res:
            for ob in r['obligations']:
                rep.count(ob['result'], ob['name'])
                if ob['result'] == 'sat' and not idone:
                    bad, cls, detail = islandrow_oracle()
                    if rep.finding('C03/K-islandrow/%s' % (cls or ob['name'].split(':')[-1]), dict(kind='islandrow'), detail or ob['name'], reproduced=bad) != 'not-reproduced':
                        idone = True
        if res:
            rep.sample(dict(kernel='K-islandrow', paths=len(res), obligations=[(o['name'].split(':')[-1], o['result']) for o in res[0]['obligations']][:8]))
    bad, cls, detail = islandrow_oracle()
    rep.validated_runs(1)
    if bad:
        rep.finding('C03/K-islandrow/%s' % cls, dict(kind='islandrow'), detail)
    rep.end_kernel()
    # the strings of every row: the real dec2dms / dec2hms (the kernel of C17, run here on the same code)
    from checks import C17
    C17.run_sexa(rep, C17.sym_at(), pid='C03')
    k_flags(rep)
    rep.kernel('K-replay-oracle', functions=[F + ':SourceFinder.find_sources_in_image', F + ':SourceFinder.priorized_fit_islands'], bounds='a noise-free 25-source field: blind run twice (identical), priorized stage 1 over 25 islands (> 20: two groups), every row invariant of the statement',
               assumes=['concrete executions at the level of the property statement'])
    for kw in (dict(nsrc=25, stages=(1, 3) if thorough else (1,)), dict(nsrc=30, stages=(1,), blank=True)):
        bad, cls, detail = priorized_oracle(**kw)
        rep.validated_runs(3)
        if bad:
            rep.finding('C03/K-numbering/%s' % cls if ('duplicate' in cls or 'numbering' in cls) else 'C03/K-rows/%s' % cls, dict(kind='priorized', nsrc=kw['nsrc'], blank=bool(kw.get('blank'))), detail)
    bad, cls, detail = errors_oracle()
    rep.validated_runs(4)
    if bad:
        rep.finding('C03/K-errors/%s' % cls, dict(kind='errors'), detail, kernel='K-errors')
    rep.end_kernel()
    rep.not_decided += ['re-running on identical input yields an identical catalogue (checked on one field only)', 'island rows: contour, angular size, area (K-islandrow decides count, pixels, peak, extent)',
                        'completion on every valid image (flagging rather than aborting)', 'sexagesimal strings: dec2dms / dec2hms decided here by the C17 kernel; that every writer uses them is not decided']


def replay(w):
    wit = w['witness']
    if wit.get('kind') == 'errors':
        bad, cls, detail = errors_oracle()
    elif wit.get('kind') == 'normalise':
        bad, cls, detail = normalise_oracle(wit.get('values') or {})
    elif wit.get('kind') == 'rows':
        bad, cls, detail = rows_oracle()
    elif wit.get('kind') == 'resize-markers':
        bad, cls, detail = resize_markers_oracle()
    elif wit.get('kind') == 'islandrow':
        bad, cls, detail = islandrow_oracle()
    elif wit.get('kind') in ('dms', 'hms'):
        from checks import C17
        bad, cls, detail = C17.oracle_sexa(wit['kind'], float(wit['x']))
    else:
        bad, cls, detail = priorized_oracle(int(wit.get('nsrc', 25)), blank=bool(wit.get('blank')))
    return bad, '%s: %s' % (cls, detail)


if __name__ == '__main__':
    main(sys.modules[__name__])
