"""C19 regrouping = eps-connected partition of the catalogue, independent of row order (partial: DBSCAN variant, resize).
K-embedding: the real embedding lines of regroup_dbscan on symbolic (ra, dec): chord^2 = 2 - 2 cos(separation)
K-grouping : the real regroup_dbscan with DBSCAN replaced by its min_samples=1 contract over FREE symbolic pair
             distances (every adjacency pattern): partition, connected components, flux ranking, label uniqueness,
             permutation invariance, no other attribute written
K-eps      : the arcmin -> chord conversions sliced from the AeReg command line and priorized_fit_islands
K-resize   : the real cluster.resize(ratio=) on symbolic sizes"""
import itertools
import math
import sys

import numpy as real_np
import z3

from symx import core, loader, nz, slicer
from symx.core import SN, SB, real, angle_deg, explore
from symx.report import main

PID = 'C19'
F = 'AegeanTools/cluster.py'


class Src:
    LOG = []

    def __init__(self, k, attrs):
        object.__setattr__(self, '_k', k)
        for a, v in attrs.items():
            object.__setattr__(self, a, v)

    def __setattr__(self, a, v):
        Src.LOG.append((self._k, a))
        object.__setattr__(self, a, v)

    def __repr__(self):
        return 'S%d' % self._k


def sym_cluster():
    mods = loader.load_private(['angle_tools', 'wcs_helpers', 'cluster'])
    cl = mods['cluster']
    loader.patch(cl, builtins=False)
    return cl


def comps_of(n, adj):
    seen, out = set(), []
    for i in range(n):
        if i in seen:
            continue
        st, comp = [i], []
        seen.add(i)
        while st:
            a = st.pop()
            comp.append(a)
            for b in range(n):
                if b not in seen and adj[min(a, b), max(a, b)]:
                    seen.add(b)
                    st.append(b)
        out.append(sorted(comp))
    return out


def dbscan_contract(order, adjrec):
    """DBSCAN(eps, min_samples=1): every point is a core point, clusters = connected components of d_ij <= eps,
    labelled in order of first member. Distances are FREE symbols d_{i,j} keyed by source identity."""
    class DB:
        def __init__(self, eps=0.5, min_samples=5, **kw):
            self.eps, self.ms = eps, min_samples

        def fit(self, X):
            n = len(order)
            adj = {}
            for a in range(n):
                for b in range(a + 1, n):
                    i, j = sorted((order[a], order[b]))
                    d = real('d_%d_%d' % (i, j))
                    adj[a, b] = bool(d <= self.eps)
            adjrec.append(({(order[a], order[b]) if order[a] < order[b] else (order[b], order[a]): v for (a, b), v in adj.items()}, self.ms, X))
            labels = [-1] * n
            for k, comp in enumerate(comps_of(n, adj)):
                for a in comp:
                    labels[a] = k
            self.labels_ = real_np.array(labels)
            return self
    return DB


def h_grouping(cl, n, perm):
    def h(c):
        Src.LOG = []
        eps = real('eps')
        c.assume(eps.e > 0)
        srcs = [Src(k, dict(ra=real('ra%d' % k), dec=real('dec%d' % k), peak_flux=real('flux%d' % k), island=100 + k, source=7, a=real('a%d' % k), uuid='u%d' % k)) for k in range(n)]
        for i in range(n):
            for j in range(i + 1, n):
                c.assume(real('d_%d_%d' % (i, j)).e >= 0)
        runs = []
        for order in ([list(range(n))] + ([list(perm)] if perm else [])):
            adjrec = []
            cl.DBSCAN = dbscan_contract(order, adjrec)
            cat = [srcs[k] for k in order]
            Src.LOG = []
            groups = cl.regroup_dbscan(cat, eps=eps)
            runs.append((order, groups, adjrec[0], list(Src.LOG), [(s.island, s.source) for s in srcs]))
        order, groups, (adj, ms, X), log, labels = runs[0]
        tag = 'regroup_dbscan[n=%d]' % n
        c.oblige(tag + ':DBSCAN called with min_samples=1 and the chord eps', z3.BoolVal(ms == 1))
        members = [[s._k for s in g] for g in groups]
        flat = sorted(x for g in members for x in g)
        c.oblige(tag + ':every source in exactly one group', z3.BoolVal(flat == list(range(n))))
        full = {}
        for (i, j), v in adj.items():
            full[i, j] = v
        want = comps_of(n, full)
        c.oblige(tag + ':groups are the eps-connected components', z3.BoolVal(sorted(sorted(g) for g in members) == sorted(want)))
        c.oblige(tag + ':only island and source are written', z3.BoolVal(all(a in ('island', 'source') for _, a in log)))
        c.oblige(tag + ':(island, source) labels unique', z3.BoolVal(len(set(labels)) == n))
        okisl = sorted(set(l[0] for l in labels)) == list(range(len(groups))) and all(all(labels[k][0] == gi for k in g) for gi, g in enumerate(members))
        c.oblige(tag + ':island ids are 0..G-1 and shared exactly by group members', z3.BoolVal(bool(okisl)))
        for g in members:
            c.oblige(tag + ':sources numbered 0..m-1 within the group', z3.BoolVal(sorted(labels[k][1] for k in g) == list(range(len(g)))))
            for a in g:
                for b in g:
                    if a != b and labels[a][1] < labels[b][1]:
                        c.oblige(tag + ':numbering by decreasing peak flux', srcs[a].peak_flux.e >= srcs[b].peak_flux.e)
        if len(runs) > 1:
            m2 = [[s._k for s in g] for g in runs[1][1]]
            c.oblige(tag + ':same partition for the permuted catalogue %s' % (list(perm),), z3.BoolVal(sorted(sorted(g) for g in m2) == sorted(sorted(g) for g in members)))
        return dict(groups=members)
    return h


def h_embedding(cl):
    def h(c):
        grabbed = []

        class DB:
            def __init__(self, **kw):
                pass

            def fit(self, X):
                grabbed.append(X)
                raise core.Cut(X)
        cl.DBSCAN = DB
        srcs = [Src(k, dict(ra=angle_deg('ra%d' % k), dec=angle_deg('dec%d' % k), peak_flux=1.0, island=0, source=0)) for k in range(2)]
        try:
            cl.regroup_dbscan(srcs, eps=real('eps'))
        except core.Cut:
            pass
        X = grabbed[0]
        ok = getattr(X, 'shape', None) == (2, 3)
        c.oblige('embedding:X has one 3-vector per source', z3.BoolVal(bool(ok)))
        if not ok:
            return dict()
        d2 = None
        for k in range(3):
            t = (X[0, k] - X[1, k])
            d2 = t * t if d2 is None else d2 + t * t
        cs = lambda a: a.radians()._cs()
        (c0, s0), (c1, s1) = cs(srcs[0].dec), cs(srcs[1].dec)
        (ca0, sa0), (ca1, sa1) = cs(srcs[0].ra), cs(srcs[1].ra)
        dot = c0 * c1 * (ca0 * ca1 + sa0 * sa1) + s0 * s1
        nz.identity(c, 'embedding:|X0 - X1|^2 == 2 - 2 cos(angular separation) (unit vectors of (ra, dec) in degrees)', d2.e, 2 - 2 * dot)
        n2 = X[0, 0] * X[0, 0] + X[0, 1] * X[0, 1] + X[0, 2] * X[0, 2]
        nz.identity(c, 'embedding:unit vectors', n2.e, z3.RealVal(1))
        return dict()
    return h


def h_elliptical(cl, n, decorder, spacing=0.001):
    """the elliptical-distance variant: real regroup_vectorized with the pair distance function replaced by FREE symbolic
    distances (any adjacency pattern), sources at distinct declinations (decorder gives their order), equal RA"""
    def h(c):
        eps = real('eps')
        c.assume(eps.e > 0)
        rec = real_np.rec.fromrecords([(10.0, -5.0 + spacing * decorder[k], 30.0, 20.0, 0.0, float(k)) for k in range(n)], names=['ra', 'dec', 'a', 'b', 'pa', 'peak_flux'])
        adj = {}

        def dist(r, group_recs):
            i = int(r.peak_flux)
            out = []
            for g in real_np.atleast_1d(group_recs):
                j = int(g.peak_flux)
                a, b = sorted((i, j))
                d = real('d_%d_%d' % (a, b))
                out.append(d)
            return real_np.array(out, dtype=object)
        for i in range(n):
            for j in range(i + 1, n):
                c.assume(real('d_%d_%d' % (i, j)).e >= 0)
        groups = cl.regroup_vectorized(rec, eps=eps, far=(1.0 if spacing < 0.1 else None), dist=dist)
        members = [[int(x) for x in g] for g in groups]
        flat = sorted(x for g in members for x in g)
        tag = 'regroup_vectorized[n=%d,dec order %s%s]' % (n, list(decorder), '' if spacing < 0.1 else ', declinations %.1f deg apart (chains longer than `far`)' % spacing)
        c.oblige(tag + ':every source in exactly one group', z3.BoolVal(flat == list(range(n))))
        # adjacency on this path: decide every pair (entailed where the code already compared it)
        for i in range(n):
            for j in range(i + 1, n):
                adj[i, j] = c.decide(z3.Real('d_%d_%d' % (i, j)) < eps.e)
        want = comps_of(n, adj)
        got = sorted(sorted(g) for g in members)
        bridged = got != sorted(want) and all(any(set(g) <= set(w) for w in want) for g in got)
        c.oblige(tag + ':groups are the chain-connected components', z3.BoolVal(got == sorted(want)), info=dict(got=got, want=sorted(want), only_unmerged=bridged))
        return dict(got=got, want=sorted(want))
    return h


def h_prefilter(cl):
    """the far / rafar pre-filter of the real regroup_vectorized: two sources 1e-6 deg apart in declination on the equator with
    SYMBOLIC right ascensions in [0, 360); the pair distance stub says 'close'.  Sources whose RA difference modulo 360 is
    within far/2 must reach the distance test (and so be grouped)"""
    def h(c):
        ra0, ra1 = real('ra0'), real('ra1')
        for r in (ra0, ra1):
            c.assume(z3.And(r.e >= 0, r.e < 360))
        rec = real_np.rec.fromarrays([real_np.array([ra0, ra1], dtype=object), real_np.array([0.0, 1e-6]), real_np.array([30.0, 30.0]), real_np.array([20.0, 20.0]),
                                      real_np.array([0.0, 0.0]), real_np.array([0.0, 1.0])], names=['ra', 'dec', 'a', 'b', 'pa', 'peak_flux'])
        called = []

        def dist(r, group_recs):
            called.append(len(group_recs))
            return real_np.zeros(len(group_recs))
        groups = cl.regroup_vectorized(rec, eps=1.0, dist=dist)
        d = ra0.e - ra1.e
        ad = z3.If(d >= 0, d, -d)
        wrapped = z3.If(ad <= 180, ad, 360 - ad)
        together = len(groups) == 1
        c.oblige('regroup_vectorized:sources within far/2 (RA difference modulo 360) are not pre-filtered', z3.Implies(wrapped <= 0.25, z3.BoolVal(together)))
        return dict(groups=len(groups), tested=bool(called))
    return h


def oracle_wrap():
    cl = loader.real('cluster')
    models = loader.real('models')
    for ras in ((359.999, 0.001), (0.001, 359.999), (359.9995, 0.0)):
        srcs = []
        for k, ra in enumerate(ras):
            s = models.ComponentSource()
            s.ra, s.dec, s.a, s.b, s.pa, s.peak_flux, s.island, s.source = ra, 0.001 * k, 60.0, 60.0, 0.0, 1.0 + k, k, 0
            srcs.append(s)
        groups = cl.regroup(srcs, eps=1.0)
        if len(groups) != 1:
            return True, 'ra-wrap-prefilter', 'two 60 arcsec sources at RA %s deg (%.1f arcsec apart, overlapping) end in %d groups' % (list(ras), 3600 * min(abs(ras[0] - ras[1]), 360 - abs(ras[0] - ras[1])), len(groups))
    return False, None, None


def oracle_elliptical():
    """real regroup() with the real norm_dist: C is linked to A and to B, A and B are not linked, C has the lowest declination"""
    cl = loader.real('cluster')
    models = loader.real('models')

    def mk(x, y, f, k):
        s = models.ComponentSource()
        s.ra, s.dec = 10.0 + x / 3600., 0.0 + y / 3600.
        s.a = s.b = 60.0
        s.pa, s.peak_flux = 0.0, f
        s.island, s.source = k, 0
        return s
    # a chain longer than the pre-filter length (1 deg in declination, 0.1 deg steps, 120 arcsec circles, eps 3) and a bystander
    chain = [mk(0.0, 3600.0 * 0.1 * k, 1.0 + k, k) for k in range(11)]
    for s_ in chain:
        s_.a = s_.b = 120.0
    by = mk(7200.0, 3600.0 * 0.95, 50.0, 11)
    by.a = by.b = 120.0
    for order in (list(range(12)), list(reversed(range(12)))):
        srcs_ = chain + [by]
        groups = cl.regroup([srcs_[k] for k in order], eps=3.0)
        sizes = sorted(len(g) for g in groups)
        if sizes != [1, 11]:
            return True, 'long-chain-cut', 'a chain of 11 sources 0.1 deg apart (linked pairwise, 1 deg long) plus one bystander: group sizes %s instead of [1, 11]' % sizes
    # the last two: one source (lowest declination) within reach of three groups that are out of each other's reach; the same
    # with an unrelated far-away source whose declination lies between them
    for pts in (((-70, 40), (70, 41), (0, 0)), ((-70, 40), (70, 41), (0, 80)),
                ((74.8, 13.2), (0, 76), (-74.8, 13.2), (0, 0)), ((74.8, 13.2), (0, 76), (900, 40), (-74.8, 13.2), (0, 0)), ((74.8, 93.2), (0, 4), (-74.8, 93.2), (0, 80), (600, 50))):
        srcs = [mk(x, y, 1.0 + k, k) for k, (x, y) in enumerate(pts)]
        n_ = len(srcs)
        at = loader.real('angle_tools')
        lim = 1.0 * math.hypot(60.0, 60.0)
        sep = lambda p, q: at.gcd(p.ra, p.dec, q.ra, q.dec) * 3600
        adj = {(i, j): sep(srcs[i], srcs[j]) < lim for i in range(n_) for j in range(i + 1, n_)}
        want = sorted(comps_of(n_, adj))
        for order in (list(range(n_)), list(reversed(range(n_))), list(range(1, n_)) + [0]):
            groups = cl.regroup([srcs[k] for k in order], eps=1.0)
            got = sorted(sorted(srcs.index(s) for s in g) for g in groups)
            flat = sorted(x for g in got for x in g)
            if flat != list(range(n_)):
                return True, 'not-a-partition', 'circular 60 arcsec sources at offsets %s arcsec, eps=1: groups %s do not hold every source exactly once' % (list(pts), got)
            if got != want:
                unmerged = all(any(set(g) <= set(w) for w in want) for g in got)
                return True, ('bridge-not-merged' if unmerged else 'partition'), 'circular 60 arcsec sources at offsets %s arcsec, eps=1: groups %s but the chain-connected components are %s' % (list(pts), got, want)
    return False, None, None


def h_eps(where):
    def h(c):
        t = angle_deg('t')          # linking length in degrees; the option is 60*t arcmin
        ct, st = t.radians()._cs()
        c.assume(ct > 0)
        c.assume(st > 0)
        arcmin = t * 60
        if where == 'AeReg':
            fac, text = slicer.slice_function('AegeanTools/CLI/AeReg.py', 'main', targets=['eps'], params=['options'], returns=['eps'])
            import types
            f = fac(dict(np=loader.NPProxy()))
            (val,) = f(types.SimpleNamespace(eps=arcmin, regroup=True))
        else:
            fac, text = slicer.slice_function('AegeanTools/source_finder.py', 'priorized_fit_islands', targets=['regroup_eps'], params=['regroup_eps', 'sources'], cls='SourceFinder',
                                              returns=['regroup_eps'])
            f = fac(dict(np=loader.NPProxy()))
            (val,) = f(arcmin, [])
        half = (t / 2).radians().sin()
        c.oblige('eps[%s]:chord length for a linking angle of eps arcmin lies in [sin, 2 sin(half)]' % where, z3.And(core.lift(val) >= st, core.lift(val) <= 2 * half.e),
                 assume=[half.e > 0])
        return dict(slice=text)
    return h


def h_resize(cl, n, mode):
    def h(c):
        srcs = [Src(k, dict(ra=real('ra%d' % k), dec=real('dec%d' % k), a=real('a%d' % k), b=real('b%d' % k), pa=real('pa%d' % k), psf_a=real('pa_%d' % k), psf_b=real('pb_%d' % k),
                            psf_pa=real('pp_%d' % k), island=k, source=0)) for k in range(n)]
        for s in srcs:
            for v in (s.a, s.b, s.psf_a, s.psf_b):
                c.assume(v.e > 0)
        before = [(s.a, s.b) for s in srcs]
        if mode in ('one', 'one-psf'):
            ratio = 1
        else:
            ratio = real('ratio')
            c.assume(ratio.e >= 1)
        Src.LOG = []
        helper = None
        if mode == 'one-psf':
            # the way priorized fitting calls it: ratio together with a psf helper whose beams differ from the catalogue's
            class Beam3:
                def __init__(self, a, b, pa):
                    self.a, self.b, self.pa = a, b, pa

            class PH:
                def get_psf_sky2sky(self, ra, dec):
                    return (real('hp_a'), real('hp_b'), real('hp_pa'))

                def get_skybeam(self, ra, dec):
                    return Beam3(real('im_a'), real('im_b'), real('im_pa'))
            for nm in ('hp_a', 'hp_b', 'im_a', 'im_b'):
                c.assume(real(nm).e > 0)
            cl.Beam = Beam3
            helper = PH()
        out = cl.resize(srcs, ratio=ratio, psfhelper=helper)
        if mode == 'one-psf':
            tag = 'resize[n=%d,ratio = 1 with a psf helper]' % n
        else:
            tag = 'resize[n=%d,ratio %s]' % (n, '= 1' if mode == 'one' else '>= 1')
        c.oblige(tag + ':every source returned, in order', z3.BoolVal([s._k for s in out] == list(range(n))))
        c.oblige(tag + ':only a and b are written', z3.BoolVal(all(a in ('a', 'b') for _, a in Src.LOG)))
        for s, (a0, b0) in zip(srcs, before):
            if mode in ('one', 'one-psf'):
                c.oblige(tag + ':identity', z3.And(core.lift(s.a) == a0.e, core.lift(s.b) == b0.e))
            else:
                c.oblige(tag + ':never shrinks a source', z3.And(core.lift(s.a) >= a0.e, core.lift(s.b) >= b0.e), timeout_ms=60000)
                r = core.lift(ratio)
                c.oblige(tag + ':a^2 == a0^2 + psf_a^2 (1 - 1/ratio^2)', core.lift(s.a) * core.lift(s.a) == a0.e * a0.e + s.psf_a.e * s.psf_a.e * (1 - 1 / (r * r)), timeout_ms=60000)
        return dict()
    return h


# ------------------------------------------------------------------ replay on the real code
def oracle(seed=1, trials=60):
    import random
    cl = loader.real('cluster')
    models = loader.real('models')
    rng = random.Random(seed)
    for _ in range(trials):
        n = rng.randint(1, 9)
        eps_arcmin = rng.uniform(0.5, 8)
        base = (rng.uniform(0, 360), rng.uniform(-85, 85))
        srcs = []
        for k in range(n):
            s = models.ComponentSource()
            s.ra = (base[0] + rng.uniform(-0.3, 0.3) / max(0.05, real_np.cos(real_np.radians(base[1])))) % 360
            s.dec = base[1] + rng.uniform(-0.3, 0.3)
            s.peak_flux = rng.choice([1.0, 2.0, -3.0, rng.uniform(-5, 5)])
            s.a, s.b, s.pa = 30.0, 20.0, 0.0
            s.uuid = 'u%d' % k
            srcs.append(s)
        if n >= 2 and rng.random() < 0.3:
            # duplicate positions (bit-identical), isolated or not
            srcs[-1].ra, srcs[-1].dec = srcs[0].ra, srcs[0].dec
        eps = float(real_np.sin(real_np.radians(eps_arcmin / 60)))

        def sep(a, b):
            va = real_np.array([real_np.cos(real_np.radians(a.dec)) * real_np.cos(real_np.radians(a.ra)), real_np.cos(real_np.radians(a.dec)) * real_np.sin(real_np.radians(a.ra)), real_np.sin(real_np.radians(a.dec))])
            vb = real_np.array([real_np.cos(real_np.radians(b.dec)) * real_np.cos(real_np.radians(b.ra)), real_np.cos(real_np.radians(b.dec)) * real_np.sin(real_np.radians(b.ra)), real_np.sin(real_np.radians(b.dec))])
            return float(real_np.linalg.norm(va - vb))
        adj = {(i, j): sep(srcs[i], srcs[j]) <= eps for i in range(n) for j in range(i + 1, n)}
        if any(abs(sep(srcs[i], srcs[j]) - eps) < 1e-9 for i in range(n) for j in range(i + 1, n)):
            continue
        want = sorted(comps_of(n, adj))
        attrs0 = [(s.ra, s.dec, s.peak_flux, s.a, s.b, s.pa, s.uuid) for s in srcs]
        for order in (list(range(n)), list(reversed(range(n)))):
            cat = [srcs[k] for k in order]
            groups = cl.regroup_dbscan(cat, eps=eps)
            got = sorted(sorted(srcs.index(s) for s in g) for g in groups)
            if got != want:
                return True, 'partition', 'n=%d eps=%.3f arcmin order %s: groups %s expected %s' % (n, eps_arcmin, order, got, want)
            labels = [(s.island, s.source) for s in srcs]
            if len(set(labels)) != n:
                return True, 'labels-not-unique', 'labels %s' % labels
            for g in groups:
                fl = sorted(g, key=lambda s: s.source)
                if [s.source for s in fl] != list(range(len(g))) or any(fl[i].peak_flux < fl[i + 1].peak_flux for i in range(len(fl) - 1)):
                    return True, 'flux-order', 'group numbering %s fluxes %s' % ([s.source for s in fl], [s.peak_flux for s in fl])
            if [(s.ra, s.dec, s.peak_flux, s.a, s.b, s.pa, s.uuid) for s in srcs] != attrs0:
                return True, 'attribute-changed', 'an attribute other than island/source changed'
    # link decisions close to the linking length: pairs on a meridian (separation = their declination difference, exactly),
    # 0.1 % inside / outside a 5 arcsec linking length, spread over the sky - double precision decides these with a margin of 1e8 ulp
    eps_rad = float(real_np.radians(5.0 / 3600))
    eps = 2 * math.sin(eps_rad / 2)
    srcs, want = [], []
    for k in range(48):
        ra0, dec0 = 7.0 + 7.3 * k, -62.0 + 2.6 * k
        inside = k % 2 == 0
        d = 5.0 / 3600 * (1 - 1e-3 if inside else 1 + 1e-3)
        for j, dd in enumerate((0.0, d)):
            s = models.ComponentSource()
            s.ra, s.dec, s.peak_flux, s.a, s.b, s.pa = ra0, dec0 + dd, 2.0 - j, 30.0, 20.0, 0.0
            srcs.append(s)
        want += [[2 * k, 2 * k + 1]] if inside else [[2 * k], [2 * k + 1]]
    groups = cl.regroup_dbscan(list(srcs), eps=eps)
    got = sorted(sorted(srcs.index(s_) for s_ in g) for g in groups)
    if got != sorted(want):
        wrong = [g for g in got if g not in want] + [w for w in want if w not in got]
        return True, 'knife-edge-links', '48 meridian pairs 0.1 %% inside / outside a 5 arcsec linking length: %d groups instead of %d; first disagreements %s' % (len(got), len(want), wrong[:4])
    # resize
    s = models.ComponentSource()
    s.a, s.b, s.pa, s.psf_a, s.psf_b, s.psf_pa = 40.0, 30.0, 10.0, 25.0, 20.0, 0.0
    out = cl.resize([s], ratio=1.0)
    if len(out) != 1 or abs(out[0].a - 40.0) > 1e-9 or abs(out[0].b - 30.0) > 1e-9:
        return True, 'resize-identity', 'resize(ratio=1) changed the source: %s' % ([(o.a, o.b) for o in out],)
    class _PH:
        def get_psf_sky2sky(self, ra, dec):
            return (45.0 / 3600, 35.0 / 3600, 0.0)

        def get_skybeam(self, ra, dec):
            return cl.Beam(60.0 / 3600, 40.0 / 3600, 0.0)
    s.a, s.b = 40.0, 30.0
    out = cl.resize([s], ratio=1, psfhelper=_PH())
    if len(out) != 1 or abs(out[0].a - 40.0) > 1e-9 or abs(out[0].b - 30.0) > 1e-9:
        return True, 'resize-identity', 'resize(ratio=1, psfhelper=...) changed the source: %s' % ([(o.a, o.b) for o in out],)
    s.a, s.b = 40.0, 30.0
    out = cl.resize([s], ratio=1.7)
    if len(out) != 1 or out[0].a < 40.0 or out[0].b < 30.0:
        return True, 'resize-shrinks', 'resize(ratio=1.7) gave %s' % ([(o.a, o.b) for o in out],)
    return False, None, None


def eps_oracle():
    """AeReg's conversion as the user sees it: two sources 3.9' apart are linked with --eps 4, two 4.1' apart are not"""
    cl = loader.real('cluster')
    models = loader.real('models')
    import types
    import numpy as np
    try:
        fac, _ = slicer.slice_function('AegeanTools/CLI/AeReg.py', 'main', targets=['eps'], params=['options'], returns=['eps'])
    except slicer.AnchorMissing:
        return False, None, None
    (eps,) = fac(dict(np=np))(types.SimpleNamespace(eps=4.0, regroup=True))
    out = []
    for sepam in (3.9, 4.1):
        a, b = models.ComponentSource(), models.ComponentSource()
        a.ra, a.dec, a.peak_flux = 10.0, 0.0, 1.0
        b.ra, b.dec, b.peak_flux = 10.0, sepam / 60, 2.0

        out.append(len(cl.regroup_dbscan([a, b], eps=eps)))
    if out != [1, 2]:
        return True, 'eps-units', 'with --eps 4 (arcmin): sources 3.9\' apart -> %d group(s), 4.1\' apart -> %d group(s)' % (out[0], out[1])
    return False, None, None


def run(rep):
    cl = sym_cluster()
    thorough = rep.tier == 'thorough'
    rep.assume('scikit-learn DBSCAN is replaced by its documented min_samples=1 contract (clusters = connected components of d <= eps, labelled by first member)',
               'floats as reals')
    rep.kernel('K-embedding', functions=[F + ':regroup_dbscan'], bounds='two sources with symbolic (ra, dec) in degrees; exact trig identity', stubs=['DBSCAN -> cut after capturing X'])
    st, res = explore(h_embedding(cl))
    rep.stats(st)
    handle(rep, res, 'K-embedding')
    rep.end_kernel()
    nmax = 4 if thorough else 3
    rep.kernel('K-grouping', functions=[F + ':regroup_dbscan'], bounds='n <= %d sources; pair distances are FREE symbols (every adjacency pattern, a superset of the geometric ones), symbolic eps > 0 and fluxes; all row permutations for n <= 3%s' % (nmax, ', 3 permutations for n = 4' if thorough else ''),
               stubs=['DBSCAN -> contract stub over symbolic distances (each comparison forks)', 'sources -> record objects with an attribute write log'])
    plans, meta = [], []
    for n in range(1, nmax + 1):
        perms = list(itertools.permutations(range(n)))[1:] if n <= 3 else [(3, 2, 1, 0), (1, 0, 3, 2), (2, 3, 0, 1)]
        if not perms:
            perms = [None]
        for p in perms:
            plans.append((h_grouping(cl, n, p), dict(wall_s=600)))
            meta.append((n, p))
    for (n, p), (st, res) in zip(meta, core.explore_many(plans, workers=16)):
        rep.stats(st)
        handle(rep, res, 'K-grouping')
    rep.end_kernel()
    rep.kernel('K-elliptical', functions=[F + ':regroup_vectorized', F + ':regroup'], bounds='n <= 4 sources at distinct declinations (n <= 3: every order; n = 4: 12 orders, thorough all 24; four sources are the least that let one source bridge three groups), pair distances FREE symbols (every adjacency pattern), symbolic eps',
               stubs=['dist (norm_dist) -> free symbolic pair distances (comparisons fork)', 'catalogue -> real numpy recarray with concrete distinct declinations and equal RA'],
               outside=['norm_dist itself (ellipse radii along the joining line)', 'the far / rafar pre-filters away from the equator (decided: two sources on the equator with symbolic RA, wrap included)'])
    eplans = []
    for n_ in (2, 3, 4):
        for perm in itertools.permutations(range(n_)):
            if n_ == 4 and perm[0] > 1 and not thorough:
                continue
            eplans.append((h_elliptical(cl, n_, perm), dict(wall_s=300)))
            if n_ >= 3:
                # chains that span more than the pre-filter length `far` (default 0.5 deg) in declination
                eplans.append((h_elliptical(cl, n_, perm, spacing=0.6), dict(wall_s=300)))
    edone = False
    for st, res in core.explore_many(eplans, workers=16):
        rep.stats(st)
        for r in res:
            for ob in r['obligations']:
                rep.count(ob['result'], ob['name'])
                if ob['result'] == 'sat' and not edone:
                    bad, cls, detail = oracle_elliptical()
                    if rep.finding('C19/K-elliptical/%s' % (cls or ob['name'].split(':')[-1]), dict(kind='elliptical'), detail or ob['name'], reproduced=bad) != 'not-reproduced':
                        edone = True
        if res and len(rep.samples) < 10:
            rep.sample(dict(kernel='K-elliptical', paths=len(res), first=res[0]['out']))
    st, res = explore(h_prefilter(cl))
    rep.stats(st)
    for r in res:
        for ob in r['obligations']:
            rep.count(ob['result'], ob['name'])
            if ob['result'] == 'sat':
                bad, cls, detail = oracle_wrap()
                rep.finding('C19/K-elliptical/%s' % (cls or 'prefilter'), dict(kind='wrap'), detail or ob['name'], reproduced=bad)
    rep.sample(dict(kernel='K-elliptical/prefilter', paths=[r['out'] for r in res]))
    rep.end_kernel()
    rep.kernel('K-eps', functions=['AegeanTools/CLI/AeReg.py:main', 'AegeanTools/source_finder.py:SourceFinder.priorized_fit_islands'], bounds='all linking lengths in (0, 90) degrees given in arcmin',
               assumes=['slice: the statement(s) assigning eps / regroup_eps; both chord conventions (sin theta and 2 sin(theta/2)) are accepted, they differ by < 4e-5 relative below 1 degree'])
    for where in ('AeReg', 'priorized'):
        try:
            st, res = explore(h_eps(where))
        except slicer.AnchorMissing as e:
            rep.inconc('anchor-missing %s' % e)
            continue
        rep.stats(st)
        for r in res:
            for ob in r['obligations']:
                rep.count(ob['result'], ob['name'])
                if ob['result'] == 'sat':
                    bad, cls, detail = eps_oracle()
                    rep.finding('C19/K-eps/%s' % (cls or where), dict(kind='eps', where=where), detail or ob['name'], reproduced=bad)
            rep.sample(dict(kernel='K-eps', where=where, obligations=[(o['name'], o['result']) for o in r['obligations']]))
    rep.end_kernel()
    rep.kernel('K-resize', functions=[F + ':resize'], bounds='1-2 sources with symbolic positive sizes and psf sizes; ratio = 1 (without and with a psf helper of arbitrary beams) and symbolic ratio >= 1', stubs=['np.sqrt -> radical'])
    for n, mode in ((1, 'one'), (2, 'one'), (1, 'one-psf'), (2, 'one-psf'), (1, 'sym'), (2, 'sym')):
        st, res = explore(h_resize(cl, n, mode))
        rep.stats(st)
        handle(rep, res, 'K-resize')
    rep.end_kernel()
    bad, cls, detail = oracle(rep.seed)
    rep.validated_runs(60)
    if bad:
        rep.finding('C19/K-grouping/%s' % cls, dict(kind='oracle', seed=rep.seed), detail, kernel='K-grouping')
    bad, cls, detail = eps_oracle()
    rep.validated_runs(2)
    if bad:
        rep.finding('C19/K-eps/%s' % cls, dict(kind='eps'), detail, kernel='K-eps')
    rep.not_decided += ['norm_dist (the elliptical distance itself)', 'scikit-learn DBSCAN itself', 'more than 4 sources (symbolic); 1..9 sources only in the replay oracle']


def handle(rep, res, kname):
    done = False
    tries = 0
    for r in res:
        for ob in r['obligations']:
            rep.count(ob['result'], ob['name'])
            if ob['result'] == 'sat' and not done and tries < 3:
                tries += 1
                bad, cls, detail = oracle(5 + tries, 200)
                if rep.finding('C19/%s/%s' % (kname, cls or ob['name'].split(':')[-1]), dict(kind='oracle', seed=5), detail or ob['name'], reproduced=bad) != 'not-reproduced':
                    done = True
    if res:
        rep.sample(dict(kernel=kname, paths=len(res), obligations=[(o['name'].split(':')[-1], o['result']) for o in res[0]['obligations']][:8]))


def replay(w):
    wit = w['witness']
    if wit.get('kind') in ('elliptical', 'wrap'):
        bad, cls, detail = oracle_elliptical() if wit['kind'] == 'elliptical' else oracle_wrap()
        return bad, '%s: %s' % (cls, detail)
    bad, cls, detail = eps_oracle() if wit.get('kind') == 'eps' else oracle(int(wit.get('seed', 5)), 200)
    return bad, '%s: %s' % (cls, detail)


if __name__ == '__main__':
    main(sys.modules[__name__])
