"""C09 circle and polygon regions cover their shape (partial: the coordinate conventions handed to HEALPix).
The covering/area clauses live in healpy's C++ (query_disc/query_polygon) and are NOT decided. Decided: what the
real Region / MIMAS code hands to those routines - units (radians exactly once), (theta, phi) order, unit vectors,
nside = 2**depth, nest/inclusive flags - for symbolic positions, with healpy replaced by recording stubs that
implement only its documented formulas (ang2vec, vec2ang)."""
import sys
from fractions import Fraction

import numpy as real_np
import z3

from symx import core, loader, nz
from symx.core import SN, SB, real, angle_deg, angle_rad, explore
from symx.report import main

PID = 'C09'
F = 'AegeanTools/regions.py'
FM = 'AegeanTools/MIMAS.py'


class HP:
    """documented formulas only"""
    def __init__(self):
        self.calls = []

    def ang2vec(self, theta, phi):
        import numpy as np
        st = np.sin(theta)
        return np.array([st * np.cos(phi), st * np.sin(phi), np.cos(theta)]).T if isinstance(theta, real_np.ndarray) else np.array([st * np.cos(phi), st * np.sin(phi), np.cos(theta)])

    def vec2ang(self, vec):
        import numpy as np
        vec = np.asarray(vec, dtype=object).reshape(-1, 3)
        th = np.array([np.arctan2(np.hypot(v[0], v[1]), v[2]) for v in vec], dtype=object)
        ph = np.array([np.arctan2(v[1], v[0]) for v in vec], dtype=object)
        return th, ph

    def query_disc(self, nside, vec, radius, inclusive=False, nest=False, **kw):
        self.calls.append(('disc', nside, vec, radius, inclusive, nest))
        return []

    def query_polygon(self, nside, vertices, inclusive=False, nest=False, **kw):
        self.calls.append(('poly', nside, vertices, inclusive, nest))
        return []

    def ang2pix(self, nside, theta, phi, nest=False, **kw):
        self.calls.append(('ang2pix', nside, theta, phi, nest))
        return real_np.zeros(len(theta), dtype=int)

    def nside2pixarea(self, *a, **k):
        return 1.0


def sym_mods():
    mods = loader.load_private(['regions', 'catalogs', 'MIMAS'])
    reg, mim = mods['regions'], mods['MIMAS']
    loader.patch(reg, np=loader.NPProxy(sym_pi=True), builtins=False)
    loader.patch(mim, np=loader.NPProxy(sym_pi=True), builtins=False)
    return reg, mim


def unit_vec_claims(c, tag, vec, ra_rad, dec_rad):
    ca, sa = ra_rad._cs()
    cd, sd = dec_rad._cs()
    nz.identity(c, tag + ':x == cos(dec) cos(ra)', core.lift(vec[0]), cd * ca)
    nz.identity(c, tag + ':y == cos(dec) sin(ra)', core.lift(vec[1]), cd * sa)
    nz.identity(c, tag + ':z == sin(dec)', core.lift(vec[2]), sd)


def h_static(reg):
    def h(c):
        hp = HP()
        reg.hp = hp
        R = reg.Region
        ra, dec = angle_rad('ra'), angle_rad('dec')
        sky = R.radec2sky(ra, dec)
        c.oblige('radec2sky:scalar -> [(ra, dec)]', z3.BoolVal(sky.shape == (1, 2) and sky[0, 0] is ra and sky[0, 1] is dec))
        ra2, dec2 = angle_rad('ra2'), angle_rad('dec2')
        sky2 = R.radec2sky([ra, ra2], [dec, dec2])
        c.oblige('radec2sky:vectors -> rows of (ra, dec)', z3.BoolVal(sky2.shape == (2, 2) and sky2[0, 0] is ra and sky2[1, 0] is ra2 and sky2[0, 1] is dec and sky2[1, 1] is dec2))
        tp = R.sky2ang(sky2)
        half_pi = 90 * c.K
        c.oblige('sky2ang:theta = pi/2 - dec, phi = ra (no swap)', z3.And(core.lift(tp[0, 0]) == half_pi - dec.e, core.lift(tp[0, 1]) == ra.e, core.lift(tp[1, 0]) == half_pi - dec2.e, core.lift(tp[1, 1]) == ra2.e))
        c.oblige('sky2ang:input not modified', z3.BoolVal(sky2[0, 0] is ra and sky2[0, 1] is dec))
        vec = R.sky2vec(sky2)
        c.oblige('sky2vec:one 3-vector per position', z3.BoolVal(getattr(vec, 'shape', None) == (2, 3)))
        unit_vec_claims(c, 'sky2vec', vec[0], ra, dec)
        unit_vec_claims(c, 'sky2vec[1]', vec[1], ra2, dec2)
        # vec2sky of an arbitrary vector (x, y, z): direction conventions
        x, y, z = real('x'), real('y'), real('z')
        back = R.vec2sky(real_np.array([[x, y, z]], dtype=object), degrees=False)
        bra, bdec = back[0, 0], back[0, 1]
        ax, ay = core.direction(bra, c)
        nz.identity(c, 'vec2sky:ra has the direction of (x, y)', ax * y.e - ay * x.e, z3.RealVal(0))
        dx, dy = core.direction(bdec, c)       # (cos dec, sin dec) ~ (hypot(x,y), z)
        h = core.radical(x.e * x.e + y.e * y.e)
        nz.identity(c, 'vec2sky:dec has the direction of (hypot(x,y), z)', dx * z.e - dy * h, z3.RealVal(0))
        backd = R.vec2sky(real_np.array([[x, y, z]], dtype=object), degrees=True)
        okd = all(getattr(v, 'ang', None) is not None and v.ang[2] == 0 for v in (backd[0, 0], backd[0, 1])) and bra.ang[2] == 1 and bdec.ang[2] == 1
        c.oblige('vec2sky:degrees=True converts both coordinates exactly once (unit bookkeeping)', z3.BoolVal(bool(okd)))
        if okd:
            ax2, ay2 = core.direction(backd[0, 0], c)
            nz.identity(c, 'vec2sky:degrees=True ra has the direction of (x, y)', ax2 * y.e - ay2 * x.e, z3.RealVal(0))
            dx2, dy2 = core.direction(backd[0, 1], c)
            nz.identity(c, 'vec2sky:degrees=True dec has the direction of (hypot(x,y), z)', dx2 * z.e - dy2 * h, z3.RealVal(0))
        return dict()
    return h


def h_circles(reg, depth_arg, maxdepth):
    def h(c):
        hp = HP()
        reg.hp = hp
        r = reg.Region(maxdepth=maxdepth)
        ra, dec, rad = angle_rad('ra'), angle_rad('dec'), real('radius')
        r.add_circles(ra, dec, rad, depth=depth_arg)
        tag = 'add_circles[depth=%s,maxdepth=%d]' % (depth_arg, maxdepth)
        ok = len(hp.calls) == 1 and hp.calls[0][0] == 'disc'
        c.oblige(tag + ':one query_disc call', z3.BoolVal(ok))
        if not ok:
            return dict()
        _, nside, vec, radius, inclusive, nest = hp.calls[0]
        want_depth = maxdepth if (depth_arg is None or depth_arg > maxdepth) else depth_arg
        c.oblige(tag + ':nside = 2**depth (clamped to maxdepth), inclusive, nested', z3.BoolVal(nside == 2 ** want_depth and inclusive is True and nest is True))
        c.oblige(tag + ':radius handed over unchanged (radians)', z3.BoolVal(radius is rad) if isinstance(radius, SN) else z3.BoolVal(False))
        unit_vec_claims(c, tag, vec, ra, dec)
        # list input: one query per circle with its own radius
        hp.calls.clear()
        ra2, dec2, rad2 = angle_rad('ra2'), angle_rad('dec2'), real('radius2')
        r.add_circles([ra, ra2], [dec, dec2], [rad, rad2], depth=depth_arg)
        ok2 = len(hp.calls) == 2 and hp.calls[0][3] is rad and hp.calls[1][3] is rad2
        c.oblige(tag + ':list input -> one query per circle, radii paired in order', z3.BoolVal(bool(ok2)))
        if ok2:
            unit_vec_claims(c, tag + ':2nd circle', hp.calls[1][2], ra2, dec2)
        return dict()
    return h


def h_poly(reg):
    def h(c):
        hp = HP()
        reg.hp = hp
        r = reg.Region(maxdepth=5)
        P = [(angle_rad('ra%d' % k), angle_rad('dec%d' % k)) for k in range(3)]
        r.add_poly([[a, d] for a, d in P], depth=4)
        ok = len(hp.calls) == 1 and hp.calls[0][0] == 'poly'
        c.oblige('add_poly:one query_polygon call', z3.BoolVal(ok))
        if not ok:
            return dict()
        _, nside, verts, inclusive, nest = hp.calls[0]
        c.oblige('add_poly:nside = 2**depth, inclusive, nested', z3.BoolVal(nside == 16 and inclusive is True and nest is True))
        c.oblige('add_poly:one vertex vector per position, in order', z3.BoolVal(getattr(verts, 'shape', None) == (3, 3)))
        for k, (a, d) in enumerate(P):
            unit_vec_claims(c, 'add_poly:vertex %d' % k, verts[k], a, d)
        try:
            r.add_poly([[P[0][0], P[0][1]], [P[1][0], P[1][1]]])
            c.oblige('add_poly:fewer than three vertices rejected', z3.BoolVal(False))
        except AssertionError:
            c.oblige('add_poly:fewer than three vertices rejected', z3.BoolVal(True))
        return dict()
    return h


def h_within(reg, degin):
    def h(c):
        hp = HP()
        reg.hp = hp
        r = reg.Region(maxdepth=6)
        ra = angle_deg('ra') if degin else angle_rad('ra')
        dec = angle_deg('dec') if degin else angle_rad('dec')
        r.sky_within(real_np.array([ra], dtype=object), real_np.array([dec], dtype=object), degin=degin)
        tag = 'sky_within[degin=%s]' % degin
        calls = [x for x in hp.calls if x[0] == 'ang2pix']
        ok = len(calls) == 1
        c.oblige(tag + ':one ang2pix call', z3.BoolVal(ok))
        if not ok:
            return dict()
        _, nside, th, ph, nest = calls[0]
        c.oblige(tag + ':nside = 2**maxdepth, nested', z3.BoolVal(nside == 64 and nest is True))
        k = c.K if degin else z3.RealVal(1)
        c.oblige(tag + ':theta = pi/2 - dec, phi = ra, converted to radians exactly once', z3.And(core.lift(th[0]) == 90 * c.K - dec.e * k, core.lift(ph[0]) == ra.e * k))
        return dict()
    return h


def h_combine(reg, mim, kind):
    def h(c):
        hp = HP()
        reg.hp = hp
        mim.Region = reg.Region
        cont = mim.Dummy(maxdepth=7)
        ra, dec, rad = angle_deg('ra'), angle_deg('dec'), angle_deg('radius')
        tag = 'combine_regions[%s]' % kind
        if kind in ('include_circles', 'exclude_circles'):
            getattr(cont, kind).append([ra, dec, rad])
            mim.combine_regions(cont)
            calls = [x for x in hp.calls if x[0] == 'disc']
            ok = len(calls) == 1
            c.oblige(tag + ':one query_disc call', z3.BoolVal(ok))
            if ok:
                _, nside, vec, radius, inclusive, nest = calls[0]
                c.oblige(tag + ':nside = 2**maxdepth', z3.BoolVal(nside == 2 ** 7))
                c.oblige(tag + ':radius converted from degrees to radians exactly once', core.lift(radius) == rad.e * c.K)
                unit_vec_claims(c, tag, vec, ra.radians(), dec.radians())
        else:
            P = [(angle_deg('ra%d' % k), angle_deg('dec%d' % k)) for k in range(3)]
            flat = [v for p in P for v in p]
            getattr(cont, kind).append(flat)
            mim.combine_regions(cont)
            calls = [x for x in hp.calls if x[0] == 'poly']
            ok = len(calls) == 1
            c.oblige(tag + ':one query_polygon call', z3.BoolVal(ok))
            if ok:
                verts = calls[0][2]
                for k, (a, d) in enumerate(P):
                    unit_vec_claims(c, tag + ':vertex %d' % k, verts[k], a.radians(), d.radians())
        return dict()
    return h


# ------------------------------------------------------------------ replay oracle (real healpy): the property's own clauses, sampled
def oracle(seed=3, trials=25):
    import random
    import healpy as hp
    regions = loader.real('regions')
    mim = loader.real('MIMAS')
    rng = random.Random(seed)
    for t in range(trials):
        depth = rng.randint(4, 9)
        ra, dec = rng.choice([0.0, 359.99, rng.uniform(0, 360)]), rng.choice([90.0, -90.0, rng.uniform(-89, 89), rng.uniform(-89, 89)])
        rad = rng.uniform(0.3, 20)
        eff = depth
        if t % 2 == 0:
            r = regions.Region(maxdepth=depth)
            darg = [None, depth, depth - 1, depth + 1, depth + 3, None][(t // 2) % 6]      # the depth argument: absent, equal, coarser, finer than the region
            r.add_circles(real_np.radians(ra), real_np.radians(dec), real_np.radians(rad), depth=darg)
            eff = depth if (darg is None or darg > depth) else darg
        else:
            cont = mim.Dummy(maxdepth=depth)
            cont.include_circles.append([ra, dec, rad])
            r = mim.combine_regions(cont)
        pix = hp.nside2resol(2 ** eff, arcmin=True) / 60
        v0 = hp.ang2vec(real_np.radians(90 - dec), real_np.radians(ra))
        for it in range(61):
            # the centre itself, then random points at angular distance d from the centre
            d = 0.0 if it == 0 else rng.choice([rng.uniform(0, rad * 0.999), rng.uniform(rad + 3.2 * pix, min(179, rad + 3.2 * pix + 10))])
            pa = 0.0 if it == 0 else rng.uniform(0, 360)
            at = loader.real('angle_tools')
            if abs(dec) > 89.9:
                pra, pdec = pa, (90 - d if dec > 0 else -90 + d)
            else:
                pra, pdec = at.translate(ra, dec, d, pa)
            inside = bool(r.sky_within(pra, pdec, degin=True)[0])
            inside_rad = bool(r.sky_within(real_np.radians(pra), real_np.radians(pdec), degin=False)[0])
            if inside != inside_rad:
                return True, 'degin', 'sky_within answers differ between degrees and radians input at (%.4f, %.4f)' % (pra, pdec)
            if d < rad and not inside:
                return True, 'circle-hole', 'circle (%.3f, %.3f, r=%.3f) depth %d does not contain the point %.4f deg from its centre at (%.4f, %.4f)' % (ra, dec, rad, depth, d, pra, pdec)
            if d > rad + 3 * pix and inside:
                return True, 'circle-spill', 'circle (%.3f, %.3f, r=%.3f) depth %d contains a point %.4f deg from its centre' % (ra, dec, rad, depth, d)
        if it == 60 and abs(dec) == 90.0:
            # the pole itself at several right ascensions, as scalars and inside a vector
            ras_ = real_np.array([0.0, 123.4, 359.9, 180.0])
            got_ = r.sky_within(ras_, real_np.full(4, dec), degin=True)
            got2_ = r.sky_within(real_np.radians(ras_), real_np.full(4, real_np.radians(dec)), degin=False)
            if not (all(bool(g) for g in got_) and all(bool(g) for g in got2_)):
                return True, 'pole-outside', 'circle of radius %.3f deg centred on dec %+.0f (depth %d): sky_within at the pole itself answers %s (degrees) / %s (radians)' % (rad, dec, depth, [bool(g) for g in got_], [bool(g) for g in got2_])
        area = r.get_area()
        cap = lambda x: 2 * real_np.pi * (1 - real_np.cos(real_np.radians(x))) * (180 / real_np.pi) ** 2
        if not (cap(rad) * 0.999 <= area <= cap(min(180, rad + 3 * pix)) * 1.001):
            return True, 'area', 'area %.4f not between the caps %.4f and %.4f (r=%.3f depth %d)' % (area, cap(rad), cap(rad + 3 * pix), rad, depth)
    return False, None, None


def run(rep):
    reg, mim = sym_mods()
    rep.assume('healpy is replaced by recording stubs that implement only the documented ang2vec / vec2ang formulas', 'floats as reals; pi/180 symbolic')
    rep.kernel('K-conventions', functions=[F + ':Region.radec2sky', F + ':Region.sky2ang', F + ':Region.sky2vec', F + ':Region.vec2sky', F + ':Region.add_circles', F + ':Region.add_poly', F + ':Region.sky_within', FM + ':combine_regions'],
               bounds='all real positions/radii; depth argument None, below, equal to and above maxdepth; scalar and list inputs; degrees and radians',
               stubs=['healpy.query_disc/query_polygon/ang2pix -> argument recorders', 'healpy.ang2vec/vec2ang -> documented formulas on symbolic values'],
               outside=['everything geometric about HEALPix: covering of the disc/polygon, the three-pixel margin, areas (replay oracle only)'])
    plans = [(h_static(reg), {}), (h_poly(reg), {}), (h_within(reg, True), {}), (h_within(reg, False), {})]
    for d, m in ((None, 6), (4, 6), (6, 6), (9, 6)):
        plans.append((h_circles(reg, d, m), {}))
    for kind in ('include_circles', 'exclude_circles', 'include_polygons', 'exclude_polygons'):
        plans.append((h_combine(reg, mim, kind), {}))
    done = False
    for h, kw in plans:          # sequential: the harnesses patch module globals
        st, res = explore(h)
        rep.stats(st)
        for r in res:
            for ob in r['obligations']:
                rep.count(ob['result'], ob['name'])
                if ob['result'] == 'sat' and not done:
                    bad, cls, detail = oracle(7, 40)
                    if rep.finding('C09/K-conventions/%s' % (cls or ob['name'].split(':')[-1]), dict(seed=7), detail or ob['name'], reproduced=bad) != 'not-reproduced':
                        done = True
            if r['obligations']:
                rep.sample(dict(obligations=[(o['name'], o['result']) for o in r['obligations']][:8]))
    rep.end_kernel()
    from checks import C08
    C08.membership_kernel(rep, 'C09')
    bad, cls, detail = oracle(rep.seed)
    rep.validated_runs(25)
    if bad:
        rep.finding('C09/K-conventions/%s' % cls, dict(seed=rep.seed), detail)
    rep.not_decided += ['a circle region contains every position within the radius and nothing beyond radius + 3 pixels (healpy C++; sampled in the replay oracle only)',
                        'polygon coverage and circumscribed-circle bound', 'area between the two spherical caps (sampled only)']


def replay(w):
    if w['witness'].get('kind') == 'membership':
        from checks import C08
        bad, cls, detail = C08.replay_case(w['witness'])
        return bad, '%s: %s' % (cls, detail)
    bad, cls, detail = oracle(int(w['witness'].get('seed', 7)), 40)
    return bad, '%s: %s' % (cls, detail)


if __name__ == '__main__':
    main(sys.modules[__name__])
