"""C17 spherical geometry and sexagesimal primitives: real angle_tools executed on symbolic values."""
import math
import random
import re
import sys
from fractions import Fraction

import z3

from symx import core, loader, nz
from symx.core import SN, SB, real, angle_deg, explore
from symx.report import main

PID = 'C17'
F = 'AegeanTools/angle_tools.py'


def sym_at():
    at = loader.load_file(F, 'symrepo_angle_tools_c17')
    loader.patch(at)
    return at


# ------------------------------------------------------------------------------------------------
# sexagesimal
# ------------------------------------------------------------------------------------------------
def fields(c, s, signed):
    body = s[1:] if signed else s
    parts = body.split(':')
    if len(parts) != 3:
        raise core.Unsupported('unexpected sexagesimal layout %r' % s)
    out = []
    for p in parts:
        if p not in c.tokens:
            try:
                out.append((SN(z3.RealVal(str(Fraction(p)))), 'concrete:' + p))
                continue
            except ValueError:
                raise core.Unsupported('field is not a single formatted number: %r' % p)
        v, spec = c.tokens[p]
        out.append((core.token_number(v, spec), spec))
    return (s[0] if signed else ''), out


def h_dms(at):
    def h(c):
        x = real('x')
        c.assume(x.e >= -90)
        c.assume(x.e <= 90)
        s = at.dec2dms(x)
        sign, ((d, ds), (m, ms), (sec, ss)) = fields(c, s, True)
        back = at.dec2dec(s)
        tol = z3.RealVal(5) / 3600000
        c.oblige('dms:sign', z3.BoolVal(sign in '+-') if sign else z3.BoolVal(False))
        c.oblige('dms:deg-range', z3.And(d.e >= 0, d.e <= 90))
        c.oblige('dms:min-range', z3.And(m.e >= 0, m.e <= 59))
        c.oblige('dms:sec-range', z3.And(sec.e >= 0, sec.e < 60))
        c.oblige('dms:roundtrip', z3.And(back.e - x.e <= tol, x.e - back.e <= tol))
        c.oblige('dms:sign-kept', z3.Implies(x.e < 0, back.e <= 0))
        return (ds, ms, ss)
    return h


def h_hms(at):
    def h(c):
        x = real('x')
        c.assume(x.e >= 0)
        c.assume(x.e < 360)
        s = at.dec2hms(x)
        _, ((hh, hs), (m, ms), (sec, ss)) = fields(c, s, False)
        back = at.ra2dec(s)
        tol = z3.RealVal(15 * 5) / 3600000
        diff = back.e - x.e
        c.oblige('hms:hour-range', z3.And(hh.e >= 0, hh.e <= 23))
        c.oblige('hms:min-range', z3.And(m.e >= 0, m.e <= 59))
        c.oblige('hms:sec-range', z3.And(sec.e >= 0, sec.e < 60))
        c.oblige('hms:roundtrip-mod360', z3.Or(z3.And(diff <= tol, -diff <= tol), z3.And(diff + 360 <= tol, -(diff + 360) <= tol)))
        return (hs, ms, ss)
    return h


_RX = re.compile(r'^([+-]?)(\d+):(\d+):(\d+\.\d+)$')


def oracle_sexa(kind, xf):
    """property-level oracle on the REAL functions: fields in range and parse(format(x)) == x to half a last digit"""
    at = loader.real('angle_tools')
    s = at.dec2dms(xf) if kind == 'dms' else at.dec2hms(xf)
    mm = _RX.match(s)
    if not mm:
        return True, 'malformed', s
    sign, d, m, sec = mm.group(1), int(mm.group(2)), int(mm.group(3)), float(mm.group(4))
    if sec >= 60:
        return True, 'seconds-60', s
    if m >= 60:
        return True, 'minutes-60', s
    if kind == 'hms' and d >= 24:
        return True, 'hours-24', s
    if kind == 'dms' and d > 90:
        return True, 'degrees-range', s
    back = at.dec2dec(s) if kind == 'dms' else at.ra2dec(s)
    tol = (0.005 / 3600) * (1 if kind == 'dms' else 15) * (1 + 1e-6) + 1e-12
    err = abs(back - xf)
    if kind == 'hms':
        err = min(err, abs(err - 360))
    if err > tol:
        return True, 'roundtrip', '%s -> %r' % (s, back)
    return False, None, s


def neighbourhood(x):
    xf = float(x)
    out = [xf]
    for k in (1, 2, 8, 64):
        a = xf
        b = xf
        for _ in range(k):
            a = math.nextafter(a, math.inf)
            b = math.nextafter(b, -math.inf)
        out += [a, b]
    out += [xf + 1e-9, xf - 1e-9]
    return out


def run_sexa(rep, at, pid='C17'):
    for kind, h, lo, hi in (('dms', h_dms(at), -90, 90), ('hms', h_hms(at), 0, 360)):
        rep.kernel('K-sexa-' + kind, functions=[F + ':dec2%s' % kind, F + ':dec2dec', F + ':ra2dec'],
                   bounds='all real x in [%d,%d%s; decimal rounding of the printed fields modelled as a fresh decimal within half a last digit (ties either way)' % (lo, hi, ']' if kind == 'dms' else ')'),
                   stubs=['np.isfinite -> True (finite input)'], assumes=['floats as reals; FP error of (x-d)*60 outside the claim'])
        st, res = explore(h)
        rep.stats(st)
        for r in res:
            for ob in r['obligations']:
                rep.count(ob['result'] if ob['result'] in ('unsat', 'sat', 'unknown', 'vacuous') else 'unknown', ob['name'])
                if ob['result'] == 'sat':
                    x = ob['model'].get('x', 0)
                    got = False
                    for xf in neighbourhood(x):
                        if not (lo <= xf <= hi) or (kind == 'hms' and xf >= 360):
                            continue
                        bad, cls, detail = oracle_sexa(kind, xf)
                        if bad:
                            rep.finding('%s/K-sexa/dec2%s:%s' % (pid, kind, cls), dict(kind=kind, x=xf, model_x=str(x), obligation=ob['name']),
                                        'dec2%s(%r) = %s violates %s' % (kind, xf, detail, cls))
                            got = True
                            break
                    if not got:
                        rep.finding('%s/K-sexa/%s' % (pid, ob['name']), dict(kind=kind, x=float(x)), 'model x=%s' % x, reproduced=False)
            if r['out']:
                rep.sample(dict(kernel='K-sexa-' + kind, path=r['trace'], format_specs=r['out'], obligations=[(o['name'], o['result']) for o in r['obligations']]))
        rep.end_kernel()


# ------------------------------------------------------------------------------------------------
# great circle distance / bearing / translate
# ------------------------------------------------------------------------------------------------
def sampler(names, rng):
    def s():
        env = {}
        for n in names:
            if n.startswith('dec'):
                env[n] = rng.uniform(-89, 89)
            elif n == 'r':
                env[n] = rng.uniform(0.001, 179)
            else:
                env[n] = rng.uniform(0, 360)
        return env
    return s


def cs(a):
    """(cos, sin) z3 terms of a degree-valued angle form"""
    r = a.radians()._cs()
    if r is None:
        raise core.Unsupported('angle form lost')
    return r


def collect(rep, recs, rng_env=None, lhs_rhs=None):
    for ob in recs:
        rep.count(ob['result'] if ob['result'] in ('unsat', 'sat', 'unknown', 'vacuous') else 'unknown', ob['name'])


def _arr1(v):
    """1-element object array holding a symbolic scalar: drives the ndim != 0 (np.where) branch of the real function"""
    import numpy as real_np
    a = real_np.empty(1, dtype=object)
    a[0] = v
    return a


def h_gcd(at, rng, array=False):
    def h(c):
        ra1, dec1, ra2, dec2 = angle_deg('ra1'), angle_deg('dec1'), angle_deg('ra2'), angle_deg('dec2')
        for d in (dec1, dec2):
            cd, _ = cs(d)
            c.assume(cd > 0)     # |dec| < 90 (the poles themselves are outside the claim)
        if array:
            real_gcd = at.gcd

            def gcd_arr(*a):
                r = real_gcd(*[_arr1(v) for v in a])
                ok = getattr(r, 'shape', None) == (1,) and isinstance(r[0], SN)
                c.oblige('gcd[array]:returns an array of the argument shape', z3.BoolVal(bool(ok)))
                if not ok:
                    raise core.Unsupported('array branch did not return a (1,) array')
                return r[0]
            at_gcd = gcd_arr
        else:
            at_gcd = at.gcd
        sep = at_gcd(ra1, dec1, ra2, dec2)
        # the second call forks on its own (mathematically equal) radicand: the two mixed branch pairs are infeasible but only
        # provably so with the trig identities, so their feasibility queries are cut short (an `unknown` fork is abandoned)
        c.solver.set('timeout', 4000)
        sep2 = at_gcd(ra2, dec2, ra1, dec1)
        out = {}

        def shape_of(sp):
            """sep = degrees(2 arcsin v) [near], or 180 - degrees(2 arcsin w) [far: distance to the antipode]; returns
            (kind, v, un-clamped radicand, cos(sep) as a polynomial in the radicand)"""
            g = sp.ang
            if g is None or g[2] != 0 or len(g[0]) != 1:
                return None
            (nm_, co), = g[0].items()
            if co == Fraction(2) and g[1] == 0:
                kind = 'near'
            elif co == Fraction(-2) and g[1] == 180:
                kind = 'far'
            else:
                return None
            v_ = c.angdefs[nm_][1]
            a_ = c.radicand.get(str(v_)) if z3.is_const(v_) else None
            if a_ is None:
                rad = [x for x in v_.children() if str(x) in c.radicand]      # v is If(1 <= rad, 1, rad)
                a_ = c.radicand[str(rad[0])] if rad else None
            if a_ is None:
                return None
            return kind, v_, a_, (1 - 2 * a_ if kind == 'near' else 2 * a_ - 1)
        sh1, sh2 = shape_of(sep), shape_of(sep2)
        c.oblige('gcd:is 2 arcsin(v) or 180 - 2 arcsin(w), in degrees', z3.BoolVal(sh1 is not None and sh2 is not None))
        if sh1 is None or sh2 is None:
            return out
        kind, v, a, cossep = sh1
        c.oblige('gcd:arcsin-arg-in-[0,1] (=> result in [0,180])', z3.And(v >= 0, v <= 1))
        kc = ('dec1', 'dec2')
        recs = [nz.identity(c, 'gcd:symmetric', cossep, sh2[3], keepcos=kc)]
        # independent vector formula: cos(sep) = p1 . p2
        c1, s1 = cs(dec1)
        c2, s2 = cs(dec2)
        ca1, sa1 = cs(ra1)
        ca2, sa2 = cs(ra2)
        dot = (c1 * ca1) * (c2 * ca2) + (c1 * sa1) * (c2 * sa2) + s1 * s2
        recs.append(nz.identity(c, 'gcd:cos(sep) == dot(p1,p2) [%s branch]' % kind, cossep, dot, keepcos=kc))
        out['xc'] = nz.crosscheck(c, cossep, dot, sampler(['ra1', 'dec1', 'ra2', 'dec2'], rng))
        # zero only for identical points / range, given the identity: |dot| <= 1 is Cauchy-Schwarz (not code)
        out['validate'] = (sep.e, ['ra1', 'dec1', 'ra2', 'dec2'])
        return out
    return h


def h_bear(at, rng):
    def h(c):
        ra1, dec1, ra2, dec2 = angle_deg('ra1'), angle_deg('dec1'), angle_deg('ra2'), angle_deg('dec2')
        b = at.bear(ra1, dec1, ra2, dec2)
        out = {}
        ok = b.ang is not None and b.ang[2] == 0 and list(b.ang[0].values()) == [Fraction(1)] and b.ang[1] == 0
        c.oblige('bear:is-arctan2-in-degrees', z3.BoolVal(bool(ok)))
        if not ok:
            return out
        (nm, _), = b.ang[0].items()
        x, y = c.angdefs[nm]
        # oracle: components of p2 along the local East and North unit vectors at p1
        c1, s1 = cs(dec1)
        c2, s2 = cs(dec2)
        ca1, sa1 = cs(ra1)
        ca2, sa2 = cs(ra2)
        p2 = (c2 * ca2, c2 * sa2, s2)
        east = (-sa1, ca1, z3.RealVal(0))
        north = (-s1 * ca1, -s1 * sa1, c1)
        ye = sum(p * e for p, e in zip(p2, east))
        xn = sum(p * n for p, n in zip(p2, north))
        nz.identity(c, 'bear:y == p2.East', y, ye)
        nz.identity(c, 'bear:x == p2.North', x, xn)
        out['xc'] = nz.crosscheck(c, y * 1 + x * 3, ye + xn * 3, sampler(['ra1', 'dec1', 'ra2', 'dec2'], rng))
        out['validate'] = (b.e, ['ra1', 'dec1', 'ra2', 'dec2'])
        return out
    return h


def h_translate(at, rng):
    def h(c):
        import numpy as np
        ra, dec, r, t = angle_deg('ra'), angle_deg('dec'), angle_deg('r'), angle_deg('t')
        cd, sd = cs(dec)
        c.assume(cd > 0)
        ra2, dec2 = at.translate(ra, dec, r, t)
        out = {}
        kc = ('dec',)
        # haversine of (start, end) == sin^2(r/2)
        dlon = ra2 - ra
        dlat = dec2 - dec
        a = np.sin(np.radians(dlat) / 2) ** 2 + np.cos(np.radians(dec)) * np.cos(np.radians(dec2)) * np.sin(np.radians(dlon) / 2) ** 2
        cr, sr = cs(r)
        nz.identity(c, 'translate:hav(start,end) == sin^2(r/2)', a.e, (1 - cr) / 2, keepcos=kc)
        # initial bearing start->end has direction t  (cross == 0, dot == sin r >= 0 for r in [0,180))
        rdec1, rdec2, rdlon = np.radians(dec), np.radians(dec2), np.radians(ra2 - ra)
        yb = np.sin(rdlon) * np.cos(rdec2)
        xb = np.cos(rdec1) * np.sin(rdec2) - np.sin(rdec1) * np.cos(rdec2) * np.cos(rdlon)
        ct, st_ = cs(t)
        nz.identity(c, 'translate:bearing cross t == 0', yb.e * ct - xb.e * st_, z3.RealVal(0), keepcos=kc)
        nz.identity(c, 'translate:bearing dot t == sin r', yb.e * st_ + xb.e * ct, sr, keepcos=kc)
        out['validate2'] = ((ra2.e, dec2.e), ['ra', 'dec', 'r', 't'])
        return out
    return h


def validate(rep, name, term, names, realfn, rng, c, n=40):
    bad = 0
    for _ in range(n):
        env = sampler(names, rng)()
        try:
            got = core.numeval(term, env, c)
        except (KeyError, ZeroDivisionError, ValueError):
            continue
        want = realfn(*[env[k] for k in names])
        if abs(got - want) > 1e-7 * max(1, abs(want)):
            # angles: compare modulo 360
            if abs(((got - want + 180) % 360) - 180) > 1e-7:
                bad += 1
    rep.validated_runs(n)
    if bad:
        rep.harness_error('executor validation: %s encoding disagrees with the real function on %d/%d random inputs' % (name, bad, n))


def run_sphere(rep, at, seed):
    rng = random.Random(seed)
    rat = loader.real('angle_tools')
    for name, hf, fn in (('K-gcd', h_gcd, 'gcd'), ('K-gcd-array', lambda a, r: h_gcd(a, r, array=True), 'gcd'),
                         ('K-bear', h_bear, 'bear'), ('K-translate', h_translate, 'translate')):
        rep.kernel(name, functions=[F + ':' + fn],
                   bounds='all real ra/dec/r/theta with cos(dec) > 0; identities over the trig atoms (c^2+s^2=1), exact'
                          + ('; arguments are 1-element object arrays (the np.ndim != 0 / np.where branch; element-wise code, so one '
                             'element stands for every position)' if name == 'K-gcd-array' else ''),
                   stubs=['np.sin/cos/radians/degrees/arcsin/arctan2/sqrt -> units-aware trig algebra (symx.core)',
                          'np.minimum -> ite'] + (['np.where -> per-element ite (forks on the symbolic condition)'] if name == 'K-gcd-array' else []),
                   assumes=['floats as reals', 'pi/180 is a symbolic constant K', 'sympy normalisation before the z3 query (cross-checked numerically)'],
                   outside=['triangle inequality', '1e-9 deg agreement near 0/180 deg (conditioning)', 'rhumb-line functions'])
        keep = {}

        def collectf(c, out, status, keep=keep):
            keep['c'] = c
            d = core.default_collect(c, out, status)
            return d
        st, res = explore(hf(at, rng), collect=collectf)
        rep.stats(st)
        for r in res:
            for ob in r['obligations']:
                rep.count(ob['result'] if ob['result'] in ('unsat', 'sat', 'unknown', 'vacuous') else 'unknown', ob['name'])
                if ob['result'] == 'sat':
                    replay_sphere(rep, fn, ob)
            out = r['out'] or {}
            if 'xc' in out and not out['xc'][0]:
                rep.harness_error('%s: normaliser cross-check failed (worst %g)' % (name, out['xc'][1]))
            c = keep.get('c')
            if 'validate' in out:
                validate(rep, fn, out['validate'][0], out['validate'][1], getattr(rat, fn), rng, c)
            if 'validate2' in out:
                (t1, t2), names = out['validate2']
                validate(rep, fn + '.ra', t1, names, lambda *a: rat.translate(*a)[0], rng, c)
                validate(rep, fn + '.dec', t2, names, lambda *a: rat.translate(*a)[1], rng, c)
            rep.sample(dict(kernel=name, obligations=[(o['name'], o['result'], o.get('normaliser', '')[:60]) for o in r['obligations']]))
        rep.end_kernel()


def vec(ra, dec):
    a, d = math.radians(ra), math.radians(dec)
    return (math.cos(d) * math.cos(a), math.cos(d) * math.sin(a), math.sin(d))


def oracle_sphere(fn, rng, n=400):
    """property-level oracle on the real functions at random points; returns (bad, cls, detail)"""
    at = loader.real('angle_tools')
    pairs, scalars = [], []
    if fn == 'gcd':
        # exactly antipodal and exactly coincident pairs at many declinations (the sum under the square root rounds to 1 + ulp / 0)
        for k in range(600):
            ra1, dec1 = rng.uniform(0, 360), -89.9 + 179.8 * k / 599.0
            ga = float(at.gcd(ra1, dec1, (ra1 + 180.0) % 360.0, -dec1))
            g0 = float(at.gcd(ra1, dec1, ra1, dec1))
            if not (abs(ga - 180.0) <= 1e-9):
                return True, 'antipodal', 'gcd(%r,%r,%r,%r)=%r for an antipodal pair' % (ra1, dec1, (ra1 + 180.0) % 360.0, -dec1, ga)
            if not (g0 == 0):
                return True, 'identical-points', 'gcd of a point with itself = %r at (%r, %r)' % (g0, ra1, dec1)
            # nearly antipodal: the antipode displaced by 1e-9 .. 1e-3 deg in an arbitrary direction
            off = 10 ** rng.uniform(-9, -3)
            ang = rng.uniform(0, 2 * math.pi)
            dec1n = max(-89.0, min(89.0, dec1))
            ra2, dec2 = (ra1 + 180.0 + off * math.sin(ang) / max(0.02, math.cos(math.radians(dec1n)))) % 360.0, -dec1n + off * math.cos(ang)
            gn = float(at.gcd(ra1, dec1n, ra2, dec2))
            pairs += [(ra1, dec1, (ra1 + 180.0) % 360.0, -dec1), (ra1, dec1, ra1, dec1), (ra1, dec1n, ra2, dec2)]
            scalars += [ga, g0, gn]
            p, q = vec(ra1, dec1n), vec(ra2, dec2)
            cr = (p[1] * q[2] - p[2] * q[1], p[2] * q[0] - p[0] * q[2], p[0] * q[1] - p[1] * q[0])
            wantn = math.degrees(math.atan2(math.sqrt(sum(x * x for x in cr)), sum(a * b for a, b in zip(p, q))))
            if not (abs(gn - wantn) <= 1e-9):
                return True, 'near-antipodal', 'gcd(%r,%r,%r,%r)=%r, vector formula %r (%.2g deg from the antipode)' % (ra1, dec1n, ra2, dec2, gn, wantn, 180 - wantn)
    for it in range(n):
        ra1, dec1, ra2, dec2 = rng.uniform(0, 360), rng.uniform(-89, 89), rng.uniform(0, 360), rng.uniform(-89, 89)
        if it % 4 == 0:
            # close pairs (arcseconds apart), also at large RA / |dec|
            ra1, dec1 = rng.choice([rng.uniform(0, 360), 350.0, 359.9]), rng.choice([rng.uniform(-85, 85), 80.0, -84.0])
            sep = 10 ** (rng.uniform(-9, -2) if fn == 'gcd' else rng.uniform(-4.5, -2))      # the bearing of a 1e-9 deg pair is below the resolution of its float coordinates
            ang = rng.uniform(0, 2 * math.pi)
            ra2, dec2 = ra1 + sep * math.sin(ang) / max(0.05, math.cos(math.radians(dec1))), dec1 + sep * math.cos(ang)
        if fn == 'gcd':
            g = float(at.gcd(ra1, dec1, ra2, dec2))
            pairs.append((ra1, dec1, ra2, dec2))
            scalars.append(g)
            p, q = vec(ra1, dec1), vec(ra2, dec2)
            cr = (p[1] * q[2] - p[2] * q[1], p[2] * q[0] - p[0] * q[2], p[0] * q[1] - p[1] * q[0])
            want = math.degrees(math.atan2(math.sqrt(sum(x * x for x in cr)), sum(a * b for a, b in zip(p, q))))
            if abs(g - want) > 1e-9 + 1e-12 * want or abs(g - float(at.gcd(ra2, dec2, ra1, dec1))) > 1e-9 or not (0 <= g <= 180) or (g == 0 and (ra1, dec1) != (ra2, dec2) and want > 1e-12):
                return True, 'vector-formula', 'gcd(%r,%r,%r,%r)=%r expected %r' % (ra1, dec1, ra2, dec2, g, want)
        elif fn == 'bear':
            b = float(at.bear(ra1, dec1, ra2, dec2))
            a1, d1 = math.radians(ra1), math.radians(dec1)
            q = vec(ra2, dec2)
            east = (-math.sin(a1), math.cos(a1), 0)
            north = (-math.sin(d1) * math.cos(a1), -math.sin(d1) * math.sin(a1), math.cos(d1))
            want = math.degrees(math.atan2(sum(x * y for x, y in zip(q, east)), sum(x * y for x, y in zip(q, north))))
            if abs(((b - want + 180) % 360) - 180) > 1e-7:
                return True, 'position-angle', 'bear(%r,%r,%r,%r)=%r expected %r' % (ra1, dec1, ra2, dec2, b, want)
        else:
            r, t = rng.uniform(0.01, 179), rng.uniform(0, 360)
            ra3, dec3 = at.translate(ra1, dec1, r, t)
            p, q = vec(ra1, dec1), vec(float(ra3), float(dec3))
            cr = (p[1] * q[2] - p[2] * q[1], p[2] * q[0] - p[0] * q[2], p[0] * q[1] - p[1] * q[0])
            d = math.degrees(math.atan2(math.sqrt(sum(x * x for x in cr)), sum(a * b for a, b in zip(p, q))))
            a1, d1 = math.radians(ra1), math.radians(dec1)
            east = (-math.sin(a1), math.cos(a1), 0)
            north = (-math.sin(d1) * math.cos(a1), -math.sin(d1) * math.sin(a1), math.cos(d1))
            b = math.degrees(math.atan2(sum(x * y for x, y in zip(q, east)), sum(x * y for x, y in zip(q, north))))
            if abs(d - r) > 1e-6 or abs(((b - t + 180) % 360) - 180) > 1e-5:
                return True, 'distance-bearing', 'translate(%r,%r,%r,%r)=(%r,%r): distance %r bearing %r' % (ra1, dec1, r, t, ra3, dec3, d, b)
    if fn == 'gcd' and pairs:
        # the same pairs handed over as arrays, and one point against arrays: element for element the scalar answers
        import numpy as real_np
        A = real_np.array(pairs, dtype=float)
        gv = real_np.asarray(at.gcd(A[:, 0], A[:, 1], A[:, 2], A[:, 3]), dtype=float)
        k = int(real_np.argmax(real_np.abs(gv - real_np.array(scalars)))) if gv.shape == (len(pairs),) else 0
        if gv.shape != (len(pairs),) or abs(gv[k] - scalars[k]) > 1e-11:
            return True, 'array-arguments', 'gcd with array arguments: element %d (%r) is %r, the scalar call gives %r' % (k, pairs[k], gv[k] if gv.shape == (len(pairs),) else gv.shape, scalars[k])
        ra0, dec0 = pairs[-1][0], pairs[-1][1]
        gm = real_np.asarray(at.gcd(ra0, dec0, A[:, 2], A[:, 3]), dtype=float)
        for k in list(range(0, len(pairs), 37)) + [len(pairs) - 1]:
            gk = float(at.gcd(ra0, dec0, pairs[k][2], pairs[k][3]))
            if abs(gm[k] - gk) > 1e-11:
                return True, 'array-arguments', 'gcd of one point against arrays: element %d is %r, the scalar call gives %r' % (k, gm[k], gk)
    return False, None, None


def replay_sphere(rep, fn, ob):
    rng = random.Random(12345)
    bad, cls, detail = oracle_sphere(fn, rng)
    if bad:
        rep.finding('C17/K-%s/%s' % (fn, cls), dict(fn=fn, obligation=ob['name'], detail=detail), detail)
    else:
        rep.finding('C17/K-%s/%s' % (fn, ob['name']), dict(fn=fn), 'identity %s has a model but the real function matches the vector oracle on 400 points' % ob['name'], reproduced=False)


def run(rep):
    at = sym_at()
    rep.assume('floats modelled as reals except where stated', 'real angle_tools source loaded from REPO_ROOT on every run')
    run_sexa(rep, at)
    run_sphere(rep, at, rep.seed)
    # floating-point level (invisible to the real-arithmetic kernels): the real functions against the vector formula on
    # random pairs, a quarter of them 1e-9 .. 1e-2 deg apart, tolerance 1e-9 deg as stated
    rep.kernel('K-replay-oracle', functions=[F + ':gcd', F + ':bear', F + ':translate'], bounds='400 random pairs per function (100 of them close pairs down to 1e-9 deg), concrete floats',
               assumes=['concrete executions: rounding behaviour is outside the real-arithmetic kernels'])
    # sexagesimal strings at the places where two roundings can disagree: whole arc-minutes / time-minutes, whole degrees, values
    # that round up to the next minute, plus random values
    rng_ = random.Random(rep.seed + 5)
    sdone = False
    for kind, lo, hi, unit in (('dms', -90.0, 90.0, 1.0), ('hms', 0.0, 360.0, 15.0)):
        xs = []
        for _ in range(400):
            d_ = rng_.randint(0, int(hi / unit) - 1)
            m_ = rng_.randint(0, 59)
            sgn = -1 if (kind == 'dms' and rng_.random() < 0.5) else 1
            xs.append(sgn * unit * (d_ + m_ / 60.0))                                  # on a whole minute
            xs.append(sgn * unit * (d_ + m_ / 60.0 + rng_.choice([59.996, 59.9951, 0.004, 30.0]) / 3600.0))
            xs.append(rng_.uniform(lo, hi))
        for xf in xs:
            if not (lo <= xf <= hi) or (kind == 'hms' and xf >= 360):
                continue
            bad, cls, detail = oracle_sexa(kind, xf)
            rep.validated_runs(1)
            if bad and not sdone:
                rep.finding('C17/K-sexa/dec2%s:%s' % (kind, cls), dict(kind=kind, x=xf), 'dec2%s(%r) = %s violates %s' % (kind, xf, detail, cls), kernel='K-replay-oracle')
                sdone = True
                break
    for fn in ('gcd', 'bear', 'translate'):
        nor = 6000 if rep.tier == 'thorough' else 400
        bad, cls, detail = oracle_sphere(fn, random.Random(rep.seed + 17), n=nor)
        rep.validated_runs(nor)
        if bad:
            rep.finding('C17/K-%s/%s' % (fn, cls), dict(fn=fn, detail=detail, seed=rep.seed + 17), detail, kernel='K-replay-oracle')
    rep.end_kernel()
    rep.not_decided += ['triangle inequality of gcd', '1e-9 deg agreement near zero/antipodal separations (floating point: replay oracle only)', 'array arguments (same element-wise numpy code path)']


def replay(w):
    wit = w['witness']
    if 'kind' in wit:
        bad, cls, detail = oracle_sexa(wit['kind'], float(wit['x']))
        return bad, 'dec2%s(%r) -> %s [%s]' % (wit['kind'], wit['x'], detail, cls)
    bad, cls, detail = oracle_sphere(wit['fn'], random.Random(int(wit.get('seed', 12345))))
    return bad, str(detail)


if __name__ == '__main__':
    main(sys.modules[__name__])
