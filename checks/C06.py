"""C06 BANE background/noise maps obey the estimator contract (partial: index/dataflow arithmetic and estimator algebra).
K-grid     : backward slice of sigma_filter's row/column/box arithmetic on symbolic image, stripe, grid and box sizes (LIA)
K-dataflow : the rows background-subtracted before pass 2 cover every row an rms box can read, aligned with ibkg
K-mask     : the mask rows are the stripe's own rows, aligned with the shared maps
K-sigmaclip: the real sigmaclip on symbolic samples, relational runs under shift and scale"""
import ast
import os
import shutil
import subprocess
import sys
import tempfile

import numpy as real_np
import z3

from symx import core, loader, slicer
from symx.core import SN, SB, real, explore
from symx.report import main
from checks.C07 import SymRange, SymList, sym_range, sym_list, sym_len, conc_list

PID = 'C06'
F = 'AegeanTools/BANE.py'


class LazyData:
    """stands for the stripe's data array: only its shape is needed by the sliced arithmetic"""
    def __init__(self):
        self.shape = None


class GridRec:
    def __getitem__(self, key):
        return ('mgrid', key), ('mgrid', key)


def slice_grid():
    rows, cols = slicer.names_by_role(F, 'sigma_filter', 'interp-axes') or ('rows', 'cols')       # the node lists, found by their role
    return slicer.slice_function(F, 'sigma_filter', targets=['data_row_min', 'data_row_max', rows, cols, 'gr', 'gc', 'box'], calls=[rows + '.append', cols + '.append'],
                                 params=['region', 'box_size', 'shape', 'step_size', 'data'], returns=['data_row_min', 'data_row_max', rows, cols, 'box', 'gr'], closure=True, closure_exclude=['data'])


def setup(c, nstripe_mode):
    H, W = core.integer('H'), core.integer('W')
    ymin, ymax = core.integer('ymin'), core.integer('ymax')
    g0, g1 = core.integer('grid0'), core.integer('grid1')
    b0, b1 = core.integer('box0'), core.integer('box1')
    for v in (H, W):
        c.assume(v.e >= 2)
    c.assume(ymin.e >= 0)
    c.assume(ymin.e < ymax.e)
    c.assume(ymax.e <= H.e)
    for g, b in ((g0, b0), (g1, b1)):
        c.assume(g.e >= 1)
        c.assume(b.e >= 4)
        c.assume(b.e >= g.e)
    if nstripe_mode == 'single':
        c.assume(ymin.e == 0)
        c.assume(ymax.e == H.e)
    return H, W, ymin, ymax, (g0, g1), (b0, b1)


def run_slice(c, fac, mode):
    H, W, ymin, ymax, grid, box = setup(c, mode)
    data = LazyData()

    class NP(loader.NPProxy):
        mgrid = GridRec()
    glob = dict(core.BUILTINS)
    glob.update(range=sym_range, list=sym_list, len=sym_len, np=NP(), logging=loader.NullLog(), strftime=lambda *a: '', gmtime=lambda *a: 0)
    f = fac(glob)
    drm, drM, rows, cols, boxf, gr = f((ymin, ymax), box, (H, W), grid, data)
    data.shape = (drM - drm, W)
    return dict(H=H, W=W, ymin=ymin, ymax=ymax, grid=grid, box=box, drm=drm, drM=drM, rows=rows, cols=cols, boxf=boxf, gr=gr, data=data)


def h_grid(fac, mode):
    def h(c):
        E = run_slice(c, fac, mode)
        H, W, ymin, ymax, drm, drM, rows, cols = [E[k] for k in ('H', 'W', 'ymin', 'ymax', 'drm', 'drM', 'rows', 'cols')]
        tag = 'grid[%s]' % mode
        L = lambda v: core.lift(v)
        c.oblige(tag + ':data rows = stripe +- half a box, clipped to the image', z3.And(L(drm) >= 0, L(drm) <= ymin.e, L(drM) >= ymax.e, L(drM) <= H.e,
                                                                                        z3.Or(L(drm) == 0, L(drm) == ymin.e - E['box'][0].e / 2), z3.Or(L(drM) == H.e, L(drM) == ymax.e + E['box'][0].e / 2)))
        if not isinstance(rows, SymList) or not isinstance(cols, SymList):
            c.oblige(tag + ':node lists built from range()+append', z3.BoolVal(False))
            return dict()
        k = z3.Int('k')
        Lr, Lc = rows.length(), cols.length()
        # the pixels to be interpolated (gr, gc) come from np.mgrid[a:b, c:d]
        gk = E['gr'][1]
        ok = isinstance(gk, tuple) and len(gk) == 2 and all(isinstance(x, slice) for x in gk)
        c.oblige(tag + ':interpolation targets from np.mgrid[rows, cols]', z3.BoolVal(bool(ok)))
        if not ok:
            return dict()
        ra, rb, ca, cb = L(gk[0].start), L(gk[0].stop), L(gk[1].start), L(gk[1].stop)
        c.oblige(tag + ':targets are exactly the stripe rows x all columns (output shape = stripe shape)', z3.And(ra == ymin.e - L(drm), rb == ymax.e - L(drm), ca == 0, cb == W.e))
        c.oblige(tag + ':row nodes strictly increasing', z3.Implies(z3.And(k >= 0, k < Lr - 1), rows.at(k) < rows.at(k + 1)))
        c.oblige(tag + ':col nodes strictly increasing', z3.Implies(z3.And(k >= 0, k < Lc - 1), cols.at(k) < cols.at(k + 1)))
        c.oblige(tag + ':at least two row and two col nodes', z3.And(Lr >= 2, Lc >= 2))
        c.oblige(tag + ':row nodes bracket every target row (no extrapolation)', z3.And(rows.at(z3.IntVal(0)) <= ra, rows.at(Lr - 1) >= rb - 1), assume=[Lr >= 1])
        c.oblige(tag + ':col nodes bracket every target col (no extrapolation)', z3.And(cols.at(z3.IntVal(0)) <= ca, cols.at(Lc - 1) >= cb - 1), assume=[Lc >= 1])
        # node spacing is the grid step
        c.oblige(tag + ':row node spacing == grid step except the last cell', z3.Implies(z3.And(k >= 0, k < Lr - 2), rows.at(k + 1) - rows.at(k) == E['grid'][0].e))
        # boxes: evaluate the real nested box() at an arbitrary node
        j = z3.Int('j')
        rnode = SN(rows.at(k))
        cnode = SN(cols.at(j))
        r_min, r_max, c_min, c_max = E['boxf'](rnode, cnode)
        nodeok = [k >= 0, k < Lr, j >= 0, j < Lc]
        c.oblige(tag + ':every box slice is non-empty and inside the data', z3.And(L(r_min) >= 0, L(r_min) < L(r_max), L(r_max) <= L(E['data'].shape[0]), L(c_min) >= 0, L(c_min) < L(c_max), L(c_max) <= W.e), assume=nodeok)
        c.oblige(tag + ':box spans node +- half a box, clipped', z3.And(z3.Or(L(r_min) == 0, L(r_min) == rows.at(k) - E['box'][0].e / 2), L(r_max) <= rows.at(k) + E['box'][0].e / 2,
                                                                       z3.Or(L(c_min) == 0, L(c_min) == cols.at(j) - E['box'][1].e / 2), L(c_max) <= cols.at(j) + E['box'][1].e / 2), assume=nodeok)
        # masking clause: a pixel farther than box/2 + grid from every blank pixel stays finite. The value at (r, c) is
        # interpolated from the bracketing nodes only; every data pixel that enters the boxes of those nodes lies within
        # box//2 + grid (Chebyshev) of (r, c), so a blank farther away cannot reach it.
        i, rr, q = z3.Int('i'), z3.Int('rr'), z3.Int('q')
        for nm, ax, Ln, lo, hi, bidx, gstep in (('row', rows, Lr, ra, rb, 0, E['grid'][0]), ('col', cols, Lc, ca, cb, 1, E['grid'][1])):
            for which in (0, 1):
                node = ax.at(i + which)
                if bidx == 0:
                    bmin, bmax, _, _ = E['boxf'](SN(node), SN(cols.at(z3.IntVal(0))))
                else:
                    _, _, bmin, bmax = E['boxf'](SN(rows.at(z3.IntVal(0))), SN(node))
                pre = [i >= 0, i < Ln - 1, rr >= lo, rr < hi, ax.at(i) <= rr, rr <= ax.at(i + 1), q >= L(bmin), q < L(bmax)]
                c.oblige(tag + ':every data %s read for the %s bracketing node lies within box//2 + grid of the target %s' % (nm, ('lower', 'upper')[which], nm),
                         z3.And(q - rr <= E['box'][bidx].e / 2 + gstep.e, rr - q <= E['box'][bidx].e / 2 + gstep.e), assume=pre)
        return dict()
    return h


def subtraction_statement():
    """the statement that subtracts ibkg from the data before pass 2: (target slice expr or None for the whole array, value slice expr)"""
    f = slicer.get_function(F, 'sigma_filter')
    for n in ast.walk(f):
        if isinstance(n, ast.AugAssign) and isinstance(n.op, ast.Sub) and 'ibkg' in ast.unparse(n.value):
            return n
    raise slicer.AnchorMissing('sigma_filter: no `... -= ibkg[...]` statement')


def mask_statements():
    f = slicer.get_function(F, 'sigma_filter')
    m = None
    writes = []
    for n in ast.walk(f):
        if isinstance(n, ast.Assign) and ast.unparse(n.targets[0]) == 'mask' and 'isfinite' in ast.unparse(n.value):
            m = n
        if isinstance(n, ast.Assign) and isinstance(n.targets[0], ast.Subscript) and 'mask' in ast.unparse(n.targets[0]) and ast.unparse(n.targets[0]).startswith(('ibkg', 'irms')):
            writes.append(n)
    if m is None or not writes:
        raise slicer.AnchorMissing('sigma_filter: mask statements not found')
    return m, writes


def row_range(node, env, total):
    """rows selected by a subscript expression like X[a:b, :] (or a bare name = all rows): (lo, hi) z3 terms"""
    if isinstance(node, ast.Name):
        return z3.IntVal(0), core.lift(total)
    if isinstance(node, ast.Subscript):
        sl = node.slice
        first = sl.elts[0] if isinstance(sl, ast.Tuple) else sl
        if isinstance(first, ast.Slice):
            lo = eval(compile(ast.Expression(body=first.lower), '<lo>', 'eval'), dict(env)) if first.lower is not None else 0
            hi = eval(compile(ast.Expression(body=first.upper), '<hi>', 'eval'), dict(env)) if first.upper is not None else total
            return core.lift(lo), core.lift(hi)
    raise slicer.AnchorMissing('unexpected row selection %s' % ast.unparse(node))


def find_sub(node, name):
    """first Subscript (or Name) inside node whose base name is `name`"""
    for n in ast.walk(node):
        if isinstance(n, ast.Subscript) and isinstance(n.value, ast.Name) and n.value.id == name:
            return n
    for n in ast.walk(node):
        if isinstance(n, ast.Name) and n.id == name:
            return n
    return None


def h_dataflow(fac, mode):
    def h(c):
        E = run_slice(c, fac, mode)
        H, W, ymin, ymax, drm, drM, rows, cols = [E[k] for k in ('H', 'W', 'ymin', 'ymax', 'drm', 'drM', 'rows', 'cols')]
        L = core.lift
        env = dict(ymin=ymin, ymax=ymax, data_row_min=drm, data_row_max=drM, data=E['data'], shape=(H, W))
        st = subtraction_statement()
        lo, hi = row_range(st.target, env, E['data'].shape[0])
        ib = find_sub(st.value, 'ibkg')
        A, B = row_range(ib, env, H)
        tag = 'dataflow[%s]' % mode
        c.oblige(tag + ':subtracted data rows and ibkg rows are the same image rows', z3.And(A == L(drm) + lo, B - A == hi - lo))
        k, j = z3.Int('k'), z3.Int('j')
        Lr, Lc = rows.length(), cols.length()
        r_min, r_max, c_min, c_max = E['boxf'](SN(rows.at(k)), SN(cols.at(j)))
        c.oblige(tag + ':every row an rms box can read was background subtracted', z3.And(L(r_min) >= lo, L(r_max) <= hi), assume=[k >= 0, k < Lr, j >= 0, j < Lc])
        # mask alignment
        m, writes = mask_statements()
        md = find_sub(m.value, 'data')
        mlo, mhi = row_range(md, env, E['data'].shape[0])
        c.oblige('mask[%s]:mask built from the stripe\'s own rows' % mode, z3.And(mlo == ymin.e - L(drm), mhi - mlo == ymax.e - ymin.e))
        for wst in writes:
            base = wst.targets[0].value      # ibkg[ymin:ymax, :]  of  ibkg[ymin:ymax, :][mask]
            wl, wh = row_range(base, env, H)
            c.oblige('mask[%s]:%s rows masked are the stripe rows' % (mode, ast.unparse(base).split('[')[0]), z3.And(wl == ymin.e, wh == ymax.e))
        names = sorted(set(ast.unparse(w.targets[0].value).split('[')[0] for w in writes))
        c.oblige('mask[%s]:both maps are masked' % mode, z3.BoolVal(names == ['ibkg', 'irms']))
        return dict()
    return h


def k_bscale(rep):
    """where BSCALE enters: the pixel data must be scaled BEFORE the statistics (mean scales by k, noise by |k|: K-sigmaclip),
    the finished maps must not be multiplied by it, and the written files are divided by it (to be read back scaled)"""
    rep.kernel('K-bscale', functions=[F + ':sigma_filter', F + ':filter_mc_sharemem', F + ':filter_image'], bounds='syntactic dataflow of header[BSCALE] in the three functions',
               assumes=['with the scaling applied to the data first, background scales by k and noise by |k| by K-sigmaclip'])
    sf = slicer.get_function(F, 'sigma_filter')
    mc = slicer.get_function(F, 'filter_mc_sharemem')
    fi = slicer.get_function(F, 'filter_image')

    def scaled_targets(fn):
        out = []
        for n in ast.walk(fn):
            if isinstance(n, ast.AugAssign) and isinstance(n.op, ast.Mult) and 'BSCALE' in ast.unparse(n.value):
                out.append((ast.unparse(n.target), n.lineno))
            if isinstance(n, ast.Assign) and 'BSCALE' in ast.unparse(n.value) and isinstance(n.value, ast.BinOp) and isinstance(n.value.op, ast.Mult):
                out.append((ast.unparse(n.targets[0]), n.lineno))
        return out
    t_sf = scaled_targets(sf)
    first_stat = min([n.lineno for n in ast.walk(sf) if isinstance(n, ast.Call) and getattr(n.func, 'id', '') == 'sigmaclip'] or [10 ** 9])
    ok1 = any(t == 'data' and ln < first_stat for t, ln in t_sf)
    ok2 = not scaled_targets(mc) and not [t for t, ln in t_sf if t != 'data']
    div = [ast.unparse(n) for n in ast.walk(fi) if isinstance(n, ast.BinOp) and isinstance(n.op, ast.Div) and 'bscale' in ast.unparse(n.right).lower()]
    mul = [ast.unparse(n) for n in ast.walk(fi) if isinstance(n, ast.BinOp) and isinstance(n.op, ast.Mult) and 'bscale' in ast.unparse(n).lower()]
    ok3 = not mul
    for name, ok in (('bscale:pixel data are scaled by BSCALE before any statistic is computed', ok1), ('bscale:the finished maps are never multiplied by BSCALE', ok2 and ok3)):
        rep.count('unsat' if ok else 'sat', name)
        if not ok:
            bad, cls, detail = bane_oracle(dict(H=48, W=40, grid=4, box=12, cores=2, nslice=2, offset=10.0, scale=2.0, nanblock=False, bscale=-2.5))
            rep.finding('C06/K-bscale/%s' % (cls or name.split(':')[-1]), dict(kind='bane', cfg=dict(H=48, W=40, grid=4, box=12, cores=2, nslice=2, offset=10.0, scale=2.0, nanblock=False, bscale=-2.5)), detail or name, reproduced=bad)
    rep.sample(dict(kernel='K-bscale', scaled_in_sigma_filter=t_sf, divisions_in_filter_image=div))
    rep.end_kernel()


# ------------------------------------------------------------------------------------------------
def h_sigmaclip(bane, n, lo, mode, kval=None):
    def h(c):
        vals = [real('v%d' % i) for i in range(n)]
        arr = real_np.array(vals, dtype=object)
        tag = 'sigmaclip[n=%d,clip=%s,%s]' % (n, lo, mode if kval is None else '%s %s' % (mode, kval))
        isnan = lambda v: isinstance(v, (float, real_np.floating)) and v != v
        if mode == 'const':
            cc = real('c')
            arr = real_np.array([cc] * n, dtype=object)
            m, s = bane.sigmaclip(arr, lo, lo)
            if isnan(m) or isnan(s):
                c.oblige(tag + ':constant samples give (c, 0)', z3.BoolVal(False))
                return dict()
            c.oblige(tag + ':constant samples give (c, 0)', z3.And(core.lift(m) == cc.e, core.lift(s) == 0))
            return dict()
        m, s = bane.sigmaclip(arr, lo, lo)
        if isnan(m) or isnan(s):
            c.oblige(tag + ':finite samples give finite statistics', z3.BoolVal(False))
            return dict()
        mx = core.sym_max(vals)
        mn = core.sym_min(vals)
        if mode == 'range':
            c.oblige(tag + ':min <= mean <= max', z3.And(core.lift(m) >= mn.e, core.lift(m) <= mx.e))
            c.oblige(tag + ':0 <= std <= max - min', z3.And(core.lift(s) >= 0, core.lift(s) <= mx.e - mn.e), timeout_ms=60000)
            return dict()
        if mode == 'shift':
            cc = real('c')
            arr2 = real_np.array([v + cc for v in vals], dtype=object)
            m2, s2 = bane.sigmaclip(arr2, lo, lo)
            c.oblige(tag + ':mean(arr + c) == mean(arr) + c', core.lift(m2) == core.lift(m) + cc.e)
            c.oblige(tag + ':std(arr + c) == std(arr)', core.lift(s2) == core.lift(s))
            return dict()
        if mode == 'scale':
            arr2 = real_np.array([v * kval for v in vals], dtype=object)
            m2, s2 = bane.sigmaclip(arr2, lo, lo)
            c.oblige(tag + ':mean(k arr) == k mean(arr)', core.lift(m2) == core.lift(m) * core.const(kval))
            c.oblige(tag + ':std(k arr) == |k| std(arr)', core.lift(s2) == core.lift(s) * core.const(abs(kval)))
            return dict()
    return h


# ------------------------------------------------------------------------------------------------
RUNNER = r'''
import sys, os, json, numpy as np
sys.path.insert(0, os.environ['REPO_ROOT'])
from astropy.io import fits
from AegeanTools import BANE
cfg = json.load(open(sys.argv[1]))
d = os.path.dirname(sys.argv[1])
H, W = cfg['H'], cfg['W']
rng = np.random.default_rng(7)
yy, xx = np.mgrid[0:H, 0:W]
img = rng.normal(0, 1, (H, W)) + 0.02 * yy
if cfg.get('nanblock'):
    img[5:9, 7:12] = np.nan
if cfg.get('blankcols'):
    img[:, :cfg['blankcols']] = np.nan
if cfg.get('outliers'):
    m_ = rng.random((H, W)) < 0.04
    img[m_] += 12.0
if cfg.get('infs'):
    img[20, 20] = np.inf
    img[30, 5] = -np.inf
    img[2:4, 30:33] = np.inf
BS = cfg.get('bscale')
def run(a, tag):
    fn = os.path.join(d, tag + '.fits')
    hdr = fits.Header(); hdr['BMAJ'] = 1.0; hdr['BMIN'] = 1.0; hdr['CDELT1'] = -0.25; hdr['CDELT2'] = 0.25
    if BS:
        # store a/BS with BSCALE=BS so that the physical values are a
        hdu = fits.PrimaryHDU((a / BS).astype(np.float64), header=hdr)
        hdu.header['BSCALE'] = BS
        hdu.writeto(fn, overwrite=True)
        with fits.open(fn, mode='update', do_not_scale_image_data=True) as h:
            h[0].header['BSCALE'] = BS
        return BANE.filter_image(fn, None, step_size=(cfg['grid'], cfg['grid']), box_size=(cfg['box'], cfg['box']), cores=cfg['cores'], nslice=cfg['nslice'], mask=True)
    if cfg.get('cube4'):
        cube = np.empty((3, 3) + a.shape)
        for p_ in range(3):
            for q_ in range(3):
                cube[p_, q_] = a * (2.0 + p_) + 40.0 * (1 + p_ + 3 * q_)      # every other plane: another level and noise
        cube[0, 1] = a
        fits.PrimaryHDU(cube.astype(np.float64), header=hdr).writeto(fn, overwrite=True)
        return BANE.filter_image(fn, None, step_size=(cfg['grid'], cfg['grid']), box_size=(cfg['box'], cfg['box']), cores=cfg['cores'], nslice=cfg['nslice'], mask=True, cube_index=1)
    fits.PrimaryHDU(a.astype(np.float64), header=hdr).writeto(fn, overwrite=True)
    return BANE.filter_image(fn, None, step_size=(cfg['grid'], cfg['grid']), box_size=(cfg['box'], cfg['box']), cores=cfg['cores'], nslice=cfg['nslice'], mask=True)
out = {}
b0, r0 = run(img, 'a')
c = cfg['offset']
b1, r1 = run(img + c, 'b')
k = cfg['scale']
b2, r2 = run(img * k, 'c')
bc, rc = run(np.full((H, W), 3.25), 'd')
fin = np.isfinite(img)
res = dict(
    shape_ok=(b0.shape == img.shape and r0.shape == img.shape),
    const_bkg=float(np.nanmax(np.abs(bc - 3.25))), const_rms=float(np.nanmax(np.abs(rc))),
    shift_bkg=float(np.nanmax(np.abs((b1 - c) - b0))), shift_rms=float(np.nanmax(np.abs(r1 - r0))),
    scale_bkg=float(np.nanmax(np.abs(b2 - k * b0))), scale_rms=float(np.nanmax(np.abs(r2 - abs(k) * r0))),
    range_ok=bool(np.nanmin(b0) >= np.nanmin(img) - 1e-6 and np.nanmax(b0) <= np.nanmax(img) + 1e-6 and np.nanmin(r0) >= 0 and np.nanmax(r0) <= np.nanmax(img) - np.nanmin(img)),
    blank_in_blank_out=bool(np.all(~np.isfinite(b0[~fin])) and np.all(~np.isfinite(r0[~fin]))),
    noblank_extra=int(np.sum(~np.isfinite(b0[fin])) + np.sum(~np.isfinite(r0[fin]))) if not cfg.get('nanblock') else 0,
    const_blank=int(np.sum(~np.isfinite(bc)) + np.sum(~np.isfinite(rc))), rms_scale=float(np.nanmedian(r0)))
json.dump(res, open(os.path.join(d, 'res.json'), 'w'))
'''


def bane_oracle(cfg):
    """property-level oracle: the real BANE on img, img+c, k*img and a constant image"""
    import json
    d = tempfile.mkdtemp(prefix='c06_', dir='/var/tmp')
    try:
        json.dump(cfg, open(os.path.join(d, 'cfg.json'), 'w'))
        open(os.path.join(d, 'run.py'), 'w').write(RUNNER)
        env = dict(os.environ)
        env['REPO_ROOT'] = loader.REPO
        env.pop('AEGEAN_VERIF_SCHEDULE', None)
        try:
            subprocess.run(['/venv/bin/python', os.path.join(d, 'run.py'), os.path.join(d, 'cfg.json')], env=env, timeout=120, stdout=subprocess.DEVNULL, stderr=subprocess.DEVNULL, start_new_session=True)
        except subprocess.TimeoutExpired:
            return True, 'hang', 'BANE did not finish within 120 s for %s' % cfg
        if not os.path.exists(os.path.join(d, 'res.json')):
            return True, 'raises', 'BANE failed for %s' % cfg
        r = json.load(open(os.path.join(d, 'res.json')))
    finally:
        shutil.rmtree(d, ignore_errors=True)
    tol = 2e-3 * max(1.0, abs(cfg['offset']) * 1e-4)     # float32 maps
    rs = max(r['rms_scale'], 1e-6)
    if not r['shape_ok']:
        return True, 'shape', 'maps do not have the image shape'
    if r.get('noblank_extra') or r.get('const_blank'):
        return True, 'blank-in-maps', 'an image without blank pixels gives maps with %d blank pixels (constant image: %d) for grid=%d box=%d' % (r.get('noblank_extra', 0), r.get('const_blank', 0), cfg['grid'], cfg['box'])
    if r['shift_rms'] > 0.02 * rs + abs(cfg['offset']) * 1e-6:
        return True, 'margin-not-subtracted', 'adding %g to the image changed the noise map by up to %.4g (median noise %.3g) with %d stripes' % (cfg['offset'], r['shift_rms'], rs, cfg['nslice'])
    if r['shift_bkg'] > 0.02 * rs + abs(cfg['offset']) * 1e-6:
        return True, 'shift-bkg', 'background did not shift by the added constant (max deviation %.4g)' % r['shift_bkg']
    if r['const_bkg'] > 1e-5 or r['const_rms'] > 1e-5:
        return True, 'constant-image', 'constant image gives bkg-c=%.3g rms=%.3g' % (r['const_bkg'], r['const_rms'])
    if r['scale_bkg'] > 0.02 * rs * abs(cfg['scale']) or r['scale_rms'] > 0.02 * rs * abs(cfg['scale']):
        return True, 'scale', 'scaling by %g: bkg deviation %.3g rms deviation %.3g' % (cfg['scale'], r['scale_bkg'], r['scale_rms'])
    if not r['range_ok']:
        return True, ('negative-noise-bscale' if cfg.get('bscale') else 'range'), 'maps leave the range of the input (background within the pixel range, 0 <= noise <= range)%s' % (' with BSCALE=%s' % cfg['bscale'] if cfg.get('bscale') else '')
    if not r['blank_in_blank_out']:
        return True, 'mask', 'a blank input pixel is finite in a map'
    return False, None, None


# ------------------------------------------------------------------------------------------------
# K-exec: the whole real sigma_filter, every stripe, on a small image of symbolic pixels
# ------------------------------------------------------------------------------------------------
import threading
from bisect import bisect_right
from fractions import Fraction


class OA(real_np.ndarray):
    """object ndarray of pixels (symbolic reals, NaN, +-inf) that survives astype(float64)"""
    def astype(self, *a, **k):
        return self.copy()


def oa(a):
    return real_np.asarray(a, dtype=object).view(OA)


class ExecNP(loader.NPProxy):
    def __init__(self, shared):
        loader.NPProxy.__init__(self)
        self._shared = shared

    def ndarray(self, shape, dtype=None, buffer=None):
        return self._shared[buffer]

    def zeros(self, shape=None, dtype=None, **kw):
        out = real_np.empty(shape, dtype=object)
        out[...] = 0
        return out

    def array(self, a, *args, **kw):
        if isinstance(a, real_np.ndarray) and a.dtype == object:
            return a
        return loader.NPProxy.array(self, a, *args, **kw)


def _finite(v):
    return isinstance(v, SN) or (v == v and v not in (float('inf'), float('-inf')))


class ClipStub:
    """sigmaclip by contract: non-finite samples are ignored; no sample -> (NaN, NaN); otherwise
    (mean, std) = (x0 + M_n(x - x0), S_n(x - x0)) with M_n, S_n uninterpreted: the statistics depend on the samples only
    through their differences (shift equivariance, decided on the real function for n <= 3 in K-sigmaclip), S >= 0,
    and identical samples give (that value, 0)"""
    def __init__(self, c):
        self.c = c
        self.calls = 0

    def __call__(self, arr, lo, hi, reps=10):
        self.calls += 1
        vals = [v for v in real_np.ravel(arr) if _finite(v)]
        if not vals:
            return float('nan'), float('nan')
        ref = core.lift(vals[0])
        ref = z3.ToReal(ref) if ref.sort().kind() == z3.Z3_INT_SORT else ref
        diffs = []
        for v in vals:
            e = core.lift(v)
            e = z3.ToReal(e) if e.sort().kind() == z3.Z3_INT_SORT else e
            diffs.append(z3.simplify(e - ref))
        if all(z3.is_rational_value(d) and d.numerator_as_long() == 0 for d in diffs):
            return SN(ref), SN(z3.RealVal(0))
        n = len(diffs)
        M = z3.Function('clipmean_%d' % n, *([z3.RealSort()] * n + [z3.RealSort()]))
        S = z3.Function('clipstd_%d' % n, *([z3.RealSort()] * n + [z3.RealSort()]))
        s_ = S(*diffs)
        self.c.assume(s_ >= 0)
        return SN(ref + M(*diffs)), SN(s_)


class RGI:
    """RegularGridInterpolator(method='linear') by contract: bilinear weights of the enclosing cell in exact rationals; all
    four corners enter the sum (a NaN corner gives NaN even at weight 0, as in scipy)"""
    def __init__(self, points, values, **kw):
        self.rows, self.cols = [int(x) for x in points[0]], [int(x) for x in points[1]]
        self.vals = values

    def _cell(self, grid, x):
        i = min(max(bisect_right(grid, x) - 1, 0), len(grid) - 2)
        return i, Fraction(x - grid[i], grid[i + 1] - grid[i])

    def __call__(self, xi):
        gr, gc = xi
        out = real_np.empty(gr.shape, dtype=object)
        for idx in real_np.ndindex(gr.shape):
            i, t = self._cell(self.rows, int(gr[idx]))
            j, u = self._cell(self.cols, int(gc[idx]))
            acc = 0
            for (a, b, w) in ((i, j, (1 - t) * (1 - u)), (i, j + 1, (1 - t) * u), (i + 1, j, t * (1 - u)), (i + 1, j + 1, t * u)):
                v = self.vals[a, b]
                if isinstance(v, SN):
                    acc = acc + v * w if w != 0 else acc + v * 0
                else:
                    acc = acc + float(v) * float(w)
            out[idx] = acc
        return out


class Deadlock(Exception):
    pass


class SeqBarrier:
    """the workers run one at a time (the run lock is released only while waiting here): a faithful sequential schedule of
    the barrier protocol (the schedules themselves are C07).  A stripe left waiting when every other stripe is waiting too
    or has returned -- fewer arrivals than parties -- is reported as a deadlock instead of hanging."""
    def __init__(self, n, lock):
        self.n = n
        self.cv = threading.Condition(lock)
        self.waiting = self.finished = self.gen = 0
        self.broken = None

    @property
    def n_waiting(self):
        return self.waiting

    @property
    def parties(self):
        return self.n

    def wait(self, timeout=None):
        if self.broken:
            raise threading.BrokenBarrierError(self.broken)
        self.waiting += 1
        if self.waiting == self.n:
            self.waiting = 0
            self.gen += 1
            self.cv.notify_all()
            return 0
        if self.waiting + self.finished == self.n:
            self.broken = 'deadlock: %d stripe(s) wait at a barrier that the other %d stripe(s) never reach' % (self.waiting, self.finished)
            self.cv.notify_all()
            raise Deadlock(self.broken)
        g = self.gen
        while self.gen == g and not self.broken:
            self.cv.wait(timeout=120)
        if self.broken and self.gen == g:
            raise Deadlock(self.broken) if self.broken.startswith('deadlock') else threading.BrokenBarrierError(self.broken)
        return 1

    def done(self):
        self.finished += 1
        if self.waiting and self.waiting + self.finished == self.n and not self.broken:
            self.broken = 'deadlock: %d stripe(s) wait at a barrier that the other %d stripe(s) never reach' % (self.waiting, self.finished)
            self.cv.notify_all()

    def reset(self):
        pass

    def abort(self):
        if not self.broken:
            self.broken = 'aborted'
        self.cv.notify_all()


def run_bane_sym(c, bane, pixels, stripes, grid, box, domask=True, bscale=None, naxis=2, cube_index=0):
    """all stripes of the real sigma_filter on the pixel array `pixels` (object array, 2-D, or the full 3-D / 4-D file
    array when naxis > 2); returns (ibkg, irms)"""
    H, W = pixels.shape[-2:]
    shared = {'ibkg_x': oa(real_np.full((H, W), 0, dtype=object)), 'irms_x': oa(real_np.full((H, W), 0, dtype=object))}
    bane.np = ExecNP(shared)
    bane.memory_id = 'x'

    class SM:
        def __init__(self, name=None, create=False, size=0):
            self.buf = name

        def close(self):
            pass

        def unlink(self):
            pass
    bane.SharedMemory = SM
    hdr = {'NAXIS': naxis}
    if bscale is not None:
        hdr['BSCALE'] = bscale

    class Sec:
        def __getitem__(self, key):
            if pixels.ndim == 2 and naxis == 3:
                key = key[1:]
            if pixels.ndim == 2 and naxis == 4:
                key = key[2:]
            return oa(real_np.array(pixels[key], dtype=object, copy=True))

    class HDU:
        section = Sec()
        header = hdr

    class HL(list):
        def __enter__(self):
            return self

        def __exit__(self, *a):
            return False

    class Fits:
        @staticmethod
        def getheader(fn, *a, **k):
            return dict(hdr)

        @staticmethod
        def open(fn, *a, **k):
            return HL([HDU()])
    bane.fits = Fits
    bane.sigmaclip = ClipStub(c)
    bane.RegularGridInterpolator = RGI
    bane._verif_point = lambda *a, **k: None
    lock = threading.Lock()
    bane.barrier = SeqBarrier(len(stripes), lock)
    errs = []

    def work(region):
        lock.acquire()
        try:
            bane.sigma_filter('f.fits', region, grid, box, (H, W), domask, cube_index)
        except BaseException as e:
            errs.append(e)
            try:
                bane.barrier.abort()
            except Exception:
                pass
        finally:
            bane.barrier.done()
            lock.release()
    ths = [threading.Thread(target=work, args=(r,)) for r in stripes]
    for t in ths:
        t.start()
    for t in ths:
        t.join()
    if errs:
        dl = [e for e in errs if isinstance(e, Deadlock)]
        real_errs = dl or [e for e in errs if not isinstance(e, threading.BrokenBarrierError)] or errs
        raise real_errs[0]
    return shared['ibkg_x'], shared['irms_x']


EXEC_CONFIGS = [
    dict(name='8x6 one stripe', H=8, W=6, grid=(2, 2), box=(4, 4), stripes=[(0, 8)], blanks={}),
    dict(name='8x6 two stripes', H=8, W=6, grid=(2, 2), box=(4, 4), stripes=[(0, 4), (4, 8)], blanks={}),
    dict(name='12x6 three stripes, NaN block and infinities', H=12, W=6, grid=(2, 2), box=(4, 4), stripes=[(0, 4), (4, 8), (8, 12)],
         blanks={(5, 2): 'nan', (5, 3): 'nan', (6, 2): 'nan', (6, 3): 'nan', (0, 0): 'inf', (11, 5): '-inf'}),
    dict(name='8x12 box == grid, left half blank', H=8, W=12, grid=(4, 4), box=(4, 4), stripes=[(0, 8)], blanks={(r, cc): 'nan' for r in range(8) for cc in range(6)}),
    dict(name='8x12 box == grid, left half blank, two stripes', H=8, W=12, grid=(4, 4), box=(4, 4), stripes=[(0, 4), (4, 8)], blanks={(r, cc): 'nan' for r in range(8) for cc in range(6)}),
    dict(name='9x5 unaligned stripes, grid (2,3) box (4,5)', H=9, W=5, grid=(2, 3), box=(4, 5), stripes=[(0, 5), (5, 9)], blanks={(8, 4): 'nan'}),
]


def h_exec(bane, cfg, mode):
    def h(c):
        H, W = cfg['H'], cfg['W']
        sp = {'nan': float('nan'), 'inf': float('inf'), '-inf': float('-inf')}

        def image(f):
            a = real_np.empty((H, W), dtype=object)
            for r in range(H):
                for cc in range(W):
                    k = cfg['blanks'].get((r, cc))
                    a[r, cc] = sp[k] if k else f(r, cc)
            return a
        tag = 'sigma_filter[%s,%s]' % (cfg['name'], mode)
        kw = dict(stripes=cfg['stripes'], grid=cfg['grid'], box=cfg['box'])
        L = core.lift
        if mode == 'const':
            v = real('v')
            b, r_ = run_bane_sym(c, bane, image(lambda r, cc: v), **kw)
            cl, nb = [], 0
            for idx in real_np.ndindex((H, W)):
                if isinstance(b[idx], SN):
                    cl.append(L(b[idx]) == v.e)
                    nb += 1
                if isinstance(r_[idx], SN):
                    cl.append(L(r_[idx]) == 0)
                elif not (r_[idx] != r_[idx]):
                    cl.append(z3.BoolVal(r_[idx] == 0))
            c.oblige(tag + ':constant image -> background == the constant and noise == 0 wherever defined', z3.And(cl))
            c.oblige(tag + ':constant image -> some background defined', z3.BoolVal(nb > 0))
            return dict()
        px = lambda r, cc: real('p_%d_%d' % (r, cc))
        try:
            b0, r0 = run_bane_sym(c, bane, image(px), **kw)
        except Deadlock as e:
            c.oblige(tag + ':every stripe passes the same barriers and returns', z3.BoolVal(False), info=str(e))
            return dict(deadlock=str(e))
        c.oblige(tag + ':every stripe passes the same barriers and returns', z3.BoolVal(True))
        blank = set(cfg['blanks'])
        # mask clauses (NaN-ness is concrete in this model)
        isnan = lambda v: not isinstance(v, SN) and v != v
        c.oblige(tag + ':every non-finite input pixel is NaN in both maps', z3.BoolVal(all(isnan(b0[p]) and isnan(r0[p]) for p in blank)),
                 info=str([p for p in blank if not (isnan(b0[p]) and isnan(r0[p]))][:6]))
        c.oblige(tag + ':maps hold numbers or NaN only (no infinities)', z3.BoolVal(all(isinstance(v, SN) or v != v for v in list(b0.ravel()) + list(r0.ravel()))))
        reach = (cfg['box'][0] // 2 + cfg['grid'][0], cfg['box'][1] // 2 + cfg['grid'][1])
        far = [p for p in real_np.ndindex((H, W)) if all(abs(p[0] - q[0]) > reach[0] or abs(p[1] - q[1]) > reach[1] for q in blank)]
        c.oblige(tag + ':pixels farther than box/2 + grid from every blank pixel are finite in both maps', z3.BoolVal(all(isinstance(b0[p], SN) and isinstance(r0[p], SN) for p in far)),
                 info=str([p for p in far if not (isinstance(b0[p], SN) and isinstance(r0[p], SN))][:6]))
        if mode == 'shift':
            sh = real('shift')
            b1, r1 = run_bane_sym(c, bane, image(lambda r, cc: px(r, cc) + sh), **kw)
            same_nan = all(isnan(b0[p]) == isnan(b1[p]) and isnan(r0[p]) == isnan(r1[p]) for p in real_np.ndindex((H, W)))
            c.oblige(tag + ':adding a constant leaves the blank pattern of the maps', z3.BoolVal(same_nan))
            c.oblige(tag + ':adding c to the image adds c to the background', z3.And([L(b1[p]) == L(b0[p]) + sh.e for p in real_np.ndindex((H, W)) if isinstance(b0[p], SN) and isinstance(b1[p], SN)]), timeout_ms=60000)
            c.oblige(tag + ':adding c to the image leaves the noise unchanged', z3.And([L(r1[p]) == L(r0[p]) for p in real_np.ndindex((H, W)) if isinstance(r0[p], SN) and isinstance(r1[p], SN)]), timeout_ms=60000)
        if mode == 'bscale':
            # stored values d with BSCALE = 2 against stored values 2 d without the keyword: the same physical image
            b1, r1 = run_bane_sym(c, bane, image(lambda r, cc: px(r, cc) / 2), bscale=2, **kw)
            ok = all((isnan(b0[p]) and isnan(b1[p])) or (isinstance(b0[p], SN) and isinstance(b1[p], SN)) for p in real_np.ndindex((H, W)))
            c.oblige(tag + ':BSCALE: same blank pattern', z3.BoolVal(ok))
            c.oblige(tag + ':BSCALE: maps of the physical image', z3.And([L(b1[p]) == L(b0[p]) for p in real_np.ndindex((H, W)) if isinstance(b0[p], SN) and isinstance(b1[p], SN)] +
                                                                         [L(r1[p]) == L(r0[p]) for p in real_np.ndindex((H, W)) if isinstance(r0[p], SN) and isinstance(r1[p], SN)]), timeout_ms=60000)
        if mode in ('cube', 'cube4'):
            # the full file array: every plane has its own symbols; plane `cube_index` (3-D) / [0, cube_index] (4-D) is the image
            other = lambda tag_: image(lambda r, cc: real('q%s_%d_%d' % (tag_, r, cc)))
            if mode == 'cube':
                full = real_np.array([other('a'), image(px), other('b')], dtype=object)
                b1, r1 = run_bane_sym(c, bane, full, naxis=3, cube_index=1, **kw)
            else:
                full = real_np.array([[other('a'), image(px), other('b')], [other('c'), other('d'), other('e')], [other('f'), other('g'), other('h')]], dtype=object)
                b1, r1 = run_bane_sym(c, bane, full, naxis=4, cube_index=1, **kw)
            c.oblige(tag + ':3-D / 4-D file: the maps are those of the requested plane (first axis 0 for 4-D)', z3.And([z3.BoolVal(isnan(b0[p]) == isnan(b1[p]) and isnan(r0[p]) == isnan(r1[p])) for p in real_np.ndindex((H, W))] +
                                                                          [L(b1[p]) == L(b0[p]) for p in real_np.ndindex((H, W)) if isinstance(b0[p], SN) and isinstance(b1[p], SN)]), timeout_ms=60000)
        return dict(clips=bane.sigmaclip.calls)
    return h


def exec_replay():
    for cfg in (dict(H=48, W=40, grid=4, box=12, cores=2, nslice=2, offset=1000.0, scale=3.0, nanblock=False),
                dict(H=48, W=40, grid=4, box=12, cores=1, nslice=1, offset=1000.0, scale=-2.5, nanblock=True),
                dict(H=64, W=96, grid=16, box=16, cores=1, nslice=1, offset=1000.0, scale=2.0, nanblock=True, blankcols=40),
                dict(H=48, W=40, grid=4, box=12, cores=2, nslice=2, offset=10.0, scale=2.0, nanblock=True, infs=True),
                dict(H=48, W=40, grid=4, box=12, cores=1, nslice=1, offset=7.0, scale=2.0, nanblock=False, cube4=True)):
        bad, cls, detail = bane_oracle(cfg)
        if bad:
            return bad, cls, detail, cfg
    return False, None, None, None


def k_exec(rep, thorough):
    rep.kernel('K-exec', functions=[F + ':sigma_filter'],
               bounds='the WHOLE function for every stripe of small images (8x6, 12x6, 8x12, 9x5; 1-3 stripes, aligned and not; grid/box (2,2)/(4,4), (4,4)/(4,4), (2,3)/(4,5)) with every pixel a symbolic real or NaN/+inf/-inf at fixed places; relational runs: image vs image + c, BSCALE, 3-D file, constant image',
               stubs=['sigmaclip -> contract over uninterpreted functions of the sample differences (ClipStub docstring; the real function is K-sigmaclip)',
                      'RegularGridInterpolator -> exact bilinear weights (validated against scipy on the same grids)', 'astropy fits -> header dict + pixel array sections', 'SharedMemory/np.ndarray(buffer=) -> shared object arrays',
                      'barrier -> workers run one at a time, switching only at barrier.wait() (schedules are C07)'],
               assumes=['floats as reals', 'the geometry (image, stripes, grid, box) is concrete per configuration'], outside=['scale by k (K-sigmaclip and the replay oracle)', 'statistics of the clipped samples'])
    # the interpolation stub against scipy on the grids used
    import random
    from scipy.interpolate import RegularGridInterpolator as RealRGI
    rng = random.Random(5)
    okv = True
    for rows, cols in (([0, 2, 4], [0, 2, 4, 6]), ([4, 6, 8], [0, 3, 5]), ([0, 4, 8], [0, 4, 8, 12])):
        vals = real_np.array([[rng.uniform(-5, 5) for _ in cols] for _ in rows])
        gr, gc = real_np.mgrid[rows[0]:rows[-1], 0:cols[-1]]
        want = RealRGI((rows, cols), vals)((gr, gc))
        got = RGI((rows, cols), vals)((gr, gc)).astype(float)
        okv = okv and bool(real_np.allclose(want, got, atol=1e-12))
    rep.count('unsat' if okv else 'unknown', 'stub:bilinear interpolation stub == scipy RegularGridInterpolator on the kernel grids')
    bane = loader.load_private(['BANE'])['BANE']
    loader.patch(bane, builtins=False)
    plans, meta = [], []
    for cfg in EXEC_CONFIGS:
        for mode in ('shift', 'const') + (('bscale', 'cube', 'cube4') if (thorough or cfg is EXEC_CONFIGS[1]) else ()):
            plans.append((h_exec(bane, cfg, mode), dict(wall_s=600)))
            meta.append((cfg['name'], mode))
    done = set()
    for (name, mode), (st, res) in zip(meta, core.explore_many(plans, workers=12)):
        rep.stats(st)
        for r in res:
            for ob in r['obligations']:
                rep.count(ob['result'], ob['name'])
                if ob['result'] == 'sat':
                    what = ob['name'].split(':')[-1]
                    if what in done:
                        continue
                    bad, cls, detail, cfg = exec_replay()
                    if rep.finding('C06/K-exec/%s' % (cls or what), dict(kind='bane', cfg=cfg) if cfg else dict(kind='exec'), detail or ob['name'], reproduced=bool(bad)) != 'not-reproduced':
                        done.add(what)
        rep.sample(dict(kernel='K-exec', config=name, mode=mode, obligations=[(o['name'].split(':')[-1], o['result']) for r in res for o in r['obligations']][:8]))
    rep.end_kernel()


def run(rep):
    thorough = rep.tier == 'thorough'
    rep.assume('RegularGridInterpolator is taken by contract (exact at nodes, convex combination of the cell corners, equivariant under affine maps of the values); its arithmetic is not encoded',
               'images with at least 2 rows and 2 columns; grid >= 1, box >= max(4, grid)')
    k_exec(rep, thorough)
    try:
        fac, text = slice_grid()
        subtraction_statement()
        mask_statements()
        sliced_kernels(rep, fac, text)
    except slicer.AnchorMissing as e:
        rep.inconc('K-grid/K-dataflow: anchor-missing %s (the statements these two kernels locate by shape are not in sigma_filter in that form; K-exec runs the whole function instead)' % e)
    rest_of_run(rep, thorough)


def sliced_kernels(rep, fac, text):
    rep.kernel('K-grid', functions=[F + ':sigma_filter'], bounds='all integers H, W >= 2, any stripe [ymin, ymax) of the image, grid >= 1, box >= max(4, grid) per axis; node lists of symbolic length, arbitrary node index (LIA)',
               stubs=['range/list/append/len -> symbolic-length lists', 'np.mgrid -> slice recorder', 'FITS reading cut: the data array is represented by its shape'],
               assumes=['backward slice (by names) of the row/col/box arithmetic; the nested function box() is the real one'])
    rep.sample(dict(kernel='K-grid', slice=text[:1500]))
    for mode in ('stripe', 'single'):
        st, res = explore(h_grid(fac, mode))
        rep.stats(st)
        collect(rep, res, 'K-grid')
    rep.end_kernel()
    rep.kernel('K-dataflow', functions=[F + ':sigma_filter'], bounds='as K-grid; the `-= ibkg[...]` statement and the mask statements are located in the AST and their slice bounds evaluated symbolically',
               assumes=['ibkg is complete for all rows after the first barrier (C07 ordering obligations)'])
    for mode in ('stripe', 'single'):
        st, res = explore(h_dataflow(fac, mode))
        rep.stats(st)
        collect(rep, res, 'K-dataflow')
    rep.end_kernel()


def rest_of_run(rep, thorough):
    k_bscale(rep)
    bane = loader.load_private(['BANE'])['BANE']
    loader.patch(bane)
    rep.kernel('K-sigmaclip', functions=[F + ':sigmaclip'], bounds='n <= 3 samples (n=4 does not finish in nlsat), clip levels 1 (clipping happens) and 3 (as called by BANE); shift by a symbolic constant, scale by k in {2, -3}',
               stubs=['np.std/np.mean/np.isfinite on object arrays -> proxy (population std via radical)'], outside=['more than 3 samples', 'Gaussian-noise statistics (mean m, rms s within sampling error)'])
    plans = []
    for n in (1, 2, 3):
        for lo in (1, 3):
            plans.append((h_sigmaclip(bane, n, lo, 'const'), dict(wall_s=120)))
            plans.append((h_sigmaclip(bane, n, lo, 'shift'), dict(wall_s=300)))
            if n <= 2 or thorough:
                plans.append((h_sigmaclip(bane, n, lo, 'range'), dict(wall_s=300)))
            for kv in (2, -3):
                if n <= 2 or thorough:
                    plans.append((h_sigmaclip(bane, n, lo, 'scale', kv), dict(wall_s=300)))
    for st, res in core.explore_many(plans, workers=16):
        rep.stats(st)
        collect(rep, res, 'K-sigmaclip')
    rep.end_kernel()
    rep.kernel('K-replay-oracle', functions=[F + ':filter_image'], bounds='real BANE runs (img, img+c, k*img, constant image) for 1, 2 and 3 stripes incl. a NaN block and a DC offset of 1000',
               assumes=['concrete executions: validation of the structural obligations at the level of the property statement'])
    for cfg in (dict(H=48, W=40, grid=4, box=12, cores=1, nslice=1, offset=1000.0, scale=-2.5, nanblock=True),
                dict(H=48, W=40, grid=4, box=12, cores=2, nslice=2, offset=1000.0, scale=3.0, nanblock=False),
                dict(H=60, W=33, grid=5, box=20, cores=3, nslice=3, offset=-250.0, scale=0.5, nanblock=True),
                dict(H=48, W=40, grid=4, box=12, cores=2, nslice=2, offset=10.0, scale=2.0, nanblock=False, bscale=-2.5),
                dict(H=36, W=44, grid=2, box=4, cores=1, nslice=1, offset=5.0, scale=2.0, nanblock=False),
                dict(H=64, W=96, grid=16, box=16, cores=1, nslice=1, offset=1000.0, scale=2.0, nanblock=True, blankcols=40),
                dict(H=48, W=40, grid=4, box=12, cores=2, nslice=2, offset=10.0, scale=2.0, nanblock=True, infs=True),
                dict(H=64, W=64, grid=8, box=32, cores=1, nslice=1, offset=3.0, scale=2.0 ** -30, nanblock=False, outliers=True),
                dict(H=48, W=40, grid=4, box=12, cores=1, nslice=1, offset=7.0, scale=2.0, nanblock=False, cube4=True),
                dict(H=50, W=40, grid=4, box=12, cores=3, nslice=3, offset=100.0, scale=2.0, nanblock=False),      # rows not divisible by the stripes
                dict(H=49, W=41, grid=8, box=16, cores=1, nslice=1, offset=100.0, scale=2.0, nanblock=False)):    # sizes not multiples of the grid, small box
        bad, cls, detail = bane_oracle(cfg)
        rep.validated_runs(4)
        if bad:
            rep.finding('C06/K-dataflow/%s' % cls if cls == 'margin-not-subtracted' else ('C06/K-bscale/%s' % cls if cfg.get('bscale') else 'C06/K-contract/%s' % cls), dict(kind='bane', cfg=cfg), detail)
    rep.end_kernel()
    rep.not_decided += ['interpolation arithmetic (scipy) and float32 casts', 'sampling-error clause for stationary Gaussian noise', 
                        'compressed output (C15)']


def collect(rep, res, kname):
    for r in res:
        for ob in r['obligations']:
            rep.count(ob['result'], ob['name'])
            if ob['result'] == 'sat':
                m = ob['model']
                if kname == 'K-sigmaclip':
                    rep.finding('C06/K-sigmaclip/%s' % ob['name'].split(':')[-1], dict(kind='sigmaclip', model={k: str(v) for k, v in m.items()}), ob['name'], reproduced=sigmaclip_replay(m, ob['name']))
                    continue
                H = int(m.get('H', 48))
                cfg = dict(H=min(max(H, 16), 96), W=40, grid=max(1, min(int(m.get('grid0', 4)), 8)), box=12, cores=2, nslice=2, offset=1000.0, scale=2.0, nanblock=True)
                cfg['box'] = max(4, cfg['grid'], min(int(m.get('box0', 12)), 24))
                bad, cls, detail = bane_oracle(cfg)
                if not bad:
                    cfg2 = dict(H=48, W=40, grid=4, box=12, cores=2, nslice=2, offset=1000.0, scale=3.0, nanblock=True)
                    bad, cls, detail = bane_oracle(cfg2)
                    cfg = cfg2
                rep.finding('C06/%s/%s' % (kname, cls or ob['name'].split(':')[-1]), dict(kind='bane', cfg=cfg, model={k: str(v) for k, v in m.items() if not k.startswith('k!')}), detail or ob['name'], reproduced=bad)
    if res:
        rep.sample(dict(kernel=kname, paths=len(res), obligations=[(o['name'], o['result']) for o in res[0]['obligations']][:8]))


def sigmaclip_replay(m, name):
    bane = loader.real('BANE')
    vals = [float(m[k]) for k in sorted(m) if k.startswith('v') and k[1:].isdigit()]
    if not vals:
        vals = [1.0, 2.0, 4.0]
    lo = 1 if 'clip=1' in name else 3
    a = real_np.array(vals)
    m0, s0 = bane.sigmaclip(a, lo, lo)
    m1, s1 = bane.sigmaclip(a + 10.0, lo, lo)
    m2, s2 = bane.sigmaclip(a * -3, lo, lo)
    bad = abs(m1 - m0 - 10) > 1e-9 or abs(s1 - s0) > 1e-9 or abs(m2 + 3 * m0) > 1e-9 or abs(s2 - 3 * s0) > 1e-9 or not (min(vals) - 1e-12 <= m0 <= max(vals) + 1e-12) or s0 < 0
    for n in (1, 2, max(1, len(vals))):
        mc, sc = bane.sigmaclip(real_np.array([2.5] * n), lo, lo)
        if not (abs(mc - 2.5) <= 1e-12 and abs(sc) <= 1e-12):       # also catches nan
            return True
    return bool(bad)


def replay(w):
    wit = w['witness']
    if wit.get('kind') == 'bane':
        bad, cls, detail = bane_oracle(wit['cfg'])
        return bad, '%s: %s' % (cls, detail)
    return sigmaclip_replay({k: v for k, v in wit.get('model', {}).items()}, ''), 'sigmaclip relational check'


if __name__ == '__main__':
    main(sys.modules[__name__])
