"""C05 priorized fitting measures the catalogued sources where and as catalogued (partial: everything around the fit).
K-refit   : the real _refit_islands executed up to the image cut-out on a symbolic source (position, size, stage):
            stage -> free parameters, bounds contain the values, cut-out indices in range, and the model is
            registered with the slice the fit sees (position in the cut-out + cut-out origin = true pixel)
K-copyback: the copy-back loop of _refit_islands sliced out and run on records: uuid, PRIORIZED, input
            uncertainties for parameters the stage did not free, paired by index
K-resize  : the real cluster.resize on catalogues WITHOUT psf information (undefined psf_*): ratio None / 1 leave the
            sources unchanged and raise nothing (with C19 K-resize for the ratio formula)
The fit itself and the post-fit equalities are exercised only by the replay oracle (noise-free model image)."""
import ast
import copy
import logging
import math
import os
import shutil
import sys
import tempfile

import numpy as real_np
import z3

from symx import core, loader, slicer
from symx.core import SN, SB, real, integer, angle_deg, explore
from symx.report import main
from checks import r2c, C03

PID = 'C05'
F = 'AegeanTools/source_finder.py'
FC = 'AegeanTools/cluster.py'


class FakeImage:
    def __init__(self, shape):
        self.shape = shape
        self.cut = None

    def __getitem__(self, key):
        if isinstance(key, tuple) and any(isinstance(k, slice) for k in key):
            raise core.Cut(('slice', key))
        return real('pix_%d' % id(key))


class Beamish:
    def __init__(self, a, b, pa):
        self.a, self.b, self.pa = a, b, pa


def h_refit(mods, stage_mode):
    sf = mods['source_finder']

    def h(c):
        sf.lmfit = type('LM', (), {'Parameters': r2c.Model})
        sf.Beam = Beamish
        F2C = real('FWHM2CC')
        c.assume(F2C.e > z3.RealVal('0.42'))
        c.assume(F2C.e < z3.RealVal('0.43'))
        sf.FWHM2CC = F2C
        H, W = 40, 50
        finder = sf.SourceFinder(log=loader.NullLog())
        gd = finder.global_data
        gd.img = FakeImage((H, W))
        gd.rmsimg = FakeImage((H, W))
        row, col = real('row1'), real('col1')           # 1-based (row, col) as returned by sky2pix
        sxp, syp = real('sxp'), real('syp')             # FWHM in pixels
        th = real('theta')
        c.assume(sxp.e >= 2)
        c.assume(sxp.e <= 6)
        c.assume(syp.e > 0)
        c.assume(syp.e <= sxp.e)
        pb = real('pixbeam_b')
        c.assume(pb.e > 0)

        class WH:
            def sky2pix(self, pos):
                return [row, col]

            def sky2pix_ellipse(self, pos, a, b, pa):
                return row, col, sxp, syp, th

            def get_psf_sky2pix(self, ra, dec):
                return (real('pixbeam_a'), pb, real('pixbeam_pa'))
        gd.wcshelper = gd.psfhelper = WH()
        if stage_mode == 'sym':
            stage = integer('stage')
        else:
            stage = stage_mode

        class Src:
            ra, dec, a, b, pa = real('ra'), real('dec'), real('a'), real('b'), real('pa')
            peak_flux = real('peak')
            island, source, flags, uuid = 3, 0, 0, 'u'
        c.index_range = (-2, 60)
        out = None
        try:
            finder._refit_islands([[Src()]], stage, None, istart=0)
            return dict(outcome='returned without reaching the cut-out')
        except core.Cut as e:
            out = e.state
        # fish the locals of _refit_islands out of the traceback: instead we re-derive from the recorded parameters
        return dict(outcome='cut', key=out)
    return h


def refit_state(mods, c, stage):
    """run the real _refit_islands to the cut and return (params, slice key, symbols)"""
    sf = mods['source_finder']
    holder = {}

    class M(r2c.Model):
        def __init__(self):
            r2c.Model.__init__(self)
            holder['params'] = self
    sf.lmfit = type('LM', (), {'Parameters': M})
    sf.Beam = Beamish
    F2C = real('FWHM2CC')
    c.assume(F2C.e > z3.RealVal('0.42'))
    c.assume(F2C.e < z3.RealVal('0.43'))
    sf.FWHM2CC = F2C
    H, W = 40, 50
    finder = sf.SourceFinder(log=loader.NullLog())
    gd = finder.global_data
    gd.img = FakeImage((H, W))
    gd.rmsimg = FakeImage((H, W))
    row, col = real('row1'), real('col1')
    sxp, syp, th = real('sxp'), real('syp'), real('theta')
    c.assume(sxp.e >= 2)
    c.assume(sxp.e <= 5)
    c.assume(syp.e > 0)
    c.assume(syp.e <= sxp.e)
    pbb = real('pixbeam_b')
    c.assume(pbb.e > 0)
    c.assume(real('pixbeam_a').e >= pbb.e)

    class WH:
        def sky2pix(self, pos):
            return [row, col]

        def sky2pix_ellipse(self, pos, a, b, pa):
            return row, col, sxp, syp, th

        def get_psf_sky2pix(self, ra, dec):
            return (real('pixbeam_a'), pbb, real('pixbeam_pa'))
    gd.wcshelper = gd.psfhelper = WH()

    class Src:
        ra, dec, a, b, pa = real('ra'), real('dec'), real('a'), real('b'), real('pa')
        peak_flux = real('peak')
        island, source, flags, uuid = 3, 0, 0, 'u'
    c.index_range = (-2, 60)
    key = None
    try:
        finder._refit_islands([[Src()]], stage, None, istart=0)
    except core.Cut as e:
        key = e.state
    return holder.get('params'), key, dict(row=row, col=col, sxp=sxp, syp=syp, F2C=F2C, H=H, W=W)


def h_refit2(mods, stage_mode):
    def h(c):
        stage = integer('stage') if stage_mode == 'sym' else stage_mode
        params, key, V = refit_state(mods, c, stage)
        tag = '_refit_islands[stage %s]' % stage_mode
        row, col = V['row'], V['col']
        on = z3.And(row.e - 1 >= -z3.RealVal('1/2'), row.e - 1 < V['H'] - z3.RealVal('1/2'), col.e - 1 >= -z3.RealVal('1/2'), col.e - 1 < V['W'] - z3.RealVal('1/2'))
        if key is None:
            # the source was skipped: it must be off the image
            c.oblige(tag + ':a source is skipped only when its pixel is off the image', z3.Not(on))
            return dict(outcome='skipped')
        ok = key[0] == 'slice' and isinstance(key[1], tuple) and len(key[1]) == 2 and all(isinstance(k, slice) for k in key[1])
        c.oblige(tag + ':cut-out is data[x0:x1, y0:y1]', z3.BoolVal(bool(ok)))
        if not ok or params is None or 'c0_xo' not in params:
            return dict(outcome='cut?')
        (sx_, sy_) = key[1]
        x0, x1, y0, y1 = [core.lift(v) for v in (sx_.start, sx_.stop, sy_.start, sy_.stop)]
        c.oblige(tag + ':cut-out indices in range and non-empty', z3.And(x0 >= 0, x0 < x1, x1 <= V['H'], y0 >= 0, y0 < y1, y1 <= V['W']))
        L = core.lift
        P = params
        # registration: position inside the cut-out + cut-out origin = true 0-based pixel position
        c.oblige(tag + ':model registered with the cut-out (xo + x0 == true row)', L(P['c0_xo'].value) + x0 == row.e - 1)
        c.oblige(tag + ':model registered with the cut-out (yo + y0 == true col)', L(P['c0_yo'].value) + y0 == col.e - 1)
        c.oblige(tag + ':source centre lies inside the cut-out', z3.And(row.e - 1 >= x0 - z3.RealVal('1/2'), row.e - 1 <= x1 - z3.RealVal('1/2'), col.e - 1 >= y0 - z3.RealVal('1/2'), col.e - 1 <= y1 - z3.RealVal('1/2')))
        for nm in ('xo', 'yo', 'sx'):
            p = P['c0_' + nm]
            c.oblige(tag + ':%s bounds contain the value' % nm, z3.And(L(p.min) <= L(p.value), L(p.value) <= L(p.max)))
        # a fixed parameter outside its bounds is silently clipped by lmfit: a minor axis at least the beam's (what resize
        # guarantees) must lie within the sy bounds whatever the beam's elongation
        psy = P['c0_sy']
        c.oblige(tag + ':sy bounds contain the value (minor axis >= beam minor axis)', z3.Implies(V['syp'].e >= z3.Real('pixbeam_b'), z3.And(L(psy.min) <= L(psy.value), L(psy.value) <= L(psy.max))))
        c.oblige(tag + ':amp is the catalogued peak and sx/sy the catalogued shape in sigma units', z3.And(L(P['c0_amp'].value) == z3.Real('peak'), L(P['c0_sx'].value) == V['sxp'].e * V['F2C'].e, L(P['c0_sy'].value) == V['syp'].e * V['F2C'].e))
        st = core.lift(integer('stage')) if stage_mode == 'sym' else z3.IntVal(stage_mode)
        vb = lambda v: core.lb(v) if isinstance(v, (SB, bool)) else z3.BoolVal(bool(v))
        c.oblige(tag + ':amp free; position free <=> stage >= 2; shape free <=> stage >= 3', z3.And(vb(P['c0_amp'].vary), vb(P['c0_xo'].vary) == (st >= 2), vb(P['c0_yo'].vary) == (st >= 2),
                                                                                                vb(P['c0_sx'].vary) == (st >= 3), vb(P['c0_sy'].vary) == (st >= 3), vb(P['c0_theta'].vary) == (st >= 3)))
        return dict(outcome='cut')
    return h


def frame_locals(exc, funcname):
    tb = exc.__traceback__
    found = None
    while tb is not None:
        if tb.tb_frame.f_code.co_name == funcname:
            found = tb.tb_frame.f_locals
        tb = tb.tb_next
    return found


def h_pairing(mods):
    """two sources in one island, each symbolically on or off the image: the list that is later zipped with the fitted
    components must hold exactly the sources whose parameters were added, in that order"""
    sf = mods['source_finder']

    def h(c):
        f = slicer.get_function(F, '_refit_islands', 'SourceFinder')
        loops = [n for n in ast.walk(f) if isinstance(n, ast.For) and 'zip(new_src' in ast.unparse(n.iter)]
        if not loops:
            raise slicer.AnchorMissing('_refit_islands: copy-back loop over zip(new_src, ...) not found')
        paired = ast.unparse(loops[0].iter).split('zip(new_src,')[1].strip(' )')
        holder = {}

        class M(r2c.Model):
            def __init__(self):
                r2c.Model.__init__(self)
                holder['params'] = self
        sf.lmfit = type('LM', (), {'Parameters': M})
        sf.Beam = Beamish
        sf.FWHM2CC = 0.42466
        H, W = 40, 50
        finder = sf.SourceFinder(log=loader.NullLog())
        gd = finder.global_data
        gd.img = FakeImage((H, W))
        gd.rmsimg = FakeImage((H, W))
        pos = {}

        class Src:
            def __init__(self, k):
                self.k = k
                self.ra, self.dec = ('ra', k), ('dec', k)
                self.a, self.b, self.pa = 30.0, 20.0, 0.0
                self.peak_flux = real('peak%d' % k)
                self.island, self.source, self.flags, self.uuid = 3, k, 0, 'u%d' % k
                pos[('ra', k)] = (real('row%d' % k), real('col%d' % k))
        srcs = [Src(0), Src(1)]
        for k in range(2):
            # keep the symbolic positions in a window around the image so that the index case split stays small
            for v, n in zip(pos[('ra', k)], (H, W)):
                c.assume(v.e >= -3)
                c.assume(v.e <= n + 4)

        class WH:
            def sky2pix(self, p):
                return list(pos[p[0]])

            def sky2pix_ellipse(self, p, a, b, pa):
                r, cc = pos[p[0]]
                return r, cc, 3.0, 2.5, 0.0

            def get_psf_sky2pix(self, ra, dec):
                return (3.0, 2.5, 0.0)
        gd.wcshelper = gd.psfhelper = WH()
        c.index_range = (-6, 60)
        loc = None
        try:
            finder._refit_islands([srcs], 1, None, istart=0)
        except core.Cut as e:
            loc = frame_locals(e, '_refit_islands')
        tag = '_refit_islands pairing[2 sources]'
        if loc is None:
            # both sources rejected: nothing to pair
            params = holder.get('params')
            c.oblige(tag + ':no parameters were added when every source was rejected', z3.BoolVal(params is None or not any(k.endswith('_amp') for k in params)))
            return dict(outcome='all rejected')
        params = holder['params']
        added = []
        for j in range(2):
            p = params.get('c%d_amp' % j)
            if p is not None:
                added.append([s for s in srcs if s.peak_flux is p.value][0].k)
        lst = loc.get(paired)
        got = [s.k for s in lst] if lst is not None else None
        c.oblige(tag + ':the list paired with the fitted components holds exactly the sources whose parameters were added, in order', z3.BoolVal(got == added), info=dict(paired=paired, got=got, added=added))
        return dict(outcome='cut', paired=paired, got=got, added=added)
    return h


# ------------------------------------------------------------------ K-copyback
def h_copyback(stage):
    def h(c):
        f = slicer.get_function(F, '_refit_islands', 'SourceFinder')
        loops = [n for n in ast.walk(f) if isinstance(n, ast.For) and 'zip(new_src' in ast.unparse(n.iter)]
        if not loops:
            raise slicer.AnchorMissing('_refit_islands: copy-back loop over zip(new_src, ...) not found')
        code = compile(ast.Module(body=[loops[0]], type_ignores=[]), '<copy-back>', 'exec')
        flags = loader.real('flags')

        class R:
            pass
        new, old = [], []
        for k in range(3):
            a, b = R(), R()
            a.uuid, a.flags = 'new%d' % k, (0, 64, 64 | 4 | 1)[k]      # fitted components start from the input flags, which may already hold PRIORIZED / FIXED2PSF
            for nm in ('err_ra', 'err_dec', 'err_a', 'err_b', 'err_pa'):
                setattr(a, nm, ('fit', nm, k))
                setattr(b, nm, ('cat', nm, k))
            b.uuid = 'cat%d' % k
            new.append(a)
            old.append(b)
        st = integer('stage') if stage == 'sym' else stage
        iter_name = ast.unparse(loops[0].iter).split('zip(new_src,')[1].strip(' )')
        stale = R()                      # any other name the loop might read (e.g. a variable left over from an earlier loop)
        stale.uuid, stale.flags = 'stale', 0
        for nm in ('err_ra', 'err_dec', 'err_a', 'err_b', 'err_pa'):
            setattr(stale, nm, ('stale', nm))

        class Env(dict):
            def __missing__(self, key):
                if key in ('src', 'source', 'component', 'comp', 'isle_src'):
                    return stale
                raise KeyError(key)
        loc = Env({'new_src': new, iter_name: old, 'stage': st})
        exec(code, slicer.module_env(F, dict(core.BUILTINS, flags=flags)), loc)
        stv = core.lift(st)
        cl = []
        for k in range(3):
            n = new[k]
            cl.append(z3.BoolVal(n.uuid == 'cat%d' % k and bool(n.flags & flags.PRIORIZED)))
            init = (0, 64, 64 | 4 | 1)[k]
            cl.append(z3.BoolVal(isinstance(n.flags, int) and (n.flags & ~127) == 0 and (n.flags & init) == init and (n.flags & ~(init | flags.PRIORIZED | flags.FIXED2PSF)) == 0))
            cl.append(z3.If(stv < 2, z3.BoolVal(bool(n.flags & flags.FIXED2PSF)), z3.BoolVal((n.flags & flags.FIXED2PSF) == (init & flags.FIXED2PSF))))
            pos_copied = n.err_ra == ('cat', 'err_ra', k) and n.err_dec == ('cat', 'err_dec', k)
            pos_kept = n.err_ra == ('fit', 'err_ra', k) and n.err_dec == ('fit', 'err_dec', k)
            shp_copied = all(getattr(n, q) == ('cat', q, k) for q in ('err_a', 'err_b', 'err_pa'))
            shp_kept = all(getattr(n, q) == ('fit', q, k) for q in ('err_a', 'err_b', 'err_pa'))
            cl.append(z3.If(stv < 2, z3.BoolVal(pos_copied), z3.BoolVal(pos_kept)))
            cl.append(z3.If(stv < 3, z3.BoolVal(shp_copied), z3.BoolVal(shp_kept)))
        c.oblige('copyback[stage %s]:uuid, flags = input flags | PRIORIZED (| FIXED2PSF below stage 2) within the documented bits, input uncertainties of the parameters the stage did not free, paired by index' % stage, z3.And(cl))
        return dict()
    return h


# ------------------------------------------------------------------ K-fwhm-mask (which pixels of the cut-out enter the fit)
def h_fwhm_mask(mods):
    """the real _refit_islands from the catalogue to the call of the optimiser on a two-member island of concrete geometry and
    SYMBOLIC amplitudes (any sign, any ratio): the pixels handed to the fit are those within the 10 % contour of the
    unit-amplitude model of the members -- the same pixels whatever the amplitudes are"""
    from checks import C14
    sf = mods['source_finder']

    def h(c):
        sf.lmfit = type('LM', (), {'Parameters': r2c.Model})
        sf.Beam = Beamish
        H, W = 40, 50
        finder = sf.SourceFinder(log=loader.NullLog())
        gd = finder.global_data
        gd.img = real_np.ones((H, W))
        gd.rmsimg = real_np.ones((H, W))
        gd.docov = False
        geo = [((15.3, 20.2), (5.0, 4.0, 20.0)), ((16.1, 29.4), (4.5, 4.5, 0.0))]      # 1-based (row, col); FWHM px, angle

        class WH:
            def __init__(self):
                self.k = 0

            def sky2pix(self, pos):
                return list(geo[int(pos[0])][0])

            def sky2pix_ellipse(self, pos, a, b, pa):
                (r_, c_), (sx_, sy_, th_) = geo[int(pos[0])]
                return r_, c_, sx_, sy_, th_

            def get_psf_sky2pix(self, ra, dec):
                return (4.0, 4.0, 0.0)
        gd.wcshelper = gd.psfhelper = WH()
        amps = [real('amp0'), real('amp1')]
        for a_ in amps:
            c.assume(a_.e != 0)

        class Src:
            def __init__(self, k):
                self.ra, self.dec, self.a, self.b, self.pa = float(k), -20.0, 60.0, 50.0, 0.0
                self.peak_flux = amps[k]
                self.island, self.source, self.flags, self.uuid = 3, k, 0, 'u%d' % k
        got = {}

        def fake_fit(data, params, B=None, **kw):
            got['data'] = real_np.array(data, dtype=float)
            raise core.Cut('fit')
        sf.do_lmfit = fake_fit
        try:
            finder._refit_islands([[Src(0), Src(1)]], 1, None, istart=0)
        except core.Cut:
            pass
        tag = 'FWHM mask[two members, symbolic amplitudes]'
        c.oblige(tag + ':the island reaches the optimiser', z3.BoolVal('data' in got))
        if 'data' not in got:
            return dict()
        d = got['data']
        # oracle: unit-amplitude members on the cut-out; the cut-out origin is recovered from the shape and the clipped limits
        want_all = None
        rows = [g[0][0] - 1 for g in geo]
        cols = [g[0][1] - 1 for g in geo]
        best = None
        for x0 in range(0, H - d.shape[0] + 1):
            for y0 in range(0, W - d.shape[1] + 1):
                model = real_np.zeros(d.shape)
                for (r_, c_), (sx_, sy_, th_) in geo:
                    model += C14.gauss_oracle(d.shape, r_ - 1 - x0, c_ - 1 - y0, sx_, sy_, th_, 1.0)
                keep = model > 0.1
                near = real_np.abs(model - 0.1) < 1e-9
                if real_np.array_equal(real_np.isfinite(d) | near, keep | near):
                    best = (x0, y0)
                    break
            if best:
                break
        c.oblige(tag + ':the pixels handed to the fit are those inside the 10 % contour of the unit-amplitude members, for every amplitude', z3.BoolVal(best is not None),
                 info='kept %d of %d pixels' % (int(real_np.isfinite(d).sum()), d.size))
        return dict(origin=best)
    return h


# ------------------------------------------------------------------ K-presence (data under each component of the cut-out)
def presence_loop():
    """the loop of _refit_islands that takes `square = idata[a:b, c:d]` around each component and tests it with isfinite:
    its statements up to that assignment (logging dropped)"""
    f = slicer.get_function(F, '_refit_islands', 'SourceFinder')
    for loop in [n for n in ast.walk(f) if isinstance(n, ast.For)]:
        for k, st in enumerate(loop.body):
            if (isinstance(st, ast.Assign) and isinstance(st.value, ast.Subscript) and isinstance(st.value.value, ast.Name) and isinstance(st.value.slice, ast.Tuple)
                    and len(st.value.slice.elts) == 2 and all(isinstance(e, ast.Slice) for e in st.value.slice.elts)
                    and any(isinstance(x, ast.If) and 'isfinite' in ast.unparse(x.test) for x in loop.body[k + 1:])):
                body = [b for b in loop.body[:k + 1] if not isinstance(b, ast.Expr)]
                new = ast.For(target=loop.target, iter=loop.iter, body=body, orelse=[])
                mod = ast.Module(body=[new], type_ignores=[])
                ast.fix_missing_locations(mod)
                return compile(mod, '<presence loop of _refit_islands>', 'exec'), st.value.value.id, ast.unparse(new)
    raise slicer.AnchorMissing('_refit_islands: no loop taking a 2-D box of the cut-out that is then tested with isfinite')


def h_presence():
    def h(c):
        code, arrname, text = presence_loop()
        Hc, Wc = integer('Hc'), integer('Wc')
        c.assume(Hc.e >= 1)
        c.assume(Wc.e >= 1)
        c.assume(Hc.e <= 200)
        c.assume(Wc.e <= 200)
        cx, cy = real('cx'), real('cy')
        rx, ry = z3.Int('rx'), z3.Int('ry')          # the pixel the component is centred in
        half = z3.RealVal('1/2')
        c.assume(z3.And(cx.e >= rx - half, cx.e <= rx + half, cy.e >= ry - half, cy.e <= ry + half))
        c.assume(z3.And(rx >= 0, rx < Hc.e, ry >= 0, ry < Wc.e))

        class Box:
            shape = (Hc, Wc)
            taken = []

            def __getitem__(self, key):
                Box.taken.append(key)
                return self
        Box.taken = []
        params = {'components': r2c.Par(1, False), 'c0_xo': r2c.Par(cx), 'c0_yo': r2c.Par(cy)}

        class Self:
            log = loader.NullLog()
        env = slicer.module_env(F, dict(core.BUILTINS, np=loader.NPProxy()))
        env.update({'params': params, arrname: Box(), 'self': Self()})
        exec(code, env)
        ok = len(Box.taken) == 1 and isinstance(Box.taken[0], tuple) and len(Box.taken[0]) == 2
        c.oblige('presence:one 2-D box per component', z3.BoolVal(ok))
        if not ok:
            return dict()
        a, b = Box.taken[0]
        L = core.lift
        x0, x1, y0, y1 = L(a.start), L(a.stop), L(b.start), L(b.stop)
        c.oblige('presence:the box lies within the cut-out on each axis', z3.And(x0 >= 0, x1 <= Hc.e, y0 >= 0, y1 <= Wc.e))
        c.oblige('presence:the box contains the pixel the component is centred in (wherever it is in the cut-out)', z3.And(x0 <= rx, rx < x1, y0 <= ry, ry < y1))
        return dict(slice=text[:600])
    return h


def oracle_layout(kind):
    """real priorized stage 1 on noise-free model images of special layouts: 'edge' = isolated sources whose central pixel is in
    the first / last row or column; 'faint-neighbour' = jointly fitted pairs with a 20:1 brightness ratio two beam widths apart"""
    from astropy.io import fits
    from checks import C14
    sfm = loader.real('source_finder')
    wh = loader.real('wcs_helpers')
    models = loader.real('models')
    d = tempfile.mkdtemp(prefix='c05l_', dir='/var/tmp')
    try:
        N, M = 70, 90
        hdr = fits.Header()
        hdr['NAXIS'] = 2
        hdr['NAXIS1'], hdr['NAXIS2'] = M, N
        hdr['CTYPE1'], hdr['CTYPE2'] = 'RA---SIN', 'DEC--SIN'
        hdr['CRVAL1'], hdr['CRVAL2'] = 40.0, -30.0
        hdr['CRPIX1'], hdr['CRPIX2'] = M / 2, N / 2
        scale = 10.0 / 3600
        hdr['CDELT1'], hdr['CDELT2'] = -scale, scale
        hdr['BMAJ'], hdr['BMIN'], hdr['BPA'] = 4 * scale, 4 * scale, 0.0
        helper = wh.WCSHelper.from_header(hdr)
        if kind == 'edge':
            spec = [((0.2, 30.3), 10.0, 0), ((35.1, 0.3), 12.0, 1), ((69.3, 60.2), 9.0, 2), ((30.2, 89.2), 11.0, 3), ((35.4, 45.3), 8.0, 4)]
        else:
            spec = [((20.2, 20.4), 40.0, 0), ((20.6, 30.1), 2.0, 0), ((50.3, 60.2), -30.0, 1), ((41.0, 60.5), -1.5, 1)]
        cat = []
        img = real_np.zeros((N, M))
        for k, ((r0, c0), peak, isl) in enumerate(spec):
            s = models.ComponentSource()
            s.ra, s.dec = helper.pix2sky((r0 + 1, c0 + 1))
            s.a, s.b, s.pa = 50.0, 45.0, 15.0 * k
            s.peak_flux = peak
            s.island, s.source, s.uuid = isl, k, '%s%d' % (kind[0], k)
            s.psf_a, s.psf_b, s.psf_pa = 40.0, 40.0, 0.0
            s.err_ra = s.err_dec = s.err_a = s.err_b = s.err_pa = 0.01
            s.local_rms = 0.05
            _, _, fx, fy, th = helper.sky2pix_ellipse((s.ra, s.dec), s.a / 3600, s.b / 3600, s.pa)
            img += C14.gauss_oracle((N, M), r0, c0, fx, fy, th, s.peak_flux)
            cat.append(s)
        fn = os.path.join(d, kind + '.fits')
        fits.PrimaryHDU(img, header=hdr).writeto(fn, overwrite=True)
        f = sfm.SourceFinder(log=logging.getLogger('c05'))
        pr = f.priorized_fit_islands(fn, catalogue=copy.deepcopy(cat), rms=0.05, bkg=0.0, stage=1, cores=1, doregroup=False)
        by = {s.uuid: s for s in pr}
        for s, ((r0, c0), peak, isl) in zip(cat, spec):
            p = by.get(s.uuid)
            if p is None or not (p.peak_flux == p.peak_flux) or abs(p.peak_flux / s.peak_flux - 1) > 2e-3:
                return True, kind + '-flux', '%s layout: source centred at 0-based (row, col) = (%.1f, %.1f) of a %dx%d image, peak %.3f, comes back as %s' % (kind, r0, c0, N, M, s.peak_flux, 'missing' if p is None else '%.4f' % p.peak_flux)
        return False, None, None
    except Exception as e:
        return True, 'raises-%s' % type(e).__name__, repr(e)[:300]
    finally:
        shutil.rmtree(d, ignore_errors=True)


def oracle_blend():
    """real priorized stage 1 on an east-west blend of three sources fitted jointly (one island): the image is exactly the
    model of the catalogue, so every flux must come back"""
    from astropy.io import fits
    sfm = loader.real('source_finder')
    wh = loader.real('wcs_helpers')
    models = loader.real('models')
    d = tempfile.mkdtemp(prefix='c05b_', dir='/var/tmp')
    try:
        N, M = 60, 90
        hdr = fits.Header()
        hdr['NAXIS'] = 2
        hdr['NAXIS1'], hdr['NAXIS2'] = M, N
        hdr['CTYPE1'], hdr['CTYPE2'] = 'RA---SIN', 'DEC--SIN'
        hdr['CRVAL1'], hdr['CRVAL2'] = 40.0, -30.0
        hdr['CRPIX1'], hdr['CRPIX2'] = M / 2, N / 2
        scale = 10.0 / 3600
        hdr['CDELT1'], hdr['CDELT2'] = -scale, scale
        hdr['BMAJ'], hdr['BMIN'], hdr['BPA'] = 4 * scale, 4 * scale, 0.0
        helper = wh.WCSHelper.from_header(hdr)
        for layout in ('east-west', 'north-south'):
            cents = [(30.2, 30.4 + 9 * k) for k in range(3)] if layout == 'east-west' else [(18.3 + 9 * k, 45.1) for k in range(3)]
            cat = []
            img = real_np.zeros((N, M))
            for k, (r0, c0) in enumerate(cents):
                s = models.ComponentSource()
                s.ra, s.dec = helper.pix2sky((r0 + 1, c0 + 1))
                s.a, s.b, s.pa = 60.0, 50.0, 20.0 * k
                s.peak_flux = 10.0 + 3 * k
                s.island, s.source, s.uuid = 0, k, 'b%d' % k
                s.psf_a, s.psf_b, s.psf_pa = 40.0, 40.0, 0.0
                s.err_ra, s.err_dec, s.err_a, s.err_b, s.err_pa = 0.01 + 0.001 * k, 0.02 + 0.001 * k, 1.0 + k, 0.5 + k, 3.0 + k      # every member its own
                s.local_rms = 0.05
                _, _, fx, fy, th = helper.sky2pix_ellipse((s.ra, s.dec), s.a / 3600, s.b / 3600, s.pa)
                from checks import C14
                img += C14.gauss_oracle((N, M), r0, c0, fx, fy, th, s.peak_flux)
                cat.append(s)
            # an isolated source of another island, listed BETWEEN the members of the blend (row order must not matter)
            far = models.ComponentSource()
            fr, fc = (8.3, 8.4) if layout == 'east-west' else (50.2, 10.3)
            far.ra, far.dec = helper.pix2sky((fr + 1, fc + 1))
            far.a, far.b, far.pa, far.peak_flux = 55.0, 45.0, 10.0, 7.0
            far.island, far.source, far.uuid = 1, 0, 'far'
            far.psf_a, far.psf_b, far.psf_pa = 40.0, 40.0, 0.0
            far.err_ra = far.err_dec = far.err_a = far.err_b = far.err_pa = 0.5
            far.local_rms = 0.05
            _, _, fx, fy, th = helper.sky2pix_ellipse((far.ra, far.dec), far.a / 3600, far.b / 3600, far.pa)
            img += C14.gauss_oracle((N, M), fr, fc, fx, fy, th, far.peak_flux)
            cat.insert(1, far)
            fn = os.path.join(d, layout + '.fits')
            fits.PrimaryHDU(img, header=hdr).writeto(fn, overwrite=True)
            f = sfm.SourceFinder(log=logging.getLogger('c05'))
            pr = f.priorized_fit_islands(fn, catalogue=copy.deepcopy(cat), rms=0.05, bkg=0.0, stage=1, cores=1, doregroup=False)
            by = {s.uuid: s for s in pr}
            for s in cat:
                p = by.get(s.uuid)
                if p is None or not (p.peak_flux == p.peak_flux) or abs(p.peak_flux / s.peak_flux - 1) > 1e-3:
                    return True, 'blend-flux', '%s blend of three sources 9 px apart (one island, a foreign row listed between its members): source %s peak %.4f comes back as %s' % (layout, s.uuid, s.peak_flux, 'missing' if p is None else '%.4f' % p.peak_flux)
                if (p.err_a, p.err_b, p.err_pa, p.err_ra, p.err_dec) != (s.err_a, s.err_b, s.err_pa, s.err_ra, s.err_dec):
                    return True, 'blend-errors', '%s blend, stage 1: source %s comes back with (err_a, err_b, err_pa, err_ra, err_dec) = %s, its input values are %s' % (layout, s.uuid, (p.err_a, p.err_b, p.err_pa, p.err_ra, p.err_dec), (s.err_a, s.err_b, s.err_pa, s.err_ra, s.err_dec))
        return False, None, None
    except Exception as e:
        return True, 'raises-%s' % type(e).__name__, repr(e)[:300]
    finally:
        shutil.rmtree(d, ignore_errors=True)


# ------------------------------------------------------------------ K-resize (no psf information)
def h_resize_nopsf(mods, ratio_mode, with_helper):
    cl = mods['cluster']

    def h(c):
        class S:
            pass
        srcs = []
        for k in range(2):
            s = S()
            s.ra, s.dec, s.a, s.b, s.pa = real('ra%d' % k), real('dec%d' % k), real('a%d' % k), real('b%d' % k), real('pa%d' % k)
            c.assume(s.a.e > 0)
            c.assume(s.b.e > 0)
            s.psf_a = s.psf_b = s.psf_pa = float('nan')      # what table_to_source_list gives for a missing column
            s.island, s.source = k, 0
            srcs.append(s)
        before = [(s.a, s.b) for s in srcs]

        class PH:
            def get_psf_sky2sky(self, ra, dec):
                return (real('ima'), real('imb'), real('impa'))

            def get_skybeam(self, ra, dec):
                return Beamish(real('ima'), real('imb'), real('impa'))
        cl.Beam = Beamish
        c.assume(z3.Real('ima') > 0)
        c.assume(z3.Real('imb') > 0)
        tag = 'resize without psf columns[ratio=%s,psfhelper=%s]' % (ratio_mode, with_helper)
        try:
            out = cl.resize(srcs, ratio=(1 if ratio_mode == 'one' else None), psfhelper=PH() if with_helper else None)
        except (core.Unsupported, core.HarnessError, core.Cut, core.Infeasible):
            raise
        except Exception as e:
            c.oblige(tag + ':handled without error', z3.BoolVal(False), info=repr(e))
            return dict(raised=repr(e))
        c.oblige(tag + ':handled without error', z3.BoolVal(True))
        c.oblige(tag + ':every source is kept', z3.BoolVal(len(out) == 2 and out[0] is srcs[0] and out[1] is srcs[1]))
        ok = []
        for s, (a0, b0) in zip(srcs, before):
            if isinstance(s.a, SN) and isinstance(s.b, SN):
                ok.append(z3.And(s.a.e == a0.e, s.b.e == b0.e))
            else:
                ok.append(z3.BoolVal(False))
        c.oblige(tag + ':sizes unchanged', z3.And(ok), timeout_ms=30000)
        return dict()
    return h


def h_resize_psf(mods, same_psf, from_cat):
    """resize with psf information (ratio None): deconvolve the catalogue psf, convolve with the image psf"""
    cl = mods['cluster']

    def h(c):
        class S:
            pass
        s = S()
        s.ra, s.dec, s.a, s.b, s.pa = real('ra'), real('dec'), real('a'), real('b'), real('pa')
        c.assume(s.a.e > 0)
        c.assume(s.b.e > 0)
        ima, imb = real('ima'), real('imb')        # image beam (degrees)
        c.assume(ima.e > 0)
        c.assume(imb.e > 0)
        if same_psf:
            cata, catb = ima * 3600, imb * 3600     # catalogue psf (arcsec) equal to the image beam
        else:
            cata, catb = real('cata'), real('catb')
            c.assume(cata.e > 0)
            c.assume(catb.e > 0)
        if from_cat:
            s.psf_a, s.psf_b, s.psf_pa = cata, catb, real('catpa')
        else:
            s.psf_a = s.psf_b = s.psf_pa = float('nan')
        s.island, s.source = 0, 0
        a0, b0 = s.a, s.b

        class PH:
            def get_psf_sky2sky(self, ra, dec):
                return (cata / 3600, catb / 3600, real('catpa'))

            def get_skybeam(self, ra, dec):
                return Beamish(ima, imb, real('impa'))
        cl.Beam = Beamish
        tag = 'resize with psf[%s, psf from %s]' % ('catalogue psf == image psf' if same_psf else 'different psfs', 'catalogue columns' if from_cat else 'the psf helper')
        out = cl.resize([s], ratio=None, psfhelper=PH())
        c.oblige(tag + ':source kept', z3.BoolVal(len(out) == 1 and out[0] is s))
        if not (isinstance(s.a, SN) and isinstance(s.b, SN)):
            c.oblige(tag + ':sizes are numbers', z3.BoolVal(False))
            return dict()
        if same_psf:
            c.oblige(tag + ':sizes unchanged for every source size (also smaller than the psf)', z3.And(s.a.e == a0.e, s.b.e == b0.e), timeout_ms=30000)
        else:
            for nm, new, old, cat, im in (('a', s.a, a0, cata, ima), ('b', s.b, b0, catb, imb)):
                q = (old.e / 3600) * (old.e / 3600) - (cat.e / 3600) * (cat.e / 3600) + im.e * im.e
                c.oblige(tag + ':%s^2 == %s0^2 - cat_psf^2 + image_psf^2 (clipped to the image psf when negative)' % (nm, nm),
                         z3.If(q < 0, new.e == im.e * 3600, z3.And(new.e >= 0, (new.e / 3600) * (new.e / 3600) == q)), timeout_ms=30000)
        return dict()
    return h


# ------------------------------------------------------------------ replay oracle: real priorized runs on the noise-free model image
def oracle(stages=(1, 2, 3), nsrc=9, nopsf=False, ratio=None, small=False, beam=(4.0, 4.0)):
    sfm = loader.real('source_finder')
    flags = loader.real('flags')
    d = tempfile.mkdtemp(prefix='c05_', dir='/var/tmp')
    try:
        fn, truth, hdr = C03.make_field(d, nsrc, seed=4, beam=beam)
        f = sfm.SourceFinder(log=logging.getLogger('c05'))
        blind = sorted(f.find_sources_in_image(fn, rms=0.05, bkg=0.0, cores=1, innerclip=20, outerclip=15))
        if len(blind) != nsrc:
            return True, 'blind-count', 'blind run found %d of %d' % (len(blind), nsrc)
        for st in stages:
            cat = copy.deepcopy(blind)
            for k, s in enumerate(cat):
                s.uuid = 'uuid-%d' % k
                if k % 2:
                    s.flags |= flags.PRIORIZED          # a catalogue that itself came from a priorized run
                if small and k % 2 == 0:
                    # a catalogued minor axis a little smaller than the psf (as noise produces): the shape must come back unchanged
                    s.b = s.psf_b * 0.93
                if nopsf:
                    s.psf_a = s.psf_b = s.psf_pa = real_np.nan
            f = sfm.SourceFinder(log=logging.getLogger('c05'))
            try:
                pr = f.priorized_fit_islands(fn, catalogue=copy.deepcopy(cat), rms=0.05, bkg=0.0, stage=st, cores=1, doregroup=False, ratio=ratio)
            except Exception as e:
                return True, ('no-psf-columns-raises' if nopsf else 'raises-%s' % type(e).__name__), 'priorized stage %d%s raised %r' % (st, ' on a catalogue without psf columns' if nopsf else '', e)
            by = {s.uuid: s for s in pr}
            if len(pr) != len(cat) or set(by) != set(s.uuid for s in cat):
                return True, ('no-psf-columns-drops-sources' if nopsf else 'source-count'), 'stage %d%s: %d components returned for %d catalogue sources' % (st, ' (no psf columns, ratio=%s)' % ratio if nopsf else '', len(pr), len(cat))
            for s in cat:
                p = by[s.uuid]
                if not (p.flags & flags.PRIORIZED) or (int(p.flags) & ~127):
                    return True, 'flag', 'stage %d: flags %d for an input source with flags %d (PRIORIZED missing or an undocumented bit set)' % (st, p.flags, s.flags)
                if abs(p.peak_flux / s.peak_flux - 1) > 1e-3 and not small:
                    return True, 'flux', 'stage %d: source at (%.4f, %.4f) peak %.5f comes back as %.5f (%.2f%% off; image is exactly the noise-free model of the catalogue)' % (st, s.ra, s.dec, s.peak_flux, p.peak_flux, 100 * (p.peak_flux / s.peak_flux - 1))
                if st == 1:
                    if abs(p.ra - s.ra) > 1e-9 or abs(p.dec - s.dec) > 1e-9:
                        return True, 'position-changed', 'stage 1 moved a source by (%g, %g) deg' % (p.ra - s.ra, p.dec - s.dec)
                    if p.err_ra != s.err_ra or p.err_dec != s.err_dec:
                        return True, 'errors-not-copied', 'stage 1 did not return the input position uncertainties'
                else:
                    sep = math.hypot((p.ra - s.ra) * math.cos(math.radians(s.dec)), p.dec - s.dec) / abs(hdr['CDELT2'])
                    if sep > 0.01:
                        return True, 'position', 'stage %d: position off by %.4f pixel' % (st, sep)
                if st < 3 and (abs(p.a - s.a) > 1e-6 * s.a or abs(p.b - s.b) > 1e-6 * s.b or p.err_a != s.err_a):
                    return True, 'shape-changed', 'stage %d changed the shape (%r, %r) -> (%r, %r)' % (st, s.a, s.b, p.a, p.b)
        return False, None, None
    except Exception as e:
        return True, 'raises-%s' % type(e).__name__, repr(e)[:300]
    finally:
        shutil.rmtree(d, ignore_errors=True)


def oracle_pairing():
    """real priorized fit of a two-member island whose FIRST member lies off the image: the component that comes back
    must carry the uuid (and stage-1 uncertainties) of the member that was actually measured"""
    sfm = loader.real('source_finder')
    d = tempfile.mkdtemp(prefix='c05p_', dir='/var/tmp')
    try:
        fn, truth, hdr = C03.make_field(d, 4, seed=4)
        f = sfm.SourceFinder(log=logging.getLogger('c05'))
        blind = sorted(f.find_sources_in_image(fn, rms=0.05, bkg=0.0, cores=1, innerclip=20, outerclip=15))
        good = copy.deepcopy(blind[0])
        ghost = copy.deepcopy(blind[0])
        good.island, good.source, good.uuid, good.err_ra = 0, 1, 'measured', 0.123
        ghost.island, ghost.source, ghost.uuid, ghost.err_ra = 0, 0, 'off-image', 0.456
        ghost.dec = ghost.dec - 1.0          # one degree south: far off this image
        f = sfm.SourceFinder(log=logging.getLogger('c05'))
        pr = f.priorized_fit_islands(fn, catalogue=[ghost, good], rms=0.05, bkg=0.0, stage=1, cores=1, doregroup=False)
        if len(pr) != 1:
            return True, 'pairing-count', '%d components for one measurable member' % len(pr)
        if pr[0].uuid != 'measured' or pr[0].err_ra != 0.123:
            return True, 'uuid-of-rejected-member', 'island with an off-image first member: the measured component came back with uuid %r and err_ra %r (expected %r, 0.123)' % (pr[0].uuid, pr[0].err_ra, 'measured')
        return False, None, None
    except Exception as e:
        return True, 'raises-%s' % type(e).__name__, repr(e)[:300]
    finally:
        shutil.rmtree(d, ignore_errors=True)


def presence_replay():
    bad, cls, detail = oracle_blend()
    if not bad:
        bad, cls, detail = oracle_layout('edge')
    return bad, cls, detail


def refit_replay():
    bad, cls, detail = oracle((1,))
    if not bad:
        bad, cls, detail = oracle((1,), beam=(5.4, 4.0))
    return bad, cls, detail


def run(rep):
    thorough = rep.tier == 'thorough'
    mods = r2c.sym_sf()
    mods.update(loader.load_private(['cluster']))
    loader.patch(mods['cluster'], builtins=False)
    rep.assume('floats as reals', 'the fit (MINPACK) is not encoded: flux/position/shape equalities after the fit are exercised only by the replay oracle')
    rep.kernel('K-refit', functions=[F + ':SourceFinder._refit_islands'], bounds='one source on a 40x50 image: symbolic 1-based pixel position (any, also off the image), FWHM 2..5 px, any stage (symbolic integer) and stages 1, 2, 3; cut-out corners concretised by case split',
               stubs=['lmfit.Parameters -> record class', 'wcshelper/psfhelper -> symbolic pixel position and shape', 'image -> shape + cut at the first slicing'],
               outside=['more than one source per island', 'the fit and everything after it'])
    for sm in (['sym', 1, 2, 3] if thorough else ['sym', 2]):
        st, res = explore(h_refit2(mods, sm), workers=16, wall_s=900, max_paths=20000)
        rep.stats(st)
        collect(rep, res, 'K-refit', refit_replay, dict(kind='priorized-beam', stages=[1]))
    rep.end_kernel()
    rep.kernel('K-copyback', functions=[F + ':SourceFinder._refit_islands'], bounds='three components, any stage (symbolic integer)', assumes=['slice: the `for ns, s in zip(new_src, included_sources)` loop'])
    try:
        st, res = explore(h_copyback('sym'))
        rep.stats(st)
        collect(rep, res, 'K-copyback', lambda: oracle((1, 2)), dict(kind='priorized', stages=[1, 2]))
    except slicer.AnchorMissing as e:
        rep.inconc('anchor-missing %s' % e)
    try:
        st, res = explore(h_pairing(mods), workers=16, wall_s=600, max_paths=5000)
        rep.stats(st)
        collect(rep, res, 'K-copyback', lambda: oracle_pairing(), dict(kind='pairing'))
    except slicer.AnchorMissing as e:
        rep.inconc('anchor-missing %s' % e)
    rep.end_kernel()
    rep.kernel('K-fwhm-mask', functions=[F + ':SourceFinder._refit_islands', 'AegeanTools/fitting.py:ntwodgaussian_lmfit', 'AegeanTools/fitting.py:elliptical_gaussian'],
               bounds='the WHOLE function up to the optimiser call on a two-member island of concrete geometry, both amplitudes symbolic (non-zero, any sign and ratio)',
               stubs=['lmfit.Parameters -> record class', 'do_lmfit -> cut capturing the pixels it is given', 'wcs/psf helpers -> concrete pixel geometry'])
    st, res = explore(h_fwhm_mask(mods), wall_s=90, max_paths=24)
    rep.stats(st)
    collect(rep, res, 'K-fwhm-mask', lambda: oracle_layout('faint-neighbour'), dict(kind='layout', layout='faint-neighbour'))
    rep.end_kernel()
    rep.kernel('K-presence', functions=[F + ':SourceFinder._refit_islands'], bounds='one component centred in any pixel of a cut-out of any shape up to 200x200 (symbolic integers), symbolic sub-pixel position',
               assumes=['slice: the statements of the per-component loop up to `square = idata[a:b, c:d]` (located by role: a 2-D box of the cut-out that is then tested with isfinite)'],
               outside=['the FWHM mask applied to the cut-out before this test'])
    try:
        st, res = explore(h_presence())
        rep.stats(st)
        collect(rep, res, 'K-presence', presence_replay, dict(kind='layout', layout='edge'))
    except slicer.AnchorMissing as e:
        rep.inconc('anchor-missing %s' % e)
    rep.end_kernel()
    rep.kernel('K-resize-nopsf', functions=[FC + ':resize'], bounds='two sources with symbolic sizes and UNDEFINED psf columns; ratio None / 1; with and without a psf helper',
               stubs=['Beam -> record', 'psf helper -> symbolic image beam'])
    for rm in ('none', 'one'):
        for wh in (True, False):
            st, res = explore(h_resize_nopsf(mods, rm, wh))
            rep.stats(st)
            collect(rep, res, 'K-resize-nopsf', lambda rm=rm: oracle((1,), nopsf=True, ratio=(1.0 if rm == 'one' else None)), dict(kind='priorized-nopsf', ratio=(1.0 if rm == 'one' else None)))
    rep.end_kernel()
    rep.kernel('K-resize-psf', functions=[FC + ':resize'], bounds='one source, all positive sizes; catalogue psf equal to / different from the image psf; psf from catalogue columns or from the helper',
               stubs=['Beam -> record', 'psf helper -> symbolic beams', 'np.sqrt -> radical'])
    for same in (True, False):
        for fc in (True, False):
            st, res = explore(h_resize_psf(mods, same, fc))
            rep.stats(st)
            collect(rep, res, 'K-resize-psf', lambda: oracle((1,), small=True), dict(kind='priorized-small', stages=[1]))
    rep.end_kernel()
    rep.kernel('K-replay-oracle', functions=[F + ':SourceFinder.priorized_fit_islands'], bounds='noise-free 9-source field = exactly the model of the catalogue: stages 1-3, with psf columns; stage 1 without psf columns at ratio None and 1',
               assumes=['concrete executions at the level of the property statement'])
    bad, cls, detail = oracle_pairing()
    rep.validated_runs(1)
    if bad:
        rep.finding('C05/K-copyback/%s' % cls, dict(kind='pairing'), detail)
    bad, cls, detail = oracle_blend()
    rep.validated_runs(2)
    if bad:
        rep.finding('C05/K-presence/%s' % cls, dict(kind='blend'), detail)
    for lay in ('edge', 'faint-neighbour'):
        bad, cls, detail = oracle_layout(lay)
        rep.validated_runs(1)
        if bad:
            rep.finding('C05/K-presence/%s' % cls, dict(kind='layout', layout=lay), detail)
    for kw, w in ((dict(stages=(1, 2, 3)), dict(kind='priorized', stages=[1, 2, 3])), (dict(stages=(1,), small=True), dict(kind='priorized-small', stages=[1])), (dict(stages=(1, 2), beam=(5.4, 4.0)), dict(kind='priorized-beam', stages=[1, 2])), (dict(stages=(1,), nopsf=True), dict(kind='priorized-nopsf', ratio=None)), (dict(stages=(1,), nopsf=True, ratio=1.0), dict(kind='priorized-nopsf', ratio=1.0))):
        bad, cls, detail = oracle(**kw)
        rep.validated_runs(1)
        if bad:
            k = 'K-resize-nopsf' if 'psf' in cls else ('K-resize-psf' if kw.get('small') else 'K-refit')
            rep.finding('C05/%s/%s' % (k, cls), w, detail)
    rep.end_kernel()
    rep.not_decided += ['fluxes / positions / shapes equal the catalogue values after the fit (0.1 % / 0.01 pixel): replay oracle only', 'blended islands with several sources (an east-west and a north-south triple in the replay oracle only)', 'regroup on/off equivalence']


def collect(rep, res, kname, replay_fn, wit):
    done = False
    for r in res:
        for ob in r['obligations']:
            rep.count(ob['result'], ob['name'])
            if ob['result'] == 'sat' and not done:
                bad, cls, detail = replay_fn()
                if rep.finding('C05/%s/%s' % (kname, cls or ob['name'].split(':')[-1]), wit, detail or ob['name'], reproduced=bad) != 'not-reproduced':
                    done = True
    good = [r for r in res if r['obligations']]
    if good:
        rep.sample(dict(kernel=kname, paths=len(res), outcome=good[0]['out'], obligations=[(o['name'].split(':', 1)[-1][:80], o['result']) for o in good[0]['obligations']][:10]))


def replay(w):
    wit = w['witness']
    if wit.get('kind') == 'pairing':
        bad, cls, detail = oracle_pairing()
    elif wit.get('kind') == 'priorized-small':
        bad, cls, detail = oracle((1,), small=True)
    elif wit.get('kind') == 'priorized-nopsf':
        bad, cls, detail = oracle((1,), nopsf=True, ratio=wit.get('ratio'))
    elif wit.get('kind') == 'blend':
        bad, cls, detail = oracle_blend()
    elif wit.get('kind') == 'layout':
        bad, cls, detail = oracle_layout(wit.get('layout', 'edge'))
    elif wit.get('kind') == 'priorized-beam':
        bad, cls, detail = oracle(tuple(wit.get('stages', [1])), beam=(5.4, 4.0))
    else:
        bad, cls, detail = oracle(tuple(wit.get('stages', [1])))
    return bad, '%s: %s' % (cls, detail)


if __name__ == '__main__':
    main(sys.modules[__name__])
