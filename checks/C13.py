"""C13 sign symmetry and polarity filters of the source finder (partial: the deterministic kernels).
(a) relational run of the real find_islands on (im, bkg) and (-im, -bkg) with shared symbolic pixels;
(b) the polarity filter test sliced from find_sources_in_image on a symbolic peak flux and symbolic flags;
(c) the isnegative / summit selector / amplitude-bound statements sliced from estimate_lmfit_parinfo, run
    relationally on (data, curve) and (-data, -curve)."""
import math
import sys
import types

import numpy as real_np
import z3

from symx import core, loader, slicer
from symx.core import real, SN, SB, explore
from symx.report import main
from checks import islands as I
from checks import C02

PID = 'C13'
F = I.F


# ---------------------------------------------------------------- (a)
def h_negate(sf, R, C, mode):
    def h(c):
        im = I.make_image(R, C)
        imn = I.make_image(R, C, sign=-1)
        flood, seed = real('flood'), real('seed')
        c.assume(flood.e > 0)
        c.assume(seed.e >= flood.e)
        if mode == 'zero':
            bkg = real_np.zeros((R, C))
            nbkg = real_np.zeros((R, C))
            rms = real_np.ones((R, C))
        else:
            b, s = real('bkg'), real('rms')
            c.assume(s.e > 0)
            bkg = real_np.empty((R, C), dtype=object)
            nbkg = real_np.empty((R, C), dtype=object)
            rms = real_np.empty((R, C), dtype=object)
            bkg[:] = b
            nbkg[:] = -b
            rms[:] = s
        A = [I.island_pixels(i) for i in sf.find_islands(im, bkg, rms, seed_clip=seed, flood_clip=flood)]
        B = [I.island_pixels(i) for i in sf.find_islands(imn, nbkg, rms, seed_clip=seed, flood_clip=flood)]
        c.oblige('negate[%dx%d,%s]:same islands (boxes, pixels, order)' % (R, C, mode), z3.BoolVal(A == B))
        return dict(islands=len(A))
    return h


def replay_negate(w):
    sf = loader.real('source_finder')
    R, C = int(w['R']), int(w['C'])
    im = real_np.array(w['im'], dtype=float).reshape(R, C)
    bkg = real_np.array(w['bkg'], dtype=float).reshape(R, C)
    rms = real_np.array(w['rms'], dtype=float).reshape(R, C)
    A = [I.island_pixels(i) for i in sf.find_islands(im, bkg, rms, seed_clip=float(w['seed']), flood_clip=float(w['flood']))]
    B = [I.island_pixels(i) for i in sf.find_islands(-im, -bkg, rms, seed_clip=float(w['seed']), flood_clip=float(w['flood']))]
    return A != B, 'islands-differ', 'islands of image %s vs negated image %s' % (A, B)


# ---------------------------------------------------------------- (b)
def polarity(rep):
    rep.kernel('K-polarity-filter', functions=[F + ':SourceFinder.find_sources_in_image'], bounds='all real peak fluxes != 0, all four (nopositive, nonegative) settings',
               assumes=['slice: the test of the if-statement in find_sources_in_image that mentions peak_flux, nopositive and nonegative (a true test skips the source)'])
    try:
        code, text, node = slicer.find_if_test(F, 'find_sources_in_image', ['peak_flux', 'nopositive', 'nonegative'], cls='SourceFinder')
    except slicer.AnchorMissing as e:
        rep.inconc('anchor-missing %s' % e)
        rep.end_kernel()
        return
    skips_src = any(isinstance(n, ast_Continue) for n in node.body)
    rep.sample(dict(kernel='K-polarity-filter', test=text, body_is_continue=skips_src))
    # the polarity options must act through the component's own peak flux only: every test that reads them is examined
    fn_ = slicer.get_function(F, 'find_sources_in_image', 'SourceFinder')
    tests = [_ast.unparse(n.test) for n in _ast.walk(fn_) if isinstance(n, (_ast.If, _ast.IfExp, _ast.While)) and ('nopositive' in _ast.unparse(n.test) or 'nonegative' in _ast.unparse(n.test))]
    other = [t for t in tests if 'peak_flux' not in t]
    rep.count('unsat' if not other else 'sat', 'polarity:the polarity options are tested against the component peak flux only')
    if other:
        bad, cls, detail = polarity_oracle()
        rep.finding('C13/K-polarity-filter/%s' % (cls or 'second-filter'), dict(kind='polarity-catalogue'), detail or 'polarity options also tested in: %s' % other, reproduced=bad)

    def h(c):
        peak = real('peak')
        c.assume(peak.e != 0)
        src = types.SimpleNamespace(peak_flux=peak)

        def skipped(nopos, noneg):
            r = eval(code, {'src': src, 'nopositive': nopos, 'nonegative': noneg})
            return bool(r)
        both = not skipped(False, False)
        pos = not skipped(False, True)      # positive-only catalogue
        neg = not skipped(True, False)      # negative-only catalogue
        none = not skipped(True, True)
        P = peak.e > 0
        c.oblige('polarity:both polarities keeps every source', z3.BoolVal(both))
        c.oblige('polarity:positive-only keeps exactly the positive sources', P if pos else z3.Not(P))
        c.oblige('polarity:negative-only keeps exactly the negative sources', z3.Not(P) if neg else P)
        c.oblige('polarity:disjoint and together equal to both', z3.BoolVal((pos != neg) and (pos or neg) == both))
        c.oblige('polarity:excluding both signs keeps nothing', z3.BoolVal(not none))
        return dict(pos=pos, neg=neg)
    st, res = explore(h)
    rep.stats(st)
    for r in res:
        for ob in r['obligations']:
            rep.count(ob['result'], ob['name'])
            if ob['result'] == 'sat':
                # the slice IS the real test; reproduce by evaluating it concretely
                pk = float(ob['model'].get('peak', 1.0))
                src = types.SimpleNamespace(peak_flux=pk)
                keep_pos = not eval(code, {'src': src, 'nopositive': False, 'nonegative': True})
                keep_neg = not eval(code, {'src': src, 'nopositive': True, 'nonegative': False})
                bad = (keep_pos != (pk > 0)) or (keep_neg != (pk < 0))
                rep.finding('C13/K-polarity-filter/%s' % ob['name'].split(':')[-1], dict(kind='polarity', peak=pk), 'peak %r: kept in positive-only=%s negative-only=%s' % (pk, keep_pos, keep_neg), reproduced=bad)
        rep.sample(dict(kernel='K-polarity-filter', path=r['trace'], out=r['out'], obligations=[(o['name'], o['result']) for o in r['obligations']]))
    rep.end_kernel()


import ast as _ast
ast_Continue = _ast.Continue


# ---------------------------------------------------------------- (c)
CONST = [[2.0, 2.5, 2.0], [2.5, None, 2.2], [2.1, None, 2.4]]    # None -> symbolic pixel


def make_island(sign, prefix):
    data = real_np.empty((3, 3), dtype=object)
    curve = real_np.empty((3, 3), dtype=object)
    syms = []
    for r in range(3):
        for cc in range(3):
            if CONST[r][cc] is None:
                d = real('%sd_%d_%d' % (prefix, r, cc))
                k = real('%sk_%d_%d' % (prefix, r, cc))
                data[r, cc] = d
                curve[r, cc] = k
                syms.append((r, cc, d, k))
            else:
                data[r, cc] = sign * CONST[r][cc]
                curve[r, cc] = 0.0
    return data, curve, syms


def h_selector(fac_sel, flags_mod, sign):
    class NP(loader.NPProxy):
        pass

    def h(c):
        f = fac_sel(dict(core.BUILTINS, np=NP(), flags=flags_mod))
        data, curve, syms = make_island(sign, '')
        oc = real('outerclip')
        c.assume(oc.e > 0)
        rms = real_np.ones((3, 3))
        for r, cc, d, k in syms:
            c.assume(d.e != 0)

        class Self:
            log = loader.NullLog()

            @staticmethod
            def _gen_flood_wrap(*a, **k):
                return []
        try:
            neg1, ks1 = f(Self(), data, rms, curve, oc, 0)
            neg2, ks2 = f(Self(), -data, rms, -curve, oc, 0)
        except (NameError, UnboundLocalError):
            return dict(tiny=True)
        samesign = z3.Or(z3.And([d.e > 0 for _, _, d, _ in syms] + [z3.BoolVal(sign > 0)]), z3.And([d.e < 0 for _, _, d, _ in syms] + [z3.BoolVal(sign < 0)]))
        single = c.decide(samesign)
        kind = 'single-sign island' if single else 'mixed-sign island'
        sel = []
        for r, cc, d, k in syms:
            a, b = ks1[r, cc], ks2[r, cc]
            sa, sb = not loader._isnanf(a), not loader._isnanf(b)
            sel.append((sa, sb))
            same = (sa == sb)
            if same and sa:
                same = z3.simplify(core.lift(a) + core.lift(b) == 0)
            c.oblige('selector:pixel selected in both or neither, values negated [%s]' % kind, same if not isinstance(same, bool) else z3.BoolVal(same))
        if single:
            c.oblige('selector:isnegative flips for a single-sign island', z3.BoolVal(bool(neg1) != bool(neg2)))
        return dict(isneg=(bool(neg1), bool(neg2)), selected=sel)
    return h


def h_peak(fac_peak):
    def h(c):
        f = fac_peak(dict(core.BUILTINS, np=loader.NPProxy()))
        vals = [real('s_%d' % i) for i in range(3)]
        summit = real_np.array([[vals[0], vals[1]], [float('nan'), vals[2]]], dtype=object)
        nsummit = real_np.array([[-vals[0], -vals[1]], [float('nan'), -vals[2]]], dtype=object)
        for isneg in (False, True):
            amp1, x1, y1 = f(summit, isneg)
            amp2, x2, y2 = f(nsummit, not isneg)
            c.oblige('peak:amp negated and same peak pixel [isnegative=%s]' % isneg, z3.And(core.lift(amp1) + core.lift(amp2) == 0, z3.BoolVal((int(x1), int(y1)) == (int(x2), int(y2)))))
            ext = z3.And([(core.lift(amp1) <= v.e) if isneg else (core.lift(amp1) >= v.e) for v in vals])
            c.oblige('peak:amp is the extreme pixel of the summit [isnegative=%s]' % isneg, ext)
        return dict()
    return h


def h_snr(fac_snr):
    """the summit acceptance statistic (compared with innerclip) on a 2x2 summit and on its negation"""
    def h(c):
        f = fac_snr(dict(core.BUILTINS, np=loader.NPProxy()))
        vals = [[real('s_%d_%d' % (i, j)) for j in range(2)] for i in range(2)]
        rms = real_np.empty((2, 2), dtype=object)
        for i in range(2):
            for j in range(2):
                rms[i, j] = real('r_%d_%d' % (i, j))
                c.assume(rms[i, j].e > 0)
        # a single-sign summit (the tiny-island route hands the whole island over as one summit)
        sgn = real('sgn')
        c.assume(z3.Or(sgn.e == 1, sgn.e == -1))
        for row in vals:
            for v in row:
                c.assume(v.e * sgn.e > 0)
        data = real_np.array(vals, dtype=object)
        ndata = real_np.array([[-v for v in row] for row in vals], dtype=object)
        s1 = f(data, rms, data, 0, 2, 0, 2)
        s2 = f(ndata, rms, ndata, 0, 2, 0, 2)
        s1 = s1[0] if isinstance(s1, tuple) else s1
        s2 = s2[0] if isinstance(s2, tuple) else s2
        c.oblige('snr:the acceptance statistic of a summit equals that of its negation', core.lift(s1) == core.lift(s2))
        c.oblige('snr:it is the largest |pixel / rms| of the summit', z3.And([core.lift(s1) >= z3.If(v.e >= 0, v.e, -v.e) / rms[i, j].e for i, row in enumerate(vals) for j, v in enumerate(row)]))
        return dict()
    return h


def tiny_island_witness(sign):
    """a five-pixel single-sign island with unequal pixels (the whole island is one summit)"""
    data = real_np.full((3, 3), real_np.nan)
    for (r, cc), v in {(0, 1): 4.2, (1, 0): 4.5, (1, 1): 8.0, (1, 2): 4.4, (2, 1): 4.1}.items():
        data[r, cc] = sign * v
    curve = real_np.zeros((3, 3))
    curve[1, 1] = -sign
    return dict(kind='selector', data=[[None if x != x else x for x in row] for row in data.tolist()], curve=curve.tolist(), outerclip=4.0, innerclip=5.0)


def h_bounds(fac_b):
    def h(c):
        f = fac_b(dict(core.BUILTINS, np=loader.NPProxy()))
        amp, ic, oc, rm = real('amp'), real('innerclip'), real('outerclip'), real('rmsv')
        c.assume(amp.e != 0)
        c.assume(ic.e >= oc.e)
        c.assume(oc.e > 0)
        c.assume(rm.e > 0)
        rmsimg = real_np.empty((1, 1), dtype=object)
        rmsimg[0, 0] = rm
        pa_, pb_ = real('pixbeam_a'), real('pixbeam_b')
        c.assume(pb_.e > 0)
        c.assume(pa_.e >= pb_.e)

        class PB:
            a, b, pa = pa_, pb_, real('pixbeam_pa')
        lo1, hi1 = f(amp, ic, oc, rmsimg, 0, 0, PB())
        lo2, hi2 = f(-amp, ic, oc, rmsimg, 0, 0, PB())
        c.oblige('bounds:bounds(-amp) == (-max, -min) of bounds(amp)', z3.And(core.lift(lo2) + core.lift(hi1) == 0, core.lift(hi2) + core.lift(lo1) == 0))
        c.oblige('bounds:min <= amp <= max for |amp| >= outerclip*rms', z3.And(core.lift(lo1) <= amp.e, amp.e <= core.lift(hi1)),
                 assume=[z3.Or(amp.e >= oc.e * rm.e, -amp.e >= oc.e * rm.e)])
        return dict()
    return h


def replay_selector(w):
    """property-level precursor on the real estimate_lmfit_parinfo: the initial components of an island and of its
    negation must be mirror images (same positions, negated amplitudes)"""
    sfm = loader.real('source_finder')
    wh = loader.real('wcs_helpers')
    from astropy.io import fits
    hdr = fits.Header()
    hdr['NAXIS'] = 2
    hdr['NAXIS1'], hdr['NAXIS2'] = 40, 40
    hdr['CTYPE1'], hdr['CTYPE2'] = 'RA---SIN', 'DEC--SIN'
    hdr['CRVAL1'], hdr['CRVAL2'] = 30.0, -40.0
    hdr['CRPIX1'], hdr['CRPIX2'] = 20.0, 20.0
    hdr['CDELT1'], hdr['CDELT2'] = -1.0 / 120, 1.0 / 120
    hdr['BMAJ'], hdr['BMIN'], hdr['BPA'] = 3.0 / 120, 3.0 / 120, 0.0
    helper = wh.WCSHelper.from_header(hdr)
    finder = sfm.SourceFinder()
    finder.global_data.wcshelper = helper
    finder.global_data.psfhelper = helper
    data = real_np.array([[real_np.nan if x is None else x for x in row] for row in w['data']], dtype=float)
    curve = real_np.array(w['curve'], dtype=float)
    rms = real_np.ones(data.shape)

    def comps(d, k):
        p = finder.estimate_lmfit_parinfo(d, rms, k, None, innerclip=float(w['innerclip']), outerclip=float(w['outerclip']), offsets=(10, 10))
        if p is None:
            return []
        n = int(p['components'].value)
        return [(round(p['c%d_xo' % i].value, 6), round(p['c%d_yo' % i].value, 6), round(p['c%d_amp' % i].value, 9),
                 round(float(p['c%d_amp' % i].min), 9), round(float(p['c%d_amp' % i].max), 9)) for i in range(n)]     # component order matters
    A = comps(data, curve)
    B = comps(-data, -curve)
    mirror = [(x, y, -a, -hi + 0.0, -lo + 0.0) for x, y, a, lo, hi in B]
    bad = A != mirror
    mixed = (data[real_np.isfinite(data)] > 0).any() and (data[real_np.isfinite(data)] < 0).any()
    return bad, ('mixed-sign-island' if mixed else 'single-sign-island'), 'initial components (xo, yo, amp, amp_min, amp_max) %s vs mirrored components of the negated island %s' % (A, mirror)


def two_summit_witness(sign=-1):
    """a single-sign island with two blended summits of different brightness"""
    y, x = real_np.mgrid[0:7, 0:13].astype(float)
    g = lambda a, x0, y0: a * real_np.exp(-((x - x0) ** 2 + (y - y0) ** 2) / (2 * 1.3 ** 2))
    data = g(10, 3, 3) + g(6, 9, 3) + 0.5
    curve = real_np.zeros(data.shape)
    curve[2:5, 2:5] = -1
    curve[2:5, 8:11] = -1
    return dict(kind='selector', data=(sign * data).tolist(), curve=(sign * curve).tolist(), outerclip=0.25, innerclip=0.3)


def polarity_oracle():
    """catalogue level: positive-only and negative-only catalogues are disjoint, of the requested sign, and together equal
    the both-polarities catalogue - on an image where a bright negative source sits inside the box of a positive one"""
    import logging
    import os
    import shutil
    import tempfile
    from astropy.io import fits
    sfm = loader.real('source_finder')
    d = tempfile.mkdtemp(prefix='c13_', dir='/var/tmp')
    try:
        N = 80
        y, x = real_np.mgrid[0:N, 0:N].astype(float)
        u, v = (x - y) / math.sqrt(2), (x + y - 80) / math.sqrt(2)
        img = 15 * real_np.exp(-(u ** 2 / (2 * 1.6 ** 2) + v ** 2 / (2 * 9.0 ** 2)))          # elongated along the diagonal
        img += -40 * real_np.exp(-((x - 52) ** 2 + (y - 28) ** 2) / (2 * 1.6 ** 2))            # compact negative source in a corner of its box
        img += 12 * real_np.exp(-((x - 15) ** 2 + (y - 65) ** 2) / (2 * 1.6 ** 2))
        hdr = fits.Header()
        hdr['CTYPE1'], hdr['CTYPE2'] = 'RA---SIN', 'DEC--SIN'
        hdr['CRVAL1'], hdr['CRVAL2'] = 30., -40.
        hdr['CRPIX1'] = hdr['CRPIX2'] = N / 2
        hdr['CDELT1'], hdr['CDELT2'] = -1 / 120, 1 / 120
        hdr['BMAJ'] = hdr['BMIN'] = 1.6 * 2.3548 / 120
        hdr['BPA'] = 0.
        fn = os.path.join(d, 'a.fits')
        fits.PrimaryHDU(img, header=hdr).writeto(fn)

        def cat(**kw):
            f = sfm.SourceFinder(log=logging.getLogger('c13'))
            srcs = f.find_sources_in_image(fn, rms=0.5, bkg=0.0, cores=1, **kw)
            return sorted((round(s.ra, 6), round(s.dec, 6), round(s.peak_flux, 4)) for s in srcs)
        both = cat(nopositive=False, nonegative=False)
        pos = cat(nopositive=False, nonegative=True)
        neg = cat(nopositive=True, nonegative=False)
        if any(p[2] < 0 for p in pos) or any(p[2] > 0 for p in neg):
            return True, 'polarity-sign', 'positive-only %s negative-only %s' % (pos, neg)
        if sorted(pos + neg) != both:
            return True, 'polarity-union', 'positive-only (%d) + negative-only (%d) != both polarities (%d): missing %s' % (len(pos), len(neg), len(both), sorted(set(both) - set(pos + neg)))
        return False, None, None
    except Exception as e:
        return True, 'raises-%s' % type(e).__name__, repr(e)[:200]
    finally:
        shutil.rmtree(d, ignore_errors=True)


def island_mirror_oracle():
    """island-level catalogue (doislandflux): the islands reported for -image are those of image with the flux columns negated
    and everything else (position of the extreme pixel, background, local rms, pixel count, extent) unchanged"""
    import logging
    import os
    import shutil
    import tempfile
    from astropy.io import fits
    sfm = loader.real('source_finder')
    models = loader.real('models')
    d = tempfile.mkdtemp(prefix='c13i_', dir='/var/tmp')
    try:
        N = 90
        y, x = real_np.mgrid[0:N, 0:N].astype(float)
        img = 30 * real_np.exp(-((x - 25.3) ** 2 / (2 * 2.6 ** 2) + (y - 30.8) ** 2 / (2 * 1.7 ** 2)))
        img += -22 * real_np.exp(-((x - 62.6) ** 2 / (2 * 1.8 ** 2) + (y - 58.1) ** 2 / (2 * 3.1 ** 2)))
        img += 9 * real_np.exp(-((x - 70.2) ** 2 + (y - 18.4) ** 2) / (2 * 1.7 ** 2))
        hdr = fits.Header()
        hdr['CTYPE1'], hdr['CTYPE2'] = 'RA---SIN', 'DEC--SIN'
        hdr['CRVAL1'], hdr['CRVAL2'] = 210., 12.
        hdr['CRPIX1'] = hdr['CRPIX2'] = N / 2
        hdr['CDELT1'], hdr['CDELT2'] = -1 / 120, 1 / 120
        hdr['BMAJ'] = hdr['BMIN'] = 1.7 * 2.3548 / 120
        hdr['BPA'] = 0.
        cats = []
        for sign in (1, -1):
            fn = os.path.join(d, 'i%d.fits' % sign)
            fits.PrimaryHDU(sign * img, header=hdr).writeto(fn)
            f = sfm.SourceFinder(log=logging.getLogger('c13'))
            srcs = f.find_sources_in_image(fn, rms=0.4, bkg=0.0, cores=1, nonegative=False, doislandflux=True)
            isl = [s_ for s_ in srcs if isinstance(s_, models.IslandSource)]
            cats.append(sorted(isl, key=lambda s_: (round(s_.dec, 5), round(s_.ra, 5))))
        a, b = cats
        if len(a) != 3 or len(b) != 3:
            return True, 'island-count', 'island catalogue of image has %d rows, of -image %d (three isolated sources)' % (len(a), len(b))
        for p, q in zip(a, b):
            same = ('ra', 'dec', 'local_rms', 'pixels', 'x_width', 'y_width', 'area', 'components', 'eta')
            for k in same:
                u, v = getattr(p, k, None), getattr(q, k, None)
                if u is None and v is None:
                    continue
                if not (u == v or (isinstance(u, float) and abs(u - v) <= 1e-9 * max(1, abs(u)))):
                    return True, 'island-mirror', 'island at (%.5f, %.5f): column %s is %r in the catalogue of image and %r in that of -image' % (p.ra, p.dec, k, u, v)
            for k in ('peak_flux', 'int_flux', 'background'):
                u, v = getattr(p, k), getattr(q, k)
                if not abs(u + v) <= 1e-9 * max(1, abs(u)):
                    return True, 'island-mirror', 'island at (%.5f, %.5f): %s is %r in the catalogue of image and %r in that of -image (should be the negative)' % (p.ra, p.dec, k, u, v)
        return False, None, None
    except Exception as e:
        return True, 'raises-%s' % type(e).__name__, repr(e)[:200]
    finally:
        shutil.rmtree(d, ignore_errors=True)


def h_sortkey(keycode):
    def h(c):
        key = eval(keycode, dict(core.BUILTINS, np=loader.NPProxy(), abs=core.sym_abs))
        a = [real('a%d' % i) for i in range(2)]
        b = [real('b%d' % i) for i in range(2)]
        nan = float('nan')
        sa = real_np.array([[a[0], nan], [a[1], nan]], dtype=object)
        sb = real_np.array([[b[0], b[1]]], dtype=object)
        L = core.lift
        ka, kb = key([sa, 0, 2, 0, 2]), key([sb, 0, 1, 0, 2])
        kna, knb = key([-sa, 0, 2, 0, 2]), key([-sb, 0, 1, 0, 2])
        c.oblige('sortkey:summit order is unchanged by negating the island', z3.And(L(ka) == L(kna), L(kb) == L(knb)))
        return dict()
    return h


def selectors(rep):
    import importlib
    flags_mod = loader.real('flags')
    rep.kernel('K-selectors', functions=[F + ':SourceFinder.estimate_lmfit_parinfo'],
               bounds='3x3 island with 7 fixed pixels (sign +/-) and 2 symbolic pixels (data and curvature symbolic, any sign), symbolic outerclip>0; summit of 3 symbolic pixels + 1 blank; amplitude bounds for all real amp != 0, innerclip >= outerclip > 0, rms > 0',
               stubs=['np.where/nanmax/nanargmax/nanmin/nanargmin on object arrays -> proxies (ite, forks on blanks)'],
               assumes=['slices: statements assigning isnegative and kappa_sigma; amp/xpeak/ypeak; amp_min/amp_max (with their enclosing ifs)'],
               outside=['equality of fitted values between the two runs (optimiser)', 'summit labelling (scipy) and sorting of summits'])
    try:
        fac_sel, t1 = slicer.slice_function(F, 'estimate_lmfit_parinfo', targets=['isnegative', 'kappa_sigma'], params=['self', 'data', 'rmsimg', 'curve', 'outerclip', 'is_flag'],
                                            cls='SourceFinder', returns=['isnegative', 'kappa_sigma'])
        fac_peak, t2 = slicer.slice_function(F, 'estimate_lmfit_parinfo', targets=['amp', 'xpeak', 'ypeak'], params=['summit', 'isnegative'], cls='SourceFinder', returns=['amp', 'xpeak', 'ypeak'], flatten_loops=True)
        fac_b, t3 = slicer.slice_function(F, 'estimate_lmfit_parinfo', targets=['amp_min', 'amp_max'], params=['amp', 'innerclip', 'outerclip', 'rmsimg', 'xo', 'yo', 'pixbeam'], cls='SourceFinder', returns=['amp_min', 'amp_max'], flatten_loops=True)
    except slicer.AnchorMissing as e:
        rep.inconc('anchor-missing %s' % e)
        rep.end_kernel()
        return
    rep.sample(dict(kernel='K-selectors', slices=[t1[:600], t2[:500], t3[:500]]))
    # the key that orders the summits (component numbering): extracted from the sorted(summits, key=...) call
    fn_ = slicer.get_function(F, 'estimate_lmfit_parinfo', 'SourceFinder')
    keys = [k.value for n in _ast.walk(fn_) if isinstance(n, _ast.Call) and getattr(n.func, 'id', '') == 'sorted' and 'summits' in _ast.unparse(n.args[0]) for k in n.keywords if k.arg == 'key']
    if keys:
        kexpr = _ast.Expression(body=keys[0])
        _ast.fix_missing_locations(kexpr)
        st, res = explore(h_sortkey(compile(kexpr, '<summit sort key>', 'eval')))
        rep.stats(st)
        sdone = False
        for r in res:
            for ob in r['obligations']:
                rep.count(ob['result'], ob['name'])
                if ob['result'] == 'sat' and not sdone:
                    w = two_summit_witness(-1)
                    bad, cls, detail = replay_selector(w)
                    if not bad:
                        w = two_summit_witness(+1)
                        bad, cls, detail = replay_selector(w)
                    if rep.finding('C13/K-selectors/summit-order:%s' % cls, w, detail, reproduced=bad) != 'not-reproduced':
                        sdone = True
        rep.sample(dict(kernel='K-selectors', plan='sortkey', key=_ast.unparse(keys[0])))
    else:
        rep.inconc('anchor-missing: sorted(summits, key=...) not found in estimate_lmfit_parinfo')
    plans = [(h_selector(fac_sel, flags_mod, +1), {}), (h_selector(fac_sel, flags_mod, -1), {}), (h_peak(fac_peak), {}), (h_bounds(fac_b), {})]
    names = ['selector+', 'selector-', 'peak', 'bounds']
    try:
        fac_snr, t4 = slicer.slice_function(F, 'estimate_lmfit_parinfo', targets=['snr'], params=['data', 'rmsimg', 'summit', 'xmin', 'xmax', 'ymin', 'ymax'], cls='SourceFinder', returns=['snr'], flatten_loops=True)
        plans.append((h_snr(fac_snr), {}))
        names.append('snr')
    except slicer.AnchorMissing as e:
        rep.inconc('K-selectors: anchor-missing %s' % e)
    results = core.explore_many(plans, workers=4)
    done = set()
    for nm, (st, res) in zip(names, results):
        rep.stats(st)
        for r in res:
            for ob in r['obligations']:
                rep.count(ob['result'], ob['name'])
                if ob['result'] == 'sat' and nm.startswith('selector') and ob['name'] not in done:
                    m = ob['model']
                    sign = 1 if nm.endswith('+') else -1
                    data = [[(sign * CONST[r_][c_] if CONST[r_][c_] is not None else float(m.get('d_%d_%d' % (r_, c_), 1))) for c_ in range(3)] for r_ in range(3)]
                    curve = [[(0.0 if CONST[r_][c_] is not None else float(m.get('k_%d_%d' % (r_, c_), 0))) for c_ in range(3)] for r_ in range(3)]
                    # embed in a larger island so that the non-tiny branch is taken in the real function too
                    w = dict(kind='selector', data=data, curve=curve, outerclip=float(m.get('outerclip', 1)), innerclip=max(float(m.get('outerclip', 1)), 1.0))
                    bad, cls, detail = replay_selector(w)
                    if rep.finding('C13/K-selectors/%s' % cls, w, detail, reproduced=bad) != 'not-reproduced':
                        done.add(ob['name'])
                elif ob['result'] == 'sat' and nm in ('snr', 'bounds', 'peak') and ob['name'] not in done:
                    got = False
                    for w in (tiny_island_witness(-1), tiny_island_witness(+1), two_summit_witness(-1), two_summit_witness(+1)):
                        bad, cls, detail = replay_selector(w)
                        if bad:
                            got = True
                            break
                    if rep.finding('C13/K-selectors/%s:%s' % (nm, cls if got else ob['name'].split(':')[-1]), w if got else dict(kind=nm), detail if got else ob['name'], reproduced=got) != 'not-reproduced':
                        done.add(ob['name'])
                elif ob['result'] == 'sat' and not nm.startswith('selector'):
                    rep.finding('C13/K-selectors/%s' % ob['name'].split(':')[-1], dict(kind=nm, model={k: str(v) for k, v in ob['model'].items()}), ob['name'], reproduced=False)
        if res:
            rep.sample(dict(kernel='K-selectors', plan=nm, paths=st.paths, first=[(o['name'], o['result']) for o in res[0]['obligations']][:6]))
    rep.end_kernel()


def h_tiny(mods, shape, blank):
    """the WHOLE real estimate_lmfit_parinfo on a tiny single-sign island (the route without scipy labelling) and on its
    negation: same number of components, same positions, negated amplitudes, mirrored amplitude limits, same shape limits,
    flags and free/fixed pattern"""
    from checks import r2c
    sf = mods['source_finder']

    def h(c):
        sf.lmfit = type('LM', (), {'Parameters': r2c.Model})

        class Beam3:
            def __init__(self, a, b, pa):
                self.a, self.b, self.pa = a, b, pa
        sf.Beam = Beam3
        R, C = shape
        sgn = real('sgn')
        c.assume(z3.Or(sgn.e == 1, sgn.e == -1))
        data = real_np.empty(shape, dtype=object)
        rms = real_np.empty(shape, dtype=object)
        for i in range(R):
            for j in range(C):
                if (i, j) in blank:
                    data[i, j] = float('nan')
                else:
                    data[i, j] = real('d_%d_%d' % (i, j))
                    c.assume(data[i, j].e * sgn.e > 0)
                rms[i, j] = real('r_%d_%d' % (i, j))
                c.assume(rms[i, j].e > 0)
        curve = real_np.zeros(shape)
        ic, oc = real('innerclip'), real('outerclip')
        c.assume(z3.And(oc.e > 0, ic.e >= oc.e))
        pa_, pb_ = real('beam_a'), real('beam_b')
        c.assume(z3.And(pb_.e > 0, pa_.e >= pb_.e))
        F2C = real('FWHM2CC')
        c.assume(z3.And(F2C.e > z3.RealVal('0.42'), F2C.e < z3.RealVal('0.43')))
        sf.FWHM2CC = F2C
        sf.CC2FHWM = 1 / F2C

        class PH:
            def get_psf_pix2pix(self, y, x):
                return (pa_, pb_, real('beam_pa'))
        outs = []
        for sign in (1, -1):
            finder = sf.SourceFinder(log=loader.NullLog())
            finder.global_data.psfhelper = PH()
            d = real_np.empty(shape, dtype=object)
            for idx in real_np.ndindex(shape):
                d[idx] = data[idx] if sign == 1 or not isinstance(data[idx], SN) else -data[idx]
            p = finder.estimate_lmfit_parinfo(d, rms, curve, None, ic, outerclip=oc, offsets=(3, 4))
            outs.append(p)
        A, B = outs
        tag = 'estimate_lmfit_parinfo[%dx%d island%s]' % (R, C, ', one blank' if blank else '')
        if A is None or B is None:
            c.oblige(tag + ':an island and its negation both give a model (or neither)', z3.BoolVal(A is None and B is None))
            return dict()
        na, nb = A['components'].value, B['components'].value
        c.oblige(tag + ':same number of components for the island and its negation', z3.BoolVal(int(na) == int(nb)), info='%s vs %s' % (na, nb))
        L = core.lift
        for k in range(min(int(na), int(nb))):
            pre = 'c%d_' % k
            cl = [L(A[pre + 'xo'].value) == L(B[pre + 'xo'].value), L(A[pre + 'yo'].value) == L(B[pre + 'yo'].value), L(A[pre + 'amp'].value) + L(B[pre + 'amp'].value) == 0]
            c.oblige(tag + ':component %d at the same pixel with the negated amplitude' % k, z3.And(cl))
            c.oblige(tag + ':component %d amplitude limits mirrored' % k, z3.And(L(A[pre + 'amp'].min) + L(B[pre + 'amp'].max) == 0, L(A[pre + 'amp'].max) + L(B[pre + 'amp'].min) == 0))
            same = []
            for q in ('xo', 'yo', 'sx', 'sy'):
                same += [L(A[pre + q].min) == L(B[pre + q].min), L(A[pre + q].max) == L(B[pre + q].max)]
            same += [L(A[pre + 'sx'].value) == L(B[pre + 'sx'].value), L(A[pre + 'sy'].value) == L(B[pre + 'sy'].value)]
            c.oblige(tag + ':component %d position/shape values and limits identical' % k, z3.And(same))
            c.oblige(tag + ':component %d flags and free/fixed pattern identical' % k, z3.BoolVal(int(A[pre + 'flags'].value) == int(B[pre + 'flags'].value) and
                                                                                                   all(bool(A[pre + q].vary) == bool(B[pre + q].vary) for q in ('amp', 'xo', 'yo', 'sx', 'sy', 'theta'))))
            c.oblige(tag + ':component %d amplitude within its limits' % k, z3.And(L(A[pre + 'amp'].min) <= L(A[pre + 'amp'].value), L(A[pre + 'amp'].value) <= L(A[pre + 'amp'].max)))
        return dict(components=int(na))
    return h


def h_errsign(mods, varyname):
    """the real fitting.errors on a component and on its negation (amplitude, peak and integrated flux negated, everything
    else -- shape, position, standard errors, WCS answers -- identical): every reported uncertainty must be the same"""
    from checks import C03, r2c
    fit = mods['fitting']

    def h(c):
        S = r2c.setup(c, mods, ncomp=1)
        model, helper = S['model'], S['helper']
        for p, v in C03.VARY[varyname].items():
            model['c0_' + p].vary = bool(v)
        cnt = [0]

        def fresh(lo=None, hi=None):
            cnt[0] += 1
            v = real('g%d' % cnt[0])
            if lo is not None:
                c.assume(v.e >= lo)
            if hi is not None:
                c.assume(v.e <= hi)
            return v
        fit.gcd = lambda *a: fresh(0)
        fit.bear = lambda *a: fresh(-180, 180)
        helper.pix2sky = lambda p: [fresh(0, 360), fresh(-90, 90)]
        peak, intf = real('peak'), real('intf')
        c.assume(peak.e != 0)
        outs = []
        amp0 = model['c0_amp'].value
        for sign in (1, -1):
            class Src:
                pass
            s = Src()
            s.source, s.flags = 0, 0
            s.peak_flux, s.int_flux = sign * peak, sign * intf
            s.a, s.b, s.pa = real('A'), real('B'), real('PA')
            if sign == 1:
                c.assume(s.a.e > 0)
                c.assume(s.b.e > 0)
            model['c0_amp'].value = sign * amp0
            cnt[0] = 0
            fit.errors(s, model, helper)
            outs.append(s)
        tag = 'errors[vary=%s]' % varyname
        for nm in C03.ERRS:
            v1, v2 = getattr(outs[0], nm, None), getattr(outs[1], nm, None)
            if isinstance(v1, SN) or isinstance(v2, SN):
                c.oblige(tag + ':%s unchanged under negation' % nm, core.lift(v1) == core.lift(v2), timeout_ms=30000)
            else:
                c.oblige(tag + ':%s unchanged under negation' % nm, z3.BoolVal(v1 == v2))
        c.oblige(tag + ':flags unchanged under negation', z3.BoolVal(outs[0].flags == outs[1].flags) if not isinstance(outs[0].flags, SN) and not isinstance(outs[1].flags, SN) else core.lift(outs[0].flags) == core.lift(outs[1].flags))
        return dict()
    return h


def errsign_oracle():
    """real fitting.errors on a fitted component and on its negation"""
    from checks import C03
    import copy
    import lmfit
    from astropy.io import fits
    fit = loader.real('fitting')
    wh = loader.real('wcs_helpers')
    models = loader.real('models')
    hdr = fits.Header()
    hdr['NAXIS'] = 2
    hdr['NAXIS1'] = hdr['NAXIS2'] = 12
    hdr['CTYPE1'], hdr['CTYPE2'] = 'RA---SIN', 'DEC--SIN'
    hdr['CRVAL1'], hdr['CRVAL2'] = 10., -20.
    hdr['CRPIX1'] = hdr['CRPIX2'] = 6.
    hdr['CDELT1'], hdr['CDELT2'] = -0.01, 0.01
    hdr['BMAJ'] = hdr['BMIN'] = 0.03
    hdr['BPA'] = 0.
    helper = wh.WCSHelper.from_header(hdr)
    for free in (C03.VARY['all'], C03.VARY['stage1'], C03.VARY['stage2']):
        res = []
        for sign in (1, -1):
            m = lmfit.Parameters()
            vals = dict(amp=sign * 7.5, xo=5.3, yo=6.1, sx=1.7, sy=1.2, theta=33.0)
            errs = dict(amp=0.31, xo=0.05, yo=0.07, sx=0.06, sy=0.04, theta=2.5)
            for k, v in vals.items():
                m.add('c0_' + k, value=v, vary=bool(free[k]))
                m['c0_' + k].stderr = errs[k]
            m.add('components', value=1, vary=False)
            s = models.ComponentSource()
            s.source = 0
            s.ra, s.dec = 10.0, -20.0
            s.peak_flux, s.int_flux = sign * 7.5, sign * 9.1
            s.a, s.b, s.pa = 140.0, 100.0, 33.0
            s.local_rms = 0.3
            fit.errors(s, m, helper)
            res.append(s)
        for nm in C03.ERRS + ['flags']:
            v1, v2 = getattr(res[0], nm), getattr(res[1], nm)
            if not (v1 == v2 or abs(v1 - v2) <= 1e-9 * max(abs(v1), abs(v2))):
                return True, 'errors-sign:%s' % nm, 'fitting.errors on amp=+7.5 gives %s=%r, on amp=-7.5 gives %r (free parameters %s)' % (nm, v1, v2, [k for k in free if free[k]])
    return False, None, None


def blank_adjacent_oracle():
    """catalogue level, with blank pixels in the image: sources of both signs whose peak pixel touches a blanked strip; the
    catalogue of the negated image is the mirror of the catalogue of the image (same sources, negated fluxes)"""
    import logging
    import os
    import shutil
    import tempfile
    from astropy.io import fits
    sfm = loader.real('source_finder')
    d = tempfile.mkdtemp(prefix='c13b_', dir='/var/tmp')
    try:
        N = 72
        y, x = real_np.mgrid[0:N, 0:N].astype(float)
        g = lambda a, r0, c0: a * real_np.exp(-((y - r0) ** 2 + (x - c0) ** 2) / (2 * 1.6 ** 2))
        img = g(24, 18.2, 20.3) + g(-24, 28.8, 46.1) + g(22, 35.2, 18.7) + g(-20, 55.3, 52.4) + g(-26, 35.1, 50.2)
        img[30:34, :] = real_np.nan
        hdr = fits.Header()
        hdr['CTYPE1'], hdr['CTYPE2'] = 'RA---SIN', 'DEC--SIN'
        hdr['CRVAL1'], hdr['CRVAL2'] = 30., -40.
        hdr['CRPIX1'] = hdr['CRPIX2'] = N / 2
        hdr['CDELT1'], hdr['CDELT2'] = -1 / 120, 1 / 120
        hdr['BMAJ'] = hdr['BMIN'] = 3.77 / 120
        hdr['BPA'] = 0.0
        cats = []
        for sign in (1, -1):
            fn = os.path.join(d, 'i%d.fits' % sign)
            fits.PrimaryHDU((sign * img).astype(real_np.float64), header=hdr).writeto(fn)
            f = sfm.SourceFinder(log=logging.getLogger('c13'))
            srcs = f.find_sources_in_image(fn, rms=1.0, bkg=0.0, cores=1, innerclip=6, outerclip=4, nonegative=False)
            cats.append(sorted((round(s_.ra, 5), round(s_.dec, 5), s_.peak_flux) for s_ in srcs))
        A, B = cats
        if len(A) != len(B):
            return True, 'blank-adjacent-count', 'image with a blanked strip: %d sources, negated image: %d sources (fluxes %s vs %s)' % (len(A), len(B), [round(t[2], 1) for t in A], [round(t[2], 1) for t in B])
        for a_, b_ in zip(A, B):
            if abs(a_[0] - b_[0]) > 2e-4 or abs(a_[1] - b_[1]) > 2e-4 or abs(a_[2] + b_[2]) > 0.02 * abs(a_[2]):
                return True, 'blank-adjacent-mirror', 'source %s of the image has no mirror in the negated image (closest %s)' % (a_, b_)
        return False, None, None
    except Exception as e:
        return True, 'raises-%s' % type(e).__name__, repr(e)[:300]
    finally:
        shutil.rmtree(d, ignore_errors=True)


def run(rep):
    sf, models = I.sym_finder()
    thorough = rep.tier == 'thorough'
    rep.assume('floats as reals')
    grids = [(1, 3, 'scalar'), (2, 2, 'scalar'), (2, 3, 'scalar'), (3, 2, 'zero')] + ([(3, 3, 'zero')] if thorough else [])
    rep.kernel('K-negate-islands', functions=[F + ':find_islands'], bounds='grids %s, all pixel values/thresholds symbolic, shared symbolic scalar background and noise' % [(a, b) for a, b, _ in grids])
    results = core.explore_many([(h_negate(sf, R, C, mode), dict(wall_s=900)) for R, C, mode in grids], workers=16)
    for (R, C, mode), (st, res) in zip(grids, results):
        rep.stats(st)
        for r in res:
            for ob in r['obligations']:
                rep.count(ob['result'], ob['name'])
                if ob['result'] == 'sat':
                    w = C02.witness(ob['model'], R, C, set(), mode)
                    w['kind'] = 'negate'
                    bad, cls, detail = replay_negate(w)
                    rep.finding('C13/K-negate-islands/%s' % cls, w, detail, reproduced=bad)
        rep.sample(dict(kernel='K-negate-islands', grid='%dx%d' % (R, C), paths=st.paths))
    rep.end_kernel()
    polarity(rep)
    selectors(rep)
    for w_ in (two_summit_witness(-1), two_summit_witness(+1), tiny_island_witness(-1), tiny_island_witness(+1)):
        bad, cls, detail = replay_selector(w_)
        rep.validated_runs(1)
        if bad:
            rep.finding('C13/K-selectors/summit-order:%s' % cls, w_, detail, kernel='K-selectors')
    bad, cls, detail = blank_adjacent_oracle()
    rep.validated_runs(2)
    if bad:
        rep.finding('C13/K-negate-islands/%s' % cls, dict(kind='blank-adjacent'), detail, kernel='K-negate-islands')
    bad, cls, detail = polarity_oracle()
    rep.validated_runs(3)
    if bad:
        rep.finding('C13/K-polarity-filter/%s' % cls, dict(kind='polarity-catalogue'), detail, kernel='K-polarity-filter')
    bad, cls, detail = island_mirror_oracle()
    rep.validated_runs(2)
    if bad:
        rep.finding('C13/K-negate-islands/%s' % cls, dict(kind='island-catalogue'), detail, kernel='K-negate-islands')
    from checks import C03, r2c
    mods = r2c.sym_sf()
    rep.kernel('K-tiny', functions=[F + ':SourceFinder.estimate_lmfit_parinfo'], bounds='the WHOLE function on single-sign islands 1x3, 2x2, 2x3 (one blank) with every pixel, noise, clip level and the pixel beam symbolic; the island and its negation in one path',
               stubs=['lmfit.Parameters -> record class', 'psf helper -> symbolic pixel beam', 'np.nanmax/nanmin/nanarg* on object arrays -> proxies (forks)'],
               outside=['islands large enough for the curvature/labelling route (scipy): K-selectors slices', 'mixed-sign islands (open finding)'])
    tdone = False
    for st, res in core.explore_many([(h_tiny(mods, sh, bl), dict(wall_s=300)) for sh, bl in (((1, 3), ()), ((2, 2), ()), ((2, 3), ((0, 0),)))], workers=8):
        rep.stats(st)
        for r in res:
            for ob in r['obligations']:
                rep.count(ob['result'], ob['name'])
                if ob['result'] == 'sat' and not tdone:
                    got = False
                    for w in (tiny_island_witness(-1), tiny_island_witness(+1)):
                        bad, cls, detail = replay_selector(w)
                        if bad:
                            got = True
                            break
                    if rep.finding('C13/K-tiny/%s' % (cls if got else ob['name'].split(':')[-1]), w if got else dict(kind='tiny'), detail if got else ob['name'], reproduced=got) != 'not-reproduced':
                        tdone = True
        if res:
            rep.sample(dict(kernel='K-tiny', paths=len(res), obligations=[(o['name'].split(':')[-1], o['result']) for o in res[0]['obligations']][:8]))
    rep.end_kernel()
    rep.kernel('K-errors-sign', functions=['AegeanTools/fitting.py:errors'], bounds='one component, free-parameter patterns all / stage 1 / stage 2, all parameters, standard errors, fluxes of either sign symbolic',
               stubs=['pix2sky / gcd / bear -> the same arbitrary answers in both runs (position and shape do not change under negation)'],
               outside=['the standard errors themselves being equal for the two fits (optimiser)'])
    edone = False
    for st, res in core.explore_many([(h_errsign(mods, vn), dict(wall_s=600)) for vn in C03.VARY], workers=16):
        rep.stats(st)
        for r in res:
            for ob in r['obligations']:
                rep.count(ob['result'], ob['name'])
                if ob['result'] == 'sat' and not edone:
                    bad, cls, detail = errsign_oracle()
                    if rep.finding('C13/K-errors-sign/%s' % (cls or ob['name'].split(':')[-1]), dict(kind='errors-sign'), detail or ob['name'], reproduced=bad) != 'not-reproduced':
                        edone = True
        if res:
            rep.sample(dict(kernel='K-errors-sign', paths=len(res), obligations=[(o['name'], o['result']) for o in res[0]['obligations']]))
    rep.end_kernel()
    bad, cls, detail = errsign_oracle()
    rep.validated_runs(3)
    if bad:
        rep.finding('C13/K-errors-sign/%s' % cls, dict(kind='errors-sign'), detail, kernel='K-errors-sign')
    rep.not_decided += ['equality of the fitted catalogues of an image and its negation (needs the optimiser)', 'errors unchanged under negation: decided for fitting.errors given equal standard errors; the optimiser is outside']


def replay(w):
    wit = w['witness']
    if wit.get('kind') == 'negate':
        bad, cls, detail = replay_negate(wit)
    elif wit.get('kind') == 'selector':
        bad, cls, detail = replay_selector(wit)
    elif wit.get('kind') == 'polarity-catalogue':
        bad, cls, detail = polarity_oracle()
    elif wit.get('kind') == 'blank-adjacent':
        bad, cls, detail = blank_adjacent_oracle()
    elif wit.get('kind') == 'island-catalogue':
        bad, cls, detail = island_mirror_oracle()
    elif wit.get('kind') == 'errors-sign':
        bad, cls, detail = errsign_oracle()
    else:
        return False, 'no concrete replay for this kernel'
    return bad, '%s: %s' % (cls, detail)


if __name__ == '__main__':
    main(sys.modules[__name__])
