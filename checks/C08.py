"""C08 Region operations are set algebra on sky pixels, for every history.
History quantifier -> one inductive step from an ARBITRARY region state: the real Region methods are executed on
guarded finite sets (symx.symset) whose membership bits are solver variables; z3 decides, per path, that the
deepest-level abstraction after the operation is the set-algebra result, ids stay valid, caches stay coherent."""
import itertools
import os
import pickle
import random
import sys
import tempfile

import z3

from symx import core, loader, symset
from symx.core import explore, SB
from symx.symset import SymSet, G, TRUE, FALSE
from symx.report import main

PID = 'C08'
F = 'AegeanTools/regions.py'


class HPStub:
    """healpy stand-in for the symbolic runs: only the area (real library call on concrete nside) is needed"""
    def __init__(self):
        import healpy
        self.hp = healpy

    def nside2pixarea(self, nside, degrees=False):
        return self.hp.nside2pixarea(nside, degrees=degrees)

    def __getattr__(self, n):
        return getattr(self.hp, n)


def sym_regions():
    reg = loader.load_file(F, 'symrepo_regions_c08')
    loader.patch(reg, np=False, builtins=False)
    for k, v in symset.BUILTINS.items():
        setattr(reg, k, v)
    reg.hp = HPStub()
    return reg


def universe(depth, root_level=1):
    """ids of the subtree below pixel 0 of level root_level (0 = a whole base pixel), per level"""
    return {d: list(range(4 ** max(0, d - root_level))) if d >= root_level else [0] for d in range(1, depth + 1)}


def mk(reg, name, depth, uni, cached=False):
    r = reg.Region(maxdepth=depth)         # the real constructor decides which levels exist
    for d in list(r.pixeldict):
        if not isinstance(r.pixeldict[d], SymSet):
            r.pixeldict[d] = SymSet()
    if cached:
        # state after a query: everything demoted, cache aliases the deepest set
        r.pixeldict[depth] = SymSet.fresh(uni[depth], '%s%d' % (name, depth))
        r.demoted = r.pixeldict[depth]
    else:
        for d in range(1, depth + 1):
            r.pixeldict[d] = SymSet.fresh(uni[d], '%s%d' % (name, d))
        r.demoted = SymSet()
    return r


_STUB_MIM = None


def load_through(reg, r):
    """the real Region.load on an unpickler that hands back `r` (a pickle keeps the aliasing between the cache and the deepest
    set, so `r` in its cached state is what a file written after a query unpickles to)"""
    global _STUB_MIM
    import io
    if _STUB_MIM is None:
        import tempfile
        fd, _STUB_MIM = tempfile.mkstemp(prefix='c08_', suffix='.mim', dir='/var/tmp')
        os.close(fd)
        import atexit
        atexit.register(lambda: os.path.exists(_STUB_MIM) and os.remove(_STUB_MIM))

    class P:
        @staticmethod
        def load(f, *a, **k):
            return r
    old_p = reg.cPickle
    reg.cPickle = P
    reg.open = lambda *a, **k: io.BytesIO(b'')
    try:
        return reg.Region.load(_STUB_MIM)
    finally:
        reg.cPickle = old_p
        del reg.open


def alpha(r, uni, depth=None):
    """deepest-level abstraction: {leaf id: z3 Bool} over the universe at r.maxdepth (or given depth)"""
    D = depth or r.maxdepth
    leaves = {}
    top = max(uni[D]) + 1
    for u in range(top):
        leaves[u] = FALSE
    for d in sorted(r.pixeldict):
        S = r.pixeldict.get(d)
        if S is None or d > D or not isinstance(S, SymSet):
            continue
        f = 4 ** (D - d)
        for u, b in S.bits.items():
            for k in range(f):
                leaf = u * f + k
                if leaf in leaves:
                    leaves[leaf] = z3.Or(leaves[leaf], b)
    return leaves


def invalid_ids(r, uni):
    """guards under which some stored id is not a valid integer for its level (within the universe's subtree)"""
    out = []
    for d, S in r.pixeldict.items():
        if not isinstance(S, SymSet):
            continue
        out += list(S.frac.values())
        lim = 12 * 4 ** d
        for u, b in S.bits.items():
            if u < 0 or u >= lim:
                out.append(b)
    return out


def nodup(r):
    """no pixel present together with one of its ancestors"""
    cs = []
    D = r.maxdepth
    for d in range(2, D + 1):
        for u, b in r.pixeldict[d].bits.items():
            for a in range(1, d):
                anc = r.pixeldict[a].bits.get(u // 4 ** (d - a))
                if anc is not None:
                    cs.append(z3.Not(z3.And(b, anc)))
    return z3.And(cs) if cs else TRUE


def cache_coherent(r, al):
    """the cache is empty, or it is exactly alpha (then a later query is answered from it correctly)"""
    dm = r.demoted
    if not isinstance(dm, SymSet):
        return TRUE if len(dm) == 0 else FALSE
    empty = z3.Not(z3.Or([FALSE] + list(dm.bits.values()) + list(dm.frac.values())))
    same = z3.And([dm.bits.get(u, FALSE) == b for u, b in al.items()] + [z3.Not(b) for u, b in dm.bits.items() if u not in al])
    return z3.Or(empty, same)


def setop(op, a, b):
    return {'union': z3.Or(a, b), 'without': z3.And(a, z3.Not(b)), 'intersect': z3.And(a, b), 'symmetric_difference': z3.Xor(a, b)}[op]


def lift_alpha(al, from_depth, to_depth, uni_to):
    """express an abstraction given at from_depth on the leaves of to_depth"""
    out = {}
    top = max(uni_to[to_depth]) + 1
    if from_depth <= to_depth:
        f = 4 ** (to_depth - from_depth)
        for u in range(top):
            out[u] = al.get(u // f, FALSE)
    else:
        f = 4 ** (from_depth - to_depth)
        for u in range(top):
            out[u] = z3.Or([al.get(u * f + k, FALSE) for k in range(f)])
    return out


# ------------------------------------------------------------------------------------------------
# harnesses (one inductive step each)
# ------------------------------------------------------------------------------------------------
def h_binop(reg, op, D, uni, cachedA, cachedB, odepth=None, renorm=True, loadedA=False):
    odepth = odepth or D

    def h(c):
        a = mk(reg, 'a', D, uni, cachedA)
        if loadedA:
            a = load_through(reg, a)
        uni_o = universe(odepth) if odepth != D else uni
        b = mk(reg, 'b', odepth, uni_o, cachedB)
        ea = alpha(a, uni)
        eb = alpha(b, uni_o)
        eb_on_a = lift_alpha(eb, odepth, D, uni)
        if op == 'union':
            a.union(b, renorm=renorm)
        else:
            getattr(a, op)(b)
        na = alpha(a, uni)
        nb = alpha(b, uni_o)
        want = {u: setop(op, ea[u], eb_on_a[u]) for u in ea}
        tag = '%s[D=%d,other=%d,cacheA=%d,cacheB=%d%s%s]' % (op, D, odepth, cachedA, cachedB, '' if renorm else ',renorm=False', ',a loaded from a file' if loadedA else '')
        c.oblige(tag + ':alpha == set algebra', z3.And([na[u] == want[u] for u in ea]))
        c.oblige(tag + ':ids valid integers', z3.Not(z3.Or([FALSE] + invalid_ids(a, uni))))
        c.oblige(tag + ':operand unchanged', z3.And([nb[u] == eb[u] for u in eb]))
        if renorm:
            c.oblige(tag + ':no patch twice', nodup(a))
        c.oblige(tag + ':cache coherent', cache_coherent(a, na))
        # a query afterwards answers alpha
        dm = a.get_demoted()
        c.oblige(tag + ':get_demoted == alpha', z3.And([dm.bits.get(u, FALSE) == want[u] for u in ea] + [z3.Not(bb) for u, bb in dm.bits.items() if u not in ea]))
        return tag
    return h


def h_query(reg, D, uni, cached):
    def h(c):
        a = mk(reg, 'a', D, uni, cached)
        ea = alpha(a, uni)
        tag = 'query[D=%d,cache=%d]' % (D, cached)
        pre_nodup = nodup(a)
        iarea = z3.Sum([z3.IntVal(0)] + [z3.If(b, 4 ** (D - d), 0) for d in range(1, D + 1) for u, b in a.pixeldict[d].bits.items()])
        area = a.get_area(degrees=False)
        na = alpha(a, uni)
        c.oblige(tag + ':get_area leaves alpha', z3.And([na[u] == ea[u] for u in ea]))
        import healpy
        A = healpy.nside2pixarea(2 ** D)
        cnt = z3.Sum([z3.If(ea[u], 1, 0) for u in ea])
        # area == |alpha| * pixarea, split so that each half is easy for the solver:
        c.oblige(tag + ':area == weighted pixel count * pixarea', core.lift(area) == z3.ToReal(iarea) * core.const(A))
        c.oblige(tag + ':weighted pixel count == |alpha| (no patch twice)', iarea == cnt, assume=[pre_nodup])
        dm = a.get_demoted()
        c.oblige(tag + ':get_demoted == alpha', z3.And([dm.bits.get(u, FALSE) == ea[u] for u in ea] + [z3.Not(bb) for u, bb in dm.bits.items() if u not in ea]))
        na = alpha(a, uni)
        c.oblige(tag + ':get_demoted leaves alpha', z3.And([na[u] == ea[u] for u in ea]))
        dm2 = a.get_demoted()
        c.oblige(tag + ':second query same', z3.And([dm2.bits.get(u, FALSE) == ea[u] for u in ea]))
        area2 = a.get_area(degrees=False)
        c.oblige(tag + ':area after query same', core.lift(area2) == z3.ToReal(cnt) * core.const(A))
        c.oblige(tag + ':ids valid integers', z3.Not(z3.Or([FALSE] + invalid_ids(a, uni))))
        return tag
    return h


def h_addpix(reg, D, uni, cached, depth):
    def h(c):
        a = mk(reg, 'a', D, uni, cached)
        ea = alpha(a, uni)
        pix = SymSet.fresh(uni[depth], 'p%d' % depth)
        tag = 'add_pixels[D=%d,depth=%d,cache=%d]' % (D, depth, cached)
        a.add_pixels(pix, depth)
        f = 4 ** (D - depth)
        want = {u: z3.Or(ea[u], pix.bits.get(u // f, FALSE)) for u in ea}
        dm = a.get_demoted()
        c.oblige(tag + ':query after add sees new pixels', z3.And([dm.bits.get(u, FALSE) == want[u] for u in ea]))
        a._renorm()
        na = alpha(a, uni)
        c.oblige(tag + ':alpha == union after renorm', z3.And([na[u] == want[u] for u in ea]))
        c.oblige(tag + ':no patch twice', nodup(a))
        c.oblige(tag + ':ids valid integers', z3.Not(z3.Or([FALSE] + invalid_ids(a, uni))))
        return tag
    return h


def _within_np():
    import numpy as real_np

    class NP(loader.NPProxy):
        def isin(self, pix, lst):
            out = real_np.empty(len(pix), dtype=object)
            for i, p in enumerate(pix):
                out[i] = SB(z3.Or([FALSE] + [g.g for g in lst if isinstance(g, G) and g.v == int(p)] + [TRUE for g in lst if not isinstance(g, G) and g == int(p)]))
            return out
        in1d = isin

        def zeros(self, shape, dtype=None, **kw):
            if dtype is bool:
                out = real_np.empty(shape, dtype=object)
                out[...] = False
                return out
            return real_np.zeros(shape, dtype=dtype, **kw) if dtype is not None else real_np.zeros(shape, **kw)
    return NP()


def centres(D, pts):
    import healpy
    import numpy as real_np
    th, ph = healpy.pix2ang(2 ** D, real_np.array(pts), nest=True)
    return ph, real_np.pi / 2 - th


def h_binop_queried(reg, op, D, uni):
    """history prefix 'a membership query was answered': the REAL sky_within runs before the operation (whatever it
    caches), then the operation, then the real sky_within again: the answers must be those of the new set"""
    def h(c):
        reg.np = _within_np()
        a = mk(reg, 'a', D, uni, False)
        b = mk(reg, 'b', D, uni, False)
        ea, eb = alpha(a, uni), alpha(b, uni)
        pts = sorted(ea)[:4 ** (D - 1)][:8]
        ra, dec = centres(D, pts)
        a.sky_within(ra, dec, degin=False)
        if op == 'add_pixels':
            a.add_pixels(b.pixeldict[D], D)
            want = {u: z3.Or(ea[u], b.pixeldict[D].bits.get(u, FALSE)) for u in ea}
        else:
            getattr(a, op)(b)
            want = {u: setop(op, ea[u], eb[u]) for u in ea}
        res = a.sky_within(ra, dec, degin=False)
        tag = 'sky_within, %s, sky_within[D=%d]' % (op, D)
        c.oblige(tag + ':membership answers the new set', z3.And([core.lb(res[i]) == want[p] for i, p in enumerate(pts)]))
        return tag
    return h


def h_within(reg, D, uni, cached, pts):
    import numpy as real_np

    def h(c):
        reg.np = _within_np()
        a = mk(reg, 'a', D, uni, cached)
        ea = alpha(a, uni)
        import healpy
        th, ph = healpy.pix2ang(2 ** D, real_np.array(pts), nest=True)
        ra, dec = ph, real_np.pi / 2 - th
        res = a.sky_within(ra, dec, degin=False)
        tag = 'sky_within[D=%d,cache=%d]' % (D, cached)
        c.oblige(tag + ':membership == alpha(pixel of point)', z3.And([core.lb(res[i]) == ea[p] for i, p in enumerate(pts)]))
        res2 = a.sky_within(real_np.degrees(ra), real_np.degrees(dec), degin=True)
        c.oblige(tag + ':degrees input same answer', z3.And([core.lb(res2[i]) == ea[p] for i, p in enumerate(pts)]))
        bad = a.sky_within(real_np.array([real_np.nan, 0.1]), real_np.array([0.1, real_np.inf]), degin=False)
        c.oblige(tag + ':non-finite never inside', z3.And([z3.Not(core.lb(x)) for x in bad]))
        na = alpha(a, uni)
        c.oblige(tag + ':query leaves alpha', z3.And([na[u] == ea[u] for u in ea]))
        return tag
    return h


def h_nonfinite(reg, cached):
    """whole-sky universe at depth 1 (all 48 pixels symbolic): wherever a non-finite position may be mapped to, the answer must be False"""
    import numpy as real_np

    def h(c):
        class NP(loader.NPProxy):
            def isin(self, pix, lst):
                out = real_np.empty(len(pix), dtype=object)
                for i, p in enumerate(pix):
                    out[i] = SB(z3.Or([FALSE] + [g.g for g in lst if isinstance(g, G) and g.v == int(p)] + [TRUE for g in lst if not isinstance(g, G) and g == int(p)]))
                return out
            in1d = isin

            def zeros(self, shape, dtype=None, **kw):
                if dtype is bool:
                    out = real_np.empty(shape, dtype=object)
                    out[...] = False
                    return out
                return real_np.zeros(shape, dtype=dtype, **kw) if dtype is not None else real_np.zeros(shape, **kw)
        reg.np = NP()
        uni = {1: list(range(48))}
        a = mk(reg, 'a', 1, uni, cached)
        nan, inf = real_np.nan, real_np.inf
        ra = real_np.array([nan, 0.1, nan, inf, 1.0, 4.0])
        dec = real_np.array([0.1, inf, nan, 0.3, nan, -inf])
        res = a.sky_within(ra, dec, degin=False)
        res2 = a.sky_within(real_np.degrees(ra), real_np.degrees(dec), degin=True)
        tag = 'sky_within non-finite[all-sky depth 1,cache=%d]' % cached
        c.oblige(tag + ':never inside, whatever the region', z3.And([z3.Not(core.lb(x)) for x in list(res) + list(res2)]))
        # one call that mixes undefined positions with real ones: the real ones are answered as if asked alone
        ea = alpha(a, uni)
        pts = [0, 17, 40]
        pr, pd = centres(1, pts)
        mra = real_np.array([nan, pr[0], pr[1], inf, pr[2]])
        mdec = real_np.array([0.2, pd[0], pd[1], 0.1, pd[2]])
        mres = a.sky_within(mra, mdec, degin=False)
        c.oblige(tag + ':finite positions in a call that also holds non-finite ones are answered normally',
                 z3.And([core.lb(mres[1]) == ea[0], core.lb(mres[2]) == ea[17], core.lb(mres[4]) == ea[40], z3.Not(core.lb(mres[0])), z3.Not(core.lb(mres[3]))]))
        return tag
    return h


# ------------------------------------------------------------------------------------------------
# replay on the real Region through the public API, oracle = python set algebra
# ------------------------------------------------------------------------------------------------
def build_real(regions, depth, levels, cached):
    r = regions.Region(maxdepth=depth)
    for d, ids in levels.items():
        if ids:
            r.add_pixels(list(ids), int(d))
    if cached:
        r.get_demoted()
    return r


def leaves_of(levels, depth):
    out = set()
    for d, ids in levels.items():
        f = 4 ** (depth - int(d))
        for u in ids:
            if f >= 1:
                out.update(range(u * f, (u + 1) * f))
    return out


def model_levels(model, name, depth, cached):
    lv = {}
    for d in range(1, depth + 1):
        if cached and d < depth:
            continue
        ids = sorted(int(k.split('_')[1]) for k, v in model.items() if k.startswith('%s%d_' % (name, d)) and v is True)
        lv[d] = ids
    return lv


def real_state_ok(r, depth):
    """ids integral valued and in range; returns (ok, why)"""
    for d, S in r.pixeldict.items():
        for p in S:
            if p != int(p) or not (0 <= p < 12 * 4 ** d):
                return False, 'pixel id %r at level %d' % (p, d)
    return True, ''


def real_alpha(r):
    out = set()
    D = r.maxdepth
    for d, S in r.pixeldict.items():
        f = 4 ** (D - d)
        for p in S:
            if p == int(p):
                out.update(range(int(p) * f, (int(p) + 1) * f))
            else:
                out.add(('frac', d, p))
    return out


def replay_case(w):
    """w: dict(op, D, odepth, cachedA, cachedB, renorm, a_levels, b_levels, [pix_depth, pix]) -> (bad, cls, detail)"""
    regions = loader.real('regions')
    op, D = w['op'], int(w['D'])
    a_lv = {int(k): v for k, v in w['a_levels'].items()}
    try:
        a = build_real(regions, D, a_lv, w.get('cachedA'))
        if w.get('loadedA'):
            import tempfile
            fd, fn_ = tempfile.mkstemp(prefix='c08r_', suffix='.mim', dir='/var/tmp')
            os.close(fd)
            try:
                a.save(fn_)
                a = regions.Region.load(fn_)
            finally:
                os.remove(fn_)
        ea = leaves_of(a_lv, D)
        if op in ('union', 'without', 'intersect', 'symmetric_difference'):
            od = int(w.get('odepth') or D)
            b_lv = {int(k): v for k, v in w['b_levels'].items()}
            b = build_real(regions, od, b_lv, w.get('cachedB'))
            eb = leaves_of(b_lv, od)
            if od > D:
                eb_a = set(u // 4 ** (od - D) for u in eb)
            else:
                f = 4 ** (D - od)
                eb_a = set(u * f + k for u in eb for k in range(f))
            if w.get('prequery'):
                import healpy
                import numpy
                pts_ = list(range(4 ** D))
                th_, ph_ = healpy.pix2ang(2 ** D, numpy.array(pts_), nest=True)
                a.sky_within(ph_, numpy.pi / 2 - th_, degin=False)
            if op == 'union':
                a.union(b, renorm=w.get('renorm', True))
            else:
                getattr(a, op)(b)
            want = {'union': ea | eb_a, 'without': ea - eb_a, 'intersect': ea & eb_a, 'symmetric_difference': ea ^ eb_a}[op]
            if w.get('prequery'):
                got_ = a.sky_within(ph_, numpy.pi / 2 - th_, degin=False)
                wrong = [p_ for p_, g_ in zip(pts_, got_) if bool(g_) != (p_ in want)]
                if wrong:
                    return True, 'stale-membership', 'sky_within, %s, sky_within: %d of %d pixel centres answered from the old set (a %s, b %s)' % (op, len(wrong), len(pts_), a_lv, b_lv)
            if real_alpha(b) != eb:
                return True, 'operand-changed', '%s changed its operand' % op
        elif op == 'add_pixels':
            pd = int(w['pix_depth'])
            a.add_pixels(list(w['pix']), pd)
            f = 4 ** (D - pd)
            want = ea | set(u * f + k for u in w['pix'] for k in range(f))
            got = set(a.get_demoted())
            if got != want:
                return True, 'stale-cache', 'get_demoted after add_pixels: got %d pixels, expected %d' % (len(got), len(want))
            a._renorm()
        elif op == 'within':
            import healpy
            import numpy
            want = ea
            top = (4 ** D if any(u >= 4 ** (int(d_) - 1) for d_, ids_ in a_lv.items() for u in ids_) else 4 ** (D - 1)) if not w.get('allsky') else 12 * 4 ** D
            pts = list(range(top))
            th, ph = healpy.pix2ang(2 ** D, numpy.array(pts), nest=True)
            got = a.sky_within(ph, numpy.pi / 2 - th, degin=False)
            got2 = a.sky_within(numpy.degrees(ph), numpy.degrees(numpy.pi / 2 - th), degin=True)
            for p, g, g2 in zip(pts, got, got2):
                if bool(g) != (p in ea) or bool(g2) != (p in ea):
                    return True, 'membership', 'sky_within(centre of depth-%d pixel %d) = %s/%s but the pixel is %sin the region (levels %s, after query=%s)' % (D, p, bool(g), bool(g2), '' if p in ea else 'not ', a_lv, bool(w.get('cachedA')))
            bad_ = a.sky_within(numpy.array([numpy.nan, 0.1, numpy.nan, numpy.inf]), numpy.array([0.1, numpy.inf, numpy.nan, 0.3]), degin=False)
            if any(bool(x) for x in bad_):
                return True, 'non-finite-inside', 'sky_within answers True for a non-finite position (levels %s)' % a_lv
            if len(pts) >= 2:
                mixr = numpy.concatenate([[numpy.nan], ph[:6], [numpy.inf]])
                mixd = numpy.concatenate([[0.1], (numpy.pi / 2 - th)[:6], [0.2]])
                gm = a.sky_within(mixr, mixd, degin=False)
                for p, g in zip(pts[:6], gm[1:-1]):
                    if bool(g) != (p in ea):
                        return True, 'membership-mixed', 'sky_within on a vector holding NaN/inf and the centre of depth-%d pixel %d answers %s for that pixel, which is %sin the region (levels %s)' % (D, p, bool(g), '' if p in ea else 'not ', a_lv)
        elif op == 'query':
            want = ea
            area = a.get_area(degrees=False)
            import healpy
            if w.get('nodup', True) and abs(area - len(ea) * healpy.nside2pixarea(2 ** D)) > 1e-12:
                return True, 'area', 'area %r for %d deepest pixels' % (area, len(ea))
        else:
            return False, None, 'unknown op'
        ok, why = real_state_ok(a, D)
        if not ok:
            return True, 'invalid-id', '%s: %s' % (op, why)
        if real_alpha(a) != want:
            return True, 'alpha', '%s: deepest-level set differs from set algebra (%d vs %d pixels)' % (op, len(real_alpha(a)), len(want))
        got = set(a.get_demoted())
        if got != want:
            return True, 'stale-cache', '%s then get_demoted: got %d pixels, expected %d' % (op, len(got), len(want))
        if len(want) and abs(a.get_area(degrees=False) / len(want) - __import__('healpy').nside2pixarea(2 ** D)) > 1e-15 and w.get('renorm', True):
            return True, 'area', 'area after %s' % op
        return False, None, 'matches python set algebra'
    except AssertionError:
        raise
    except Exception as e:
        return True, 'raises-%s' % type(e).__name__, '%s raised %r' % (op, e)


def handle_models(rep, res, meta):
    for r in res:
        for ob in r['obligations']:
            rep.count(ob['result'], ob['name'])
            if ob['result'] == 'sat':
                m = ob['model']
                w = dict(meta)
                w['a_levels'] = model_levels(m, 'a', meta['D'], meta.get('cachedA'))
                if 'odepth' in meta:
                    w['b_levels'] = model_levels(m, 'b', meta['odepth'], meta.get('cachedB'))
                if meta['op'] == 'add_pixels':
                    w['pix'] = sorted(int(k.split('_')[1]) for k, v in m.items() if k.startswith('p%d_' % meta['pix_depth']) and v is True)
                if meta['op'] == 'query':
                    w['nodup'] = 'area' in ob['name']
                if meta.get('allsky'):
                    w['allsky'] = True
                w['obligation'] = ob['name']
                try:
                    bad, cls, detail = replay_case(w)
                except Exception as e:
                    bad, cls, detail = False, None, 'replay error %r' % e
                variant = meta['op'] + (':finer-operand' if meta.get('odepth', meta['D']) > meta['D'] else (':coarser-operand' if meta.get('odepth', meta['D']) < meta['D'] else ''))
                if meta.get('renorm') is False:
                    variant += ':renorm=False'
                rep.finding('C08/K-step/%s/%s' % (variant, cls or ob['name'].split(':')[-1]), w, detail, reproduced=bad)
        if r['status'] != 'ok':
            continue
    if res:
        r = res[0]
        rep.sample(dict(case=r['out'], paths=len(res), obligations=[(o['name'], o['result']) for o in r['obligations']][:8]))


def maxdepth1(rep):
    """depth-1 regions are legal (C12 quantifies over depths 1..12): concrete run of the symbolic copy + real"""
    regions = loader.real('regions')
    w = dict(op='query', D=1, a_levels={1: [0, 5]}, cachedA=False)
    bad, cls, detail = replay_case(w)
    rep.validated_runs(1)
    if bad:
        rep.finding('C08/K-step/query:maxdepth=1/%s' % cls, w, 'Region(maxdepth=1) with pixels {0,5}: ' + detail)


def run(rep):
    reg = sym_regions()
    thorough = rep.tier == 'thorough'
    rep.assume('symmetry: pixel ids are used only through 4p+k, p/4, p%4, so all base-pixel subtrees behave alike; universe = subtree of base pixel 0',
               'pre-state = ARBITRARY pixel dictionary over the universe (also with ancestor/descendant duplicates, reachable through add_pixels), '
               'cache either empty or in the state a query leaves behind; a pre-state is rebuilt through the public API before a model is reported')
    workers = 16
    depths = [1, 2, 3]
    K = rep.kernel('K-step', functions=[F + ':Region.union', F + ':Region.without', F + ':Region.intersect', F + ':Region.symmetric_difference',
                                        F + ':Region.add_pixels', F + ':Region._renorm', F + ':Region._demote_all', F + ':Region.get_demoted', F + ':Region.get_area', F + ':Region.sky_within'],
                   bounds='maxdepth D in {1,2,3}%s; universe: all 1+4+16(+64) pixels below level-1 pixel 0; operand depth D-1, D, D+1, D+2 (finer operands in normal form and demoted); every membership bit symbolic (all 2^21 x 2^21 region pairs at D=3)' % (' and 4 (level-2 subtree)' if thorough else ''),
                   stubs=['set/len/int/sorted -> guarded finite sets (symx.symset)', 'healpy.nside2pixarea: real library on concrete nside', 'np.isin -> per-element guard disjunction', 'healpy.ang2pix: real library on concrete points'],
                   outside=['the pickle library itself (Region.load is executed on an unpickler stub returning the symbolic region, aliasing kept)', 'depth > 4', 'circle/polygon construction (C09)'])
    cases = []
    for D in depths:
        uni = universe(D)
        for op in ('union', 'without', 'intersect', 'symmetric_difference'):
            for cA in (False, True):
                for cB in (False, True):
                    cases.append((h_binop(reg, op, D, uni, cA, cB), dict(op=op, D=D, odepth=D, cachedA=cA, cachedB=cB, renorm=True)))
        for cA in (False, True):
            cases.append((h_binop(reg, 'union', D, uni, cA, False, renorm=False), dict(op='union', D=D, odepth=D, cachedA=cA, cachedB=False, renorm=False)))
            for od in (D - 1, D + 1, D + 2):
                if od >= 1 and (od <= 4 or thorough):
                    cases.append((h_binop(reg, 'union', D, uni, cA, False, odepth=od), dict(op='union', D=D, odepth=od, cachedA=cA, cachedB=False, renorm=True)))
            cases.append((h_query(reg, D, uni, cA), dict(op='query', D=D, cachedA=cA)))
            for dep in range(1, D + 1):
                cases.append((h_addpix(reg, D, uni, cA, dep), dict(op='add_pixels', D=D, cachedA=cA, pix_depth=dep)))
            pts = random.Random(rep.seed).sample(range(4 ** (D - 1)), min(4, 4 ** (D - 1)))
            cases.append((h_within(reg, D, uni, cA, pts), dict(op='within', D=D, cachedA=cA)))
    for D in depths:
        for op in ('union', 'without', 'intersect', 'symmetric_difference'):
            cases.append((h_binop_queried(reg, op, D, universe(D)), dict(op=op, D=D, odepth=D, cachedA=False, cachedB=False, renorm=True, prequery=True)))
    # the left operand comes out of the real Region.load (file written before / after a query)
    for D in depths:
        for op in ('union', 'without', 'intersect', 'symmetric_difference'):
            for cA in (False, True):
                cases.append((h_binop(reg, op, D, universe(D), cA, False, loadedA=True), dict(op=op, D=D, odepth=D, cachedA=cA, cachedB=False, renorm=True, loadedA=True)))
    for cA in (False, True):
        cases.append((h_nonfinite(reg, cA), dict(op='within', D=1, cachedA=cA, allsky=True)))
    # whole base pixel 0 (its four level-1 children and their descendants): complete sibling groups at level 1
    for D in (1, 2):
        uni0 = universe(D, 0)
        for op in ('union', 'without'):
            cases.append((h_binop(reg, op, D, uni0, False, False), dict(op=op, D=D, odepth=D, cachedA=False, cachedB=False, renorm=True)))
        for dep in range(1, D + 1):
            cases.append((h_addpix(reg, D, uni0, False, dep), dict(op='add_pixels', D=D, cachedA=False, pix_depth=dep)))
        cases.append((h_query(reg, D, uni0, False), dict(op='query', D=D, cachedA=False)))
    budget = 60 if not thorough else 600
    for h, meta in cases:
        st, res = explore(h, workers=workers, wall_s=budget)
        rep.stats(st)
        handle_models(rep, res, meta)
    maxdepth1(rep)
    rep.end_kernel()
    rep.kernel('K-combine', functions=['AegeanTools/MIMAS.py:combine_regions', F + ':Region.add_circles', F + ':Region.add_poly', F + ':Region.without'],
               bounds='depth 1-2 universes (thorough: one specification at depth 3, where renormalisation forks); up to two circles / polygons of each kind; every HEALPix query result an arbitrary symbolic pixel set',
               stubs=['healpy.query_disc / query_polygon -> fresh symbolic pixel sets (their geometry is C09)'])
    reg2, mim2 = sym_mimas()
    specs = [('+c', '-c', '+p', '-p'), ('+c', '-c', '-c', '+p', '-p', '-p'), ('+c', '+c', '-c', '+p', '+p', '-p'), ('+p', '-c'), ('+c', '-p')]
    cdone = False
    for D in ((1, 2, 3) if thorough else (1, 2)):
        for spec in (specs if D < 3 else specs[:1]):
            st, res = explore(h_combine(reg2, mim2, D, spec), wall_s=(600 if D == 3 else 120), workers=(16 if D == 3 else 1))
            rep.stats(st)
            for r in res:
                for ob in r['obligations']:
                    rep.count(ob['result'], ob['name'])
                    if ob['result'] == 'sat' and not cdone:
                        bad, cls, detail = combine_oracle()
                        if rep.finding('C08/K-combine/%s' % (cls or ob['name'].split(':')[-1]), dict(kind='combine'), detail or ob['name'], reproduced=bad) != 'not-reproduced':
                            cdone = True
    bad, cls, detail = combine_oracle()
    rep.validated_runs(2)
    if bad:
        rep.finding('C08/K-combine/%s' % cls, dict(kind='combine'), detail)
    rep.end_kernel()
    rep.not_decided += ['pickle save/load round trip (library code; replay oracle only)', 'random histories to length 12 at depth 10 (covered by the inductive step, not enumerated)']


def sym_mimas():
    mods = loader.load_private(['regions', 'MIMAS'])
    reg, mim = mods['regions'], mods['MIMAS']
    loader.patch(reg, np=False, builtins=False)
    loader.patch(mim, np=False, builtins=False)
    for k, v in symset.BUILTINS.items():
        setattr(reg, k, v)
    mim.Region = reg.Region
    return reg, mim


def h_combine(reg, mim, D, spec):
    """the real MIMAS.combine_regions: every HEALPix query answers with a fresh symbolic pixel set; the result must be the
    documented construction order  ((+circles) - (-circles)) + (+polygons)) - (-polygons)  as set algebra"""
    def h(c):
        uni = universe(D)
        calls = []

        class HP(HPStub):
            def _fresh(self, kind):
                st = SymSet.fresh(uni[D], 'q%d' % len(calls))
                calls.append((kind, st))
                return st

            def query_disc(self, nside, vec, radius, inclusive=False, nest=False, **kw):
                return self._fresh('disc')

            def query_polygon(self, nside, vertices, inclusive=False, nest=False, **kw):
                return self._fresh('poly')
        reg.hp = HP()
        cont = mim.Dummy(maxdepth=D)
        order = []
        for kind in spec:
            if kind == '+c':
                cont.include_circles.append([10.0 + len(order), -20.0, 1.0])
            elif kind == '-c':
                cont.exclude_circles.append([10.5 + len(order), -20.0, 0.5])
            elif kind == '+p':
                cont.include_polygons.append([10.0, -21.0, 12.0 + len(order), -21.0, 11.0, -19.0])
            elif kind == '-p':
                cont.exclude_polygons.append([10.2, -20.8, 11.0 + len(order), -20.8, 10.6, -20.0])
            order.append(kind)
        r = mim.combine_regions(cont)
        tag = 'combine_regions[D=%d,%s]' % (D, ' '.join(spec))
        # queries are issued in the documented order: all +c, all -c, all +p, all -p
        seq = [k for k in ('+c', '-c', '+p', '-p') for _ in range(spec.count(k))]
        kinds = ['disc' if k.endswith('c') else 'poly' for k in seq]
        c.oblige(tag + ':one HEALPix query per circle / polygon, in the documented order', z3.BoolVal([k for k, _ in calls] == kinds))
        if [k for k, _ in calls] != kinds:
            return tag
        want = {u: FALSE for u in uni[D]}
        for k, (_, st) in zip(seq, calls):
            for u in want:
                b = st.bits.get(u, FALSE)
                want[u] = z3.Or(want[u], b) if k.startswith('+') else z3.And(want[u], z3.Not(b))
        got = alpha(r, uni)
        c.oblige(tag + ':region == ((+circles - -circles) + +polygons) - -polygons as pixel sets', z3.And([got[u] == want[u] for u in want]))
        return tag
    return h


def combine_oracle():
    """real combine_regions against python sets of healpy query results, documented order"""
    import healpy as hp
    import numpy as np
    mim = loader.real('MIMAS')
    D = 6
    for spec in ((('+c', (20.0, -30.0, 6.0)), ('-c', (22.0, -30.0, 3.0)), ('+p', (21.0, -32.0, 25.0, -32.0, 25.0, -28.0, 21.0, -28.0)), ('-p', (60.0, 10.0, 62.0, 10.0, 61.0, 12.0))),
                 (('+c', (20.0, -30.0, 6.0)), ('-c', (22.0, -30.0, 3.0)), ('-c', (18.0, -29.0, 1.0)), ('+p', (21.0, -32.0, 25.0, -32.0, 25.0, -28.0, 21.0, -28.0)), ('-p', (23.5, -30.5, 24.5, -30.5, 24.0, -29.5)), ('-p', (60.0, 10.0, 62.0, 10.0, 61.0, 12.0)))):
        cont = mim.Dummy(maxdepth=D)
        want = set()
        for k in ('+c', '-c', '+p', '-p'):
            for kind, v in spec:
                if kind != k:
                    continue
                if k.endswith('c'):
                    (cont.include_circles if k == '+c' else cont.exclude_circles).append(list(v))
                    px = set(int(x) for x in hp.query_disc(2 ** D, hp.ang2vec(np.radians(90 - v[1]), np.radians(v[0])), np.radians(v[2]), inclusive=True, nest=True))
                else:
                    (cont.include_polygons if k == '+p' else cont.exclude_polygons).append(list(v))
                    pts = np.array(v).reshape(-1, 2)
                    px = set(int(x) for x in hp.query_polygon(2 ** D, hp.ang2vec(np.radians(90 - pts[:, 1]), np.radians(pts[:, 0])), inclusive=True, nest=True))
                want = (want | px) if k.startswith('+') else (want - px)
        r = mim.combine_regions(cont)
        got = set(int(x) for x in r.get_demoted())
        if got != want:
            return True, 'combine-order', 'combine_regions(%s): %d pixels, the documented construction order gives %d (%d missing, %d extra)' % ([k for k, _ in spec], len(got), len(want), len(want - got), len(got - want))
    return False, None, None


def membership_kernel(rep, pid):
    """the real Region.sky_within on symbolic regions (shared by C10 / C11, whose own kernels stub the region):
    membership == pixel of the point in the deepest-level set, degrees/radians, non-finite never inside"""
    reg = sym_regions()
    rep.kernel('K-membership', functions=[F + ':Region.sky_within', F + ':Region.sky2ang', F + ':Region.radec2sky', F + ':Region.get_demoted'],
               bounds='depth 1-3, all pixels below level-1 pixel 0 symbolic, before/after a query, and query / set operation / query sequences (depth 1-2); all-sky depth-1 universe for non-finite positions',
               stubs=['healpy.ang2pix: real library on concrete points', 'np.isin -> per-element guard disjunction'])
    cases = []
    for D in (1, 2, 3):
        uni = universe(D)
        for cA in (False, True):
            pts = list(range(min(4, 4 ** (D - 1))))
            cases.append((h_within(reg, D, uni, cA, pts), dict(op='within', D=D, cachedA=cA)))
    for cA in (False, True):
        cases.append((h_nonfinite(reg, cA), dict(op='within', D=1, cachedA=cA, allsky=True)))
    # whole base pixel 0 (its four level-1 children and their descendants): complete sibling groups at level 1
    for D in (1, 2):
        uni0 = universe(D, 0)
        for op in ('union', 'without'):
            cases.append((h_binop(reg, op, D, uni0, False, False), dict(op=op, D=D, odepth=D, cachedA=False, cachedB=False, renorm=True)))
        for dep in range(1, D + 1):
            cases.append((h_addpix(reg, D, uni0, False, dep), dict(op='add_pixels', D=D, cachedA=False, pix_depth=dep)))
        cases.append((h_query(reg, D, uni0, False), dict(op='query', D=D, cachedA=False)))
    # a region that has answered a query is edited and asked again (regions are reused between runs)
    for D in (1, 2):
        for op in ('union', 'without', 'intersect', 'symmetric_difference'):
            cases.append((h_binop_queried(reg, op, D, universe(D)), dict(op=op, D=D, odepth=D, cachedA=False, cachedB=False, renorm=True, prequery=True)))
    for h, meta in cases:
        st, res = explore(h, workers=1, wall_s=120)
        rep.stats(st)
        for r in res:
            for ob in r['obligations']:
                rep.count(ob['result'], ob['name'])
                if ob['result'] == 'sat':
                    w = dict(meta)
                    w['a_levels'] = model_levels(ob['model'], 'a', meta['D'], meta.get('cachedA'))
                    if 'odepth' in meta:
                        w['b_levels'] = model_levels(ob['model'], 'b', meta['odepth'], meta.get('cachedB'))
                    if meta['op'] == 'add_pixels':
                        w['pix'] = sorted(int(k.split('_')[1]) for k, v in ob['model'].items() if k.startswith('p%d_' % meta['pix_depth']) and v is True)
                    if meta['op'] == 'query':
                        w['nodup'] = 'area' in ob['name']
                    w['kind'] = 'membership'
                    try:
                        bad, cls, detail = replay_case(w)
                    except Exception as e:
                        bad, cls, detail = False, None, 'replay error %r' % e
                    rep.finding('%s/K-membership/%s' % (pid, cls or ob['name'].split(':')[-1]), w, detail, reproduced=bad)
    rep.end_kernel()


def replay(w):
    if w['witness'].get('kind') == 'combine':
        bad, cls, detail = combine_oracle()
        return bad, '%s: %s' % (cls, detail)
    bad, cls, detail = replay_case(w['witness'])
    return bad, '%s: %s' % (cls, detail)


if __name__ == '__main__':
    main(sys.modules[__name__])
