"""C11 region-restricted finding = unrestricted finding filtered by island membership.
The real find_islands(region=, wcs=) runs on symbolic pixel values with the WCS and the region membership as
uninterpreted functions, so "which pixel coordinate is asked about, with which origin" is what the solver decides."""
import ast
import itertools
import os
import sys

import numpy as real_np
import z3

from symx import core, loader
from symx.core import real, explore
from symx.report import main
from checks import islands as I
from checks import C02

PID = 'C11'


def h_region(sf, R, C, pattern=None):
    def h(c):
        im = I.make_image(R, C)
        flood, seed = real('flood'), real('seed')
        c.assume(flood.e > 0)
        c.assume(seed.e >= flood.e)
        if pattern is not None:
            # a fixed detection pattern (which pixels are above the clips), everything else symbolic: islands that share a bounding box
            for r in range(R):
                for cc in range(C):
                    v = im[r, cc]
                    c.assume(v.e >= seed.e if (r, cc) in pattern else z3.And(v.e >= 0, v.e < flood.e))
        bkg = real_np.zeros((R, C))
        rms = real_np.ones((R, C))
        tag = 'find_islands+region[%dx%d%s]' % (R, C, ', L-shaped island with another island in its box' if pattern is not None else '')
        reg, wcs = I.UFRegion(), I.UFWcs()
        try:
            isl_u = sf.find_islands(im, bkg, rms, seed_clip=seed, flood_clip=flood)
            isl_r = sf.find_islands(im, bkg, rms, seed_clip=seed, flood_clip=flood, region=reg, wcs=wcs)
        except (core.Unsupported, core.HarnessError, core.Cut):
            raise
        except Exception as e:
            c.oblige(tag + ':completes without exception', z3.BoolVal(False), info=repr(e))
            return dict(raised=repr(e))
        U = [I.island_pixels(i) for i in isl_u]
        Rr = [I.island_pixels(i) for i in isl_r]
        okshape = all(not isinstance(p, str) for _, p in U + Rr)
        c.oblige(tag + ':boxes and masks agree', z3.BoolVal(okshape))
        if not okshape:
            return dict()
        c.oblige(tag + ':restricted islands are unrestricted islands, same order', z3.BoolVal(all(x in U for x in Rr) and [U.index(x) for x in Rr if x in U] == sorted(U.index(x) for x in Rr if x in U)))
        c.oblige(tag + ':positions handed to the region in degrees', z3.BoolVal(all(reg.degin) if reg.degin else True))
        out = dict(n_unrestricted=len(U), n_restricted=len(Rr), asked=[(str(a), str(b)) for a, b in wcs.calls][:6])
        for (box, pix) in U:
            want = z3.Or([I.inside_pixel(r, cc) for r, cc in pix])
            kept = (box, pix) in Rr
            rec = c.oblige(tag + ':kept <=> some own pixel centre inside the region', want if kept else z3.Not(want), info=dict(pix=pix, kept=kept))
            if rec['result'] == 'sat':
                m = rec['model']['__z3model__']
                rec['inside'] = [[bool(z3.is_true(m.eval(I.inside_pixel(r, cc), model_completion=True))) for cc in range(C)] for r in range(R)]
        return out
    return h


def replay_case(w):
    """real WCS (TAN, 1' pixels) + real Region built from the pixel centres the model puts inside"""
    import healpy as hp
    from astropy.io import fits
    sf = loader.real('source_finder')
    wh = loader.real('wcs_helpers')
    regions = loader.real('regions')
    R, C = int(w['R']), int(w['C'])
    im = real_np.array(w['im'], dtype=float).reshape(R, C)
    hdr = fits.Header()
    hdr['NAXIS'] = 2
    hdr['NAXIS1'], hdr['NAXIS2'] = C, R
    hdr['CTYPE1'], hdr['CTYPE2'] = 'RA---TAN', 'DEC--TAN'
    hdr['CRVAL1'], hdr['CRVAL2'] = 150.0, -27.0
    hdr['CRPIX1'], hdr['CRPIX2'] = 2.0, 1.0
    hdr['CDELT1'], hdr['CDELT2'] = -1.0 / 60, 1.0 / 60
    hdr['BMAJ'], hdr['BMIN'], hdr['BPA'] = 3.0 / 60, 3.0 / 60, 0.0
    helper = wh.WCSHelper.from_header(hdr)
    depth = 14
    reg = regions.Region(maxdepth=depth)
    inside = w['inside']
    pts = [(r, c) for r in range(R) for c in range(C) if inside[r][c]]
    if pts:
        sky = helper.wcs.all_pix2world([[c, r] for r, c in pts], 0)
        pix = hp.ang2pix(2 ** depth, real_np.radians(90 - sky[:, 1]), real_np.radians(sky[:, 0]), nest=True)
        reg.add_pixels([int(p) for p in pix], depth)
    bkg, rms = real_np.zeros((R, C)), real_np.ones((R, C))
    seed, flood = float(w['seed']), float(w['flood'])
    try:
        got = sf.find_islands(im, bkg, rms, seed_clip=seed, flood_clip=flood, region=reg, wcs=helper)
    except Exception as e:
        return True, 'raises-%s' % type(e).__name__, repr(e)
    exp_all = I.real_oracle(im, bkg, rms, seed, flood)
    exp = []
    for box, pix in exp_all:
        sky = helper.wcs.all_pix2world([[c, r] for r, c in pix], 0)
        if real_np.any(reg.sky_within(sky[:, 0], sky[:, 1], degin=True)):
            exp.append((box, pix))
    bad, cls, detail = I.compare_real(got, exp)
    if bad:
        cls = {'missing-island': 'island-lost', 'foreign-seed': 'island-outside-kept', 'wrong-pixels': 'island-outside-kept'}.get(cls, cls)
        return True, 'region-filter:' + cls, '%s; region holds the centres of pixels %s' % (detail, pts)
    return False, None, None


def h_mask_object(sf):
    """the mask handling of load_globals: a Region OBJECT handed in as `mask` is the region the finder filters with -- the same
    object, or a copy at the SAME resolution holding its pixels"""
    from symx import slicer

    def h(c):
        fac, text = slicer.slice_function(I.F, 'load_globals', targets=['self.global_data.region'], params=['self', 'mask'], cls='SourceFinder')

        class FakeRegion:
            made = []

            def __init__(self, maxdepth=11):
                self.maxdepth = maxdepth
                self.got = []
                FakeRegion.made.append(self)

            def union(self, other, *a, **k):
                self.got.append(other)

            @staticmethod
            def load(fn):
                return ('loaded', fn)
        FakeRegion.made = []
        D = 13
        mask = FakeRegion(D)
        FakeRegion.made = []

        class GD:
            region = None

        class Self:
            global_data = GD()
            log = loader.NullLog()
        import os as _os
        f = fac(dict(core.BUILTINS, Region=FakeRegion, os=_os, isinstance=isinstance))
        f(Self(), mask)
        reg = Self.global_data.region
        same = reg is mask
        copy_ok = isinstance(reg, FakeRegion) and reg.maxdepth == D and reg.got == [mask]
        c.oblige('load_globals:a Region object given as mask is used as is, or copied at its own depth', z3.BoolVal(bool(same or copy_ok)),
                 info='region maxdepth %s for a mask of depth %d' % (getattr(reg, 'maxdepth', None), D))
        return dict(slice=text[:400])
    return h


def mask_object_oracle():
    """real find_sources_in_image with a depth-13 Region object as mask: an island outside the region but inside the depth-11
    cell that the region partly covers must not appear"""
    import logging
    import os
    import shutil
    import tempfile
    import healpy as hp
    from astropy.io import fits
    from astropy.wcs import WCS
    sfm = loader.real('source_finder')
    regions = loader.real('regions')
    d = tempfile.mkdtemp(prefix='c11m_', dir='/var/tmp')
    try:
        N = 64
        y, x = real_np.mgrid[0:N, 0:N].astype(float)
        g = lambda a, r0, c0: a * real_np.exp(-((y - r0) ** 2 + (x - c0) ** 2) / (2 * 1.3 ** 2))
        cents = [(20.2, 20.3), (20.4, 27.1), (44.3, 40.2), (44.1, 47.3)]
        img = sum(g(30.0, r0, c0) for r0, c0 in cents)
        hdr = fits.Header()
        hdr['CTYPE1'], hdr['CTYPE2'] = 'RA---SIN', 'DEC--SIN'
        hdr['CRVAL1'], hdr['CRVAL2'] = 150.0, -27.0
        hdr['CRPIX1'] = hdr['CRPIX2'] = N / 2
        hdr['CDELT1'], hdr['CDELT2'] = -10.0 / 3600, 10.0 / 3600
        hdr['BMAJ'] = hdr['BMIN'] = 30.0 / 3600
        hdr['BPA'] = 0.0
        fn = os.path.join(d, 'm.fits')
        fits.PrimaryHDU(img, header=hdr).writeto(fn)
        w = WCS(hdr, naxis=2)
        depth = 13
        reg = regions.Region(maxdepth=depth)
        keep = [cents[0], cents[2]]
        cells = set()
        for (r0, c0) in keep:
            rr, cc = real_np.mgrid[int(r0) - 2:int(r0) + 4, int(c0) - 2:int(c0) + 4]
            sky = w.all_pix2world(real_np.column_stack([cc.ravel(), rr.ravel()]), 0)
            cells |= set(int(p) for p in hp.ang2pix(2 ** depth, real_np.radians(90 - sky[:, 1]), real_np.radians(sky[:, 0]), nest=True))
        reg.add_pixels(sorted(cells), depth)
        f = sfm.SourceFinder(log=logging.getLogger('c11'))
        srcs = f.find_sources_in_image(fn, rms=1.0, bkg=0.0, cores=1, innerclip=10, outerclip=8, mask=reg)
        want = 0
        for (r0, c0) in cents:
            rr, cc = real_np.where(img > 8.0)
            mine = [(a, b) for a, b in zip(rr, cc) if abs(a - r0) < 6 and abs(b - c0) < 4]
            sky = w.all_pix2world([[b, a] for a, b in mine], 0)
            pix = hp.ang2pix(2 ** depth, real_np.radians(90 - sky[:, 1]), real_np.radians(sky[:, 0]), nest=True)
            want += int(any(int(p) in cells for p in pix))
        if len(srcs) != want:
            return True, 'mask-object-resolution', 'depth-13 Region object as mask: %d components reported, %d islands have a pixel centre in the region (4 sources, 2 of them only inside the region\'s depth-11 parent cells)' % (len(srcs), want)
        return False, None, None
    except Exception as e:
        return True, 'raises-%s' % type(e).__name__, repr(e)[:300]
    finally:
        shutil.rmtree(d, ignore_errors=True)


def scan_region_reads():
    """syntactic: which functions of source_finder.py read a `.region` attribute / `region` variable"""
    src = loader.source(I.F)
    tree = ast.parse(src)
    out = {}
    for fn in ast.walk(tree):
        if isinstance(fn, ast.FunctionDef):
            for n in ast.walk(fn):
                if (isinstance(n, ast.Attribute) and n.attr == 'region') or (isinstance(n, ast.Name) and n.id == 'region'):
                    out.setdefault(fn.name, 0)
                    out[fn.name] += 1
    return out


FIT_FUNCS = {'_fit_island', '_fit_islands', '_refit_islands', 'result_to_components', 'estimate_lmfit_parinfo', 'estimate_parinfo_image',
             '_make_bkg_rms', 'priorized_fit_islands'}


def run(rep):
    sf, models = I.sym_finder()
    thorough = rep.tier == 'thorough'
    grids = [(1, 2), (2, 2), (2, 3), (3, 2), (1, 4)] + ([(3, 3), (2, 4)] if thorough else [])
    rep.kernel('K-region-filter', functions=[I.F + ':find_islands'],
               bounds='grids %s plus, in the quick tier, the four 3x3 patterns of an L-shaped island with a second island inside its bounding box (non-square, elongated, L-shaped and box-sharing islands all occur); all pixel values and thresholds symbolic; ANY pixel->sky map and ANY region (uninterpreted functions)' % grids,
               stubs=['WCS -> uninterpreted functions Wra/Wdec on 0-based pixel (x,y), origin o means W_0(p-o)', 'Region.sky_within -> uninterpreted predicate Inside(ra,dec)',
                      'scipy label on the path-concrete mask'],
               assumes=['oracle: island kept iff some OWN pixel (row r, col c) has Inside(W_fits(x=c+1, y=r+1))'],
               outside=['wcslib and HEALPix themselves (real in the replay)', 'fitted values: fitting is per island and reads nothing of the region (syntactic scan below)'])
    L0 = {(0, 0), (1, 0), (2, 0), (2, 1), (2, 2), (0, 2)}
    patterns = [L0, {(cc, r) for r, cc in L0}, {(2 - r, cc) for r, cc in L0}, {(r, 2 - cc) for r, cc in L0}]
    jobs = [(R, C, None) for R, C in grids] + ([(3, 3, pt) for pt in patterns] if not thorough else [])
    results = core.explore_many([(h_region(sf, R, C, pt), dict(wall_s=900)) for R, C, pt in jobs], workers=16)
    nrep = {}
    for (R, C, pt), (st, res) in zip(jobs, results):
        rep.stats(st)
        shown = False
        for r in res:
            for ob in r['obligations']:
                rep.count(ob['result'], ob['name'])
                if ob['result'] == 'sat':
                    nrep[ob['name']] = nrep.get(ob['name'], 0) + 1
                    if nrep[ob['name']] > 15:
                        continue
                    w = C02.witness(ob['model'], R, C, set(), 'zero')
                    w['inside'] = ob.get('inside') or [[False] * C for _ in range(R)]
                    bad, cls, detail = replay_case(w)
                    rep.finding('C11/K-region-filter/%s' % (cls or ob['name'].split(':')[-1]), w, detail or ob['name'], reproduced=bad)
            if not shown and r['out'] and r['out'].get('n_unrestricted'):
                rep.sample(dict(grid='%dx%d' % (R, C), out=r['out'], obligations=[(o['name'].split(':')[-1], o['result']) for o in r['obligations']]))
                shown = True
    rep.end_kernel()
    rep.kernel('K-mask-object', functions=[I.F + ':SourceFinder.load_globals'], bounds='a Region object of depth 13 given as mask',
               stubs=['Region -> recording class'], assumes=['slice: statements assigning self.global_data.region (with their enclosing ifs)'])
    try:
        st, res = explore(h_mask_object(sf))
        rep.stats(st)
        for r in res:
            for ob in r['obligations']:
                rep.count(ob['result'], ob['name'])
                if ob['result'] == 'sat':
                    bad, cls, detail = mask_object_oracle()
                    rep.finding('C11/K-mask-object/%s' % (cls or ob['name'].split(':')[-1]), dict(kind='mask-object'), detail or ob['name'], reproduced=bad)
    except Exception as e:
        rep.inconc('K-mask-object: %r' % (e,))
    bad, cls, detail = mask_object_oracle()
    rep.validated_runs(1)
    if bad:
        rep.finding('C11/K-mask-object/%s' % cls, dict(kind='mask-object'), detail)
    rep.end_kernel()
    rep.kernel('K-scan', functions=[I.F], bounds='syntactic scan of source_finder.py for reads of the region', assumes=['fitting functions never read the region'])
    reads = scan_region_reads()
    bad = sorted(set(reads) & FIT_FUNCS)
    rep.count('unsat' if not bad else 'sat', 'scan:fitting functions do not read the region')
    rep.sample(dict(kernel='K-scan', functions_reading_region=reads))
    if bad:
        rep.inconc('fitting function(s) %s now read the region: "identical fitted values" no longer follows from the island filter alone' % bad)
    rep.end_kernel()
    from checks import C08
    C08.membership_kernel(rep, 'C11')
    rep.not_decided += ['equality of fitted values between the restricted and unrestricted run (follows from island identity + the scan; the optimiser is not encoded)']


def replay(w):
    if w['witness'].get('kind') == 'mask-object':
        bad, cls, detail = mask_object_oracle()
        return bad, '%s: %s' % (cls, detail)
    if w['witness'].get('kind') == 'membership':
        from checks import C08
        bad, cls, detail = C08.replay_case(w['witness'])
        return bad, '%s: %s' % (cls, detail)
    bad, cls, detail = replay_case(w['witness'])
    return bad, '%s: %s' % (cls, detail)


if __name__ == '__main__':
    main(sys.modules[__name__])
