"""C18 catalogues survive a write/read round trip (partial: split, naming, FITS column typing).
Value fidelity through astropy / sqlite is library code and is NOT decided (it is exercised by the replay oracle).
K-classify: the real classify_catalog / write_catalog on objects whose class is chosen by the solver
K-fitscols: the real writeFITSTable column-format loop on rows whose string lengths / types are symbolic"""
import os
import shutil
import sys
import tempfile

import numpy as real_np
import z3

from symx import core, loader
from symx.core import SN, SB, integer, explore
from symx.report import main

PID = 'C18'
F = 'AegeanTools/catalogs.py'
FM = 'AegeanTools/models.py'


def sym_mods():
    mods = loader.load_private(['models', 'catalogs'])
    cat, models = mods['catalogs'], mods['models']
    loader.patch(cat, np=False, math=False)
    return cat, models


def make_item(models, k):
    """an object whose class (as seen by isinstance) is decided by the solver: 0 SimpleSource, 1 IslandSource,
    2 ComponentSource, 3 a subclass of ComponentSource, 4 unrelated object"""
    class Sub(models.ComponentSource):
        pass

    class Other:
        pass
    classes = [models.SimpleSource, models.IslandSource, models.ComponentSource, Sub, Other]
    tag = z3.Int('cls_%d' % k)

    class Item:
        names = ['island', 'uuid', 'err_ra', 'peak_flux']
        galactic = False
        island = k
        uuid = 'u%d' % k + ('-' + 'x' * 44 if k == 1 else '')       # one identifier longer than a uuid4 string (36 characters)
        err_ra = -1 if k == 0 else 0.000125 * (k + 1)          # the "no error" marker is a python int
        peak_flux = 1.0000000000000002 * (k + 1)
        _k = k

        @property
        def __class__(self):
            c = core.CTX
            for n in range(len(classes) - 1):
                if c.decide(tag == n):
                    return classes[n]
            return classes[-1]
    core.CTX.assume(z3.And(tag >= 0, tag <= 4))
    return Item(), tag


def h_classify(cat, models, n):
    def h(c):
        items = []
        tags = []
        for k in range(n):
            it, tg = make_item(models, k)
            items.append(it)
            tags.append(tg)
        comps, isles, simps = models.classify_catalog(items)
        tag = 'classify_catalog[n=%d]' % n

        def member(lst, k):
            return z3.BoolVal(any(x is items[k] for x in lst))
        cl = []
        for k in range(n):
            cl.append(member(comps, k) == z3.Or(tags[k] == 2, tags[k] == 3))
            cl.append(member(isles, k) == (tags[k] == 1))
            cl.append(member(simps, k) == (tags[k] == 0))
        c.oblige(tag + ':each bucket holds exactly the sources of that type (subclasses of components are components)', z3.And(cl))
        okorder = all([x._k for x in lst] == sorted(x._k for x in lst) for lst in (comps, isles, simps))
        c.oblige(tag + ':input order kept within each bucket', z3.BoolVal(okorder))
        # the split files
        written = []

        class T:
            def __init__(self, d, meta=None):
                self.d = d

            def __getitem__(self, names):
                return self

        class Asc:
            @staticmethod
            def write(t, filename, *a, **k):
                written.append((filename, t.d))
        cat.Table = T
        cat.ascii = Asc
        cat.classify_catalog = models.classify_catalog
        cat.write_catalog('/some.dir/cat.csv.v1.csv', items, fmt='csv')      # the extension text also occurs earlier in the name
        want = {}
        for nm, lst in (('_comp', comps), ('_isle', isles), ('_simp', simps)):
            if lst:
                want['/some.dir/cat.csv.v1%s.csv' % nm] = [x.uuid for x in lst]
        got = {fn: [str(u) for u in d.get('uuid')] for fn, d in written}
        c.oblige(tag + ':_comp/_isle/_simp files (suffix before the extension) hold exactly the sources of each type', z3.BoolVal(got == want))
        okvals = True
        for fn, d in written:
            ids = [int(str(u)[1:].split('-')[0]) for u in d.get('uuid')]
            for col in ('err_ra', 'peak_flux'):
                vals = [float(v) for v in d.get(col)]
                okvals = okvals and vals == [float(getattr(items[i], col)) for i in ids]
        c.oblige(tag + ':every column handed to the table writer holds the exact values of its sources (also when the first one is the integer -1 marker)', z3.BoolVal(okvals))
        return dict()
    return h


class SymStr(str):
    """a string whose length is symbolic (content irrelevant)"""
    def __new__(cls, L):
        o = str.__new__(cls, '?')
        o.L = L
        return o


def sym_len(x):
    if isinstance(x, SymStr):
        return SN(x.L)
    return len(x)


class Rec:
    pass


def h_fitscols(cat, nrows, firstkind):
    def h(c):
        rec = Rec()
        rec.cols = []

        class Col:
            def __init__(self, name=None, format=None, array=None):
                rec.cols.append((name, format, array))

        class FitsMod:
            Column = Col
            ColDefs = staticmethod(lambda x: x)

            class BinTableHDU:
                @staticmethod
                def from_columns(cols):
                    class H:
                        header = {}

                        def writeto(self, fn, overwrite=False):
                            rec.written = fn
                    return H()
        cat.fits = FitsMod
        cat.len = sym_len
        cat.max = core.sym_max
        rows = range(nrows)
        Ls = {}
        table = {}
        for nm in ('ra_str', 'dec_str', 'uuid', 'note'):
            col = []
            for k in rows:
                L = z3.Int('len_%s_%d' % (nm, k))
                if nm == 'dec_str':
                    c.assume(z3.Or(L == 11, L == 12))       # 'XX:XX:XX.XX' or '+DD:MM:SS.SS' (C17)
                elif nm == 'ra_str':
                    c.assume(L == 11)
                else:
                    c.assume(z3.And(L >= 0, L <= 64))
                Ls[nm, k] = L
                col.append(SymStr(L))
            table[nm] = col
        table['island'] = [3] * nrows
        table['peak_flux'] = [1.5] + [2.5] * (nrows - 1)
        table['err_peak_flux'] = [-1] + [0.1] * (nrows - 1)
        table['flagged'] = [True] * nrows

        class T(dict):
            meta = {}

            @property
            def colnames(self):
                return list(self.keys())
        cat.writeFITSTable('/nonexistent/x.fits', T(table))
        tag = 'writeFITSTable[rows=%d]' % nrows
        fm = {n: f for n, f, a in rec.cols}
        c.oblige(tag + ':one column per table column, in order', z3.BoolVal([n for n, f, a in rec.cols] == list(table.keys())))
        for nm in ('ra_str', 'dec_str', 'uuid', 'note'):
            f = fm.get(nm)
            if not (isinstance(f, str) and f.endswith('A')):
                c.oblige(tag + ':%s is a character column' % nm, z3.BoolVal(False))
                continue
            w = core.token_value(f[:-1]) if '\x00' in f else SN(z3.IntVal(int(f[:-1])))
            c.oblige(tag + ':%s column is wide enough for every row (no truncation)' % nm, z3.And([core.lift(w) >= Ls[nm, k] for k in rows]))
        c.oblige(tag + ':uncertainty columns are floating point even when the first value is the -1 marker', z3.BoolVal(fm.get('err_peak_flux') == 'E'))
        c.oblige(tag + ':integer / float / bool columns typed J / E / L', z3.BoolVal(fm.get('island') == 'J' and fm.get('peak_flux') == 'E' and fm.get('flagged') == 'L'))
        return dict()
    return h


# ------------------------------------------------------------------ replay oracle: real files
def make_catalog(models, first_nan_dec=False, n=4):
    at = loader.real('angle_tools')
    out = []
    for k in range(n):
        s = models.ComponentSource()
        s.island, s.source = k, 0
        s.ra, s.dec = 12.5 + k / 3.0, (-45.12345678901234 - k / 7.0)
        if first_nan_dec and k == 0:
            s.dec = real_np.nan
        s.ra_str, s.dec_str = at.dec2hms(s.ra), at.dec2dms(s.dec)
        s.peak_flux, s.int_flux = (-1) ** k * 1.2345678901234567e-3 * (k + 1) / 3, 2.5e3 / 7 * (k + 1)
        s.err_peak_flux = -1 if k == 0 else 1.1e-5
        s.a, s.b, s.pa = 30.0, 20.0, 10.0
        s.flags = k
        s.uuid = 'uuid-%s' % ('x' * (3 * k if k < 3 else 45))        # the last one is longer than a uuid4 string
        out.append(s)
    isl = models.IslandSource()
    isl.island = 9
    simp = models.SimpleSource()
    return out, isl, simp


def oracle(fmt='fits', first_nan_dec=True):
    cat = loader.real('catalogs')
    models = loader.real('models')
    d = tempfile.mkdtemp(prefix='c18_', dir='/var/tmp')
    try:
        comps, isl, simp = make_catalog(models, first_nan_dec)
        base = 'out.%s.v2' % fmt                                     # the extension text also occurs earlier in the name
        fn = os.path.join(d, base + '.' + fmt)
        cat.save_catalog(fn, comps + [isl, simp])
        cf = os.path.join(d, base + '_comp.' + fmt)
        for suffix, want in (('_comp', len(comps)), ('_isle', 1), ('_simp', 1)):
            p = os.path.join(d, '%s%s.%s' % (base, suffix, fmt))
            if not os.path.exists(p):
                return True, 'split-missing', 'file %s not written' % os.path.basename(p)
            t = cat.load_table(p)
            if len(t) != want:
                return True, 'split-count', '%s has %d rows, expected %d' % (os.path.basename(p), len(t), want)
        t = cat.load_table(cf)
        for k, s in enumerate(comps):
            for col in ('ra_str', 'dec_str', 'uuid'):
                got = str(t[col][k]).strip()
                if got != getattr(s, col).strip():
                    return True, 'string-truncated', '%s row %d column %s: wrote %r, read back %r' % (fmt, k, col, getattr(s, col), got)
            if int(t['island'][k]) != s.island or int(t['flags'][k]) != s.flags:
                return True, 'ints', 'island/flags changed in row %d' % k
            for col in ('peak_flux', 'int_flux', 'ra', 'dec', 'err_peak_flux', 'a'):
                want = getattr(s, col)
                got = float(t[col][k])
                if want != want:
                    okv = got != got
                elif fmt == 'fits':
                    okv = abs(got - want) <= 1e-6 * abs(want)            # single precision
                else:
                    okv = got == float(want)                             # full double precision
                if not okv:
                    return True, ('precision' if abs(got - want) <= 1e-6 * abs(want) else 'values'), '%s row %d column %s: wrote %r, read back %r' % (fmt, k, col, want, got)
        if float(t['err_peak_flux'][0]) != -1:
            return True, 'marker', 'the -1 marker came back as %r' % float(t['err_peak_flux'][0])
        # the reading side: sources rebuilt from the table carry the same values (an undefined value stays undefined)
        back = cat.table_to_source_list(t)
        if len(back) != len(comps):
            return True, 'rebuilt-count', '%d sources rebuilt from %d rows' % (len(back), len(comps))
        for k, (s, b) in enumerate(zip(comps, back)):
            for col in ('ra', 'dec', 'peak_flux', 'int_flux', 'a', 'err_peak_flux'):
                want, got = getattr(s, col), getattr(b, col)
                try:
                    gotf = float(real_np.ma.filled(got, real_np.nan)) if real_np.ma.is_masked(got) else float(got)
                except Exception:
                    gotf = float('nan')
                if want != want:
                    okv = gotf != gotf
                else:
                    okv = abs(gotf - want) <= 1e-6 * abs(want)
                if not okv:
                    return True, 'rebuilt-values', '%s: source %d rebuilt from the table has %s = %r, written %r' % (fmt, k, col, got, want)
            if str(b.uuid).strip() != s.uuid or int(b.island) != s.island or int(b.flags) != s.flags:
                return True, 'rebuilt-values', '%s: source %d rebuilt with uuid/island/flags %r/%r/%r' % (fmt, k, b.uuid, b.island, b.flags)
        return False, None, None
    except Exception as e:
        return True, 'raises-%s' % type(e).__name__, '%s: %r' % (fmt, e)
    finally:
        shutil.rmtree(d, ignore_errors=True)


# ------------------------------------------------------------------ K-sqlite
def affinity(decl):
    """SQLite's column-affinity rules (sqlite.org/datatype3.html section 3.1) for a declared type"""
    d = decl.upper()
    if 'INT' in d:
        return 'INTEGER'
    if 'CHAR' in d or 'CLOB' in d or 'TEXT' in d:
        return 'TEXT'
    if 'BLOB' in d or d.strip() == '':
        return 'BLOB'
    if 'REAL' in d or 'FLOA' in d or 'DOUB' in d:
        return 'REAL'
    return 'NUMERIC'


def h_sqlite(cat, models, present):
    """the real writeDB with sqlite3 and the file system replaced by recorders: the file may exist beforehand (solver
    variable) holding any of the tables (solver variables); afterwards the database must hold exactly the rows written"""
    import re

    def h(c):
        exists = SB(z3.Bool('file_exists'))
        pre = {t: z3.Bool('pre_' + t) for t in ('components', 'islands', 'simples', 'meta')}
        state = dict(removed=False, connected_after_remove=None, stmts=[])

        class OsPath:
            @staticmethod
            def exists(fn):
                return exists

            def __getattr__(self, n):
                return getattr(os.path, n)

        class Os:
            path = OsPath()

            @staticmethod
            def remove(fn):
                state['removed'] = True

            def __getattr__(self, n):
                return getattr(os, n)

        class Cur:
            def execute(self, sql, params=None):
                state['stmts'].append((sql, [tuple(params)] if params is not None else None))
                return self

            def executemany(self, sql, data):
                state['stmts'].append((sql, [tuple(r) for r in data]))
                return self

            def fetchall(self):
                return []

        class Conn:
            def cursor(self):
                return Cur()

            def commit(self):
                pass

            def close(self):
                pass

        class Sq:
            @staticmethod
            def connect(fn):
                state['connected_after_remove'] = state['removed']
                return Conn()
        cat.os, cat.sqlite3 = Os(), Sq
        comps, isl, simp = make_catalog(models, False, 2)
        comps[0].uuid, comps[1].uuid = '000123', '1e3'           # text that looks like a number must stay text
        catalog = (comps if present[0] else []) + ([isl] if present[1] else []) + ([simp] if present[2] else [])
        tag = 'writeDB[%s]' % ','.join(n for n, pz in zip(('components', 'islands', 'simples'), present) if pz)
        try:
            cat.writeDB('x.db', catalog, meta={'PROGRAM': 'x'})
        except (core.Unsupported, core.HarnessError, core.Cut, core.Infeasible):
            raise
        except Exception as e:
            c.oblige(tag + ':completes', z3.BoolVal(False), info=repr(e)[:200])
            return dict()
        # interpret the recorded statements on a database that holds the old tables iff the file existed and was not removed
        old = z3.And(exists.e, z3.BoolVal(not state['removed']))
        tables = {t: z3.And(old, pre[t]) for t in pre}                  # "holds rows of an earlier save"
        created, rows, decls, clash = {}, {}, {}, []
        for sql, data in state['stmts']:
            m = re.match(r"\s*CREATE TABLE (?:IF NOT EXISTS )?(\w+)\s*\((.*)\)\s*$", sql, re.S | re.I)
            if m:
                t = m.group(1)
                if 'IF NOT EXISTS' not in sql.upper():
                    clash.append(tables.get(t, z3.BoolVal(False)))     # sqlite raises "table already exists"
                else:
                    pass                                                 # keeps the old rows: tables[t] unchanged
                created[t] = True
                decls[t] = [tuple(x.strip().split(None, 1)) if len(x.strip().split(None, 1)) == 2 else (x.strip(), '') for x in m.group(2).split(',')]
                continue
            m = re.match(r"\s*DROP TABLE (?:IF EXISTS )?(\w+)", sql, re.I)
            if m:
                tables[m.group(1)] = z3.BoolVal(False)
                created.pop(m.group(1), None)
                rows.pop(m.group(1), None)
                continue
            m = re.match(r"\s*DELETE FROM (\w+)\s*$", sql, re.I)
            if m:
                tables[m.group(1)] = z3.BoolVal(False)
                rows.pop(m.group(1), None)
                continue
            m = re.match(r"\s*INSERT INTO (\w+)\s*\(([^)]*)\)", sql, re.I)
            if m:
                rows.setdefault(m.group(1), []).extend((tuple(x.strip() for x in m.group(2).split(',')), r) for r in (data or []))
        c.oblige(tag + ':no CREATE TABLE can meet a table left by an earlier save', z3.Not(z3.Or([z3.BoolVal(False)] + clash)))
        for t, cls_, objs in (('components', models.ComponentSource, comps), ('islands', models.IslandSource, [isl]), ('simples', models.SimpleSource, [simp])):
            want = [o for o in catalog if any(o is x for x in objs)]
            if want:
                got = rows.get(t, [])
                okrows = bool(created.get(t)) and len(got) == len(want) and all(list(g[0]) == list(o.names) and [x for x in g[1]] == [None if (isinstance(v, float) and v != v) else v for v in o.as_list()] or
                                                                                   (list(g[0]) == list(o.names) and len(g[1]) == len(o.names)) for g, o in zip(got, want))
                c.oblige(tag + ':table %s is created and holds one row per source, in order, all columns' % t, z3.BoolVal(okrows))
                c.oblige(tag + ':table %s holds no rows of an earlier save' % t, z3.Not(tables[t]))
                names = list(want[0].names)
                dd = dict(decls.get(t, []))
                bad = [n for n in names if isinstance(getattr(want[0], n), str) and affinity(dd.get(n, '')) not in ('TEXT', 'BLOB')]
                c.oblige(tag + ':text columns of %s are declared with text affinity (stored verbatim)' % t, z3.BoolVal(not bad), info=str([(n, dd.get(n)) for n in bad][:4]))
                badf = [n for n in names if isinstance(getattr(want[0], n), float) and affinity(dd.get(n, '')) in ('INTEGER', 'TEXT')]
                c.oblige(tag + ':float columns of %s are not declared integer/text' % t, z3.BoolVal(not badf), info=str(badf[:4]))
            else:
                c.oblige(tag + ':no table %s (nothing of that type was saved, also when the file existed before)' % t, z3.And(z3.Not(tables[t]), z3.BoolVal(not created.get(t))))
        return dict(statements=len(state['stmts']))
    return h


def oracle_sqlite():
    """real writeDB / sqlite3: values come back as written (text that looks like a number included), and a second save to the
    same file leaves exactly the second catalogue"""
    import sqlite3
    cat = loader.real('catalogs')
    models = loader.real('models')
    d = tempfile.mkdtemp(prefix='c18s_', dir='/var/tmp')
    try:
        comps, isl, simp = make_catalog(models, False, 3)
        comps[0].uuid, comps[1].uuid, comps[2].uuid = '000123', '1e3', '0.50'
        fn = os.path.join(d, 'x.db')
        cat.writeDB(fn, comps + [isl, simp], meta={'PROGRAM': 'x'})
        cat.writeDB(fn, comps[:2], meta={'PROGRAM': 'x'})
        con = sqlite3.connect(fn)
        names = [r[0] for r in con.execute("SELECT name FROM sqlite_master WHERE type='table'")]
        if sorted(names) != ['components', 'meta']:
            return True, 'stale-tables', 'after saving a components-only catalogue over an earlier one the database holds tables %s' % sorted(names)
        cur = con.execute('SELECT %s FROM components' % ','.join(comps[0].names))
        got = cur.fetchall()
        if len(got) != 2:
            return True, 'row-count', '%d rows for 2 sources' % len(got)
        for g, s_ in zip(got, comps[:2]):
            for n, v, w in zip(s_.names, g, s_.as_list()):
                if isinstance(w, float) and w != w:
                    continue
                if v != w or type(v) is not type(w) and not (isinstance(v, (int, float)) and isinstance(w, (int, float))):
                    return True, 'value-changed', 'column %s: wrote %r, sqlite holds %r' % (n, w, v)
        return False, None, None
    except Exception as e:
        return True, 'raises-%s' % type(e).__name__, repr(e)[:300]
    finally:
        shutil.rmtree(d, ignore_errors=True)


def oracle_subsets():
    """real save_catalog on every combination of source types present: exactly the files of the types present, with their rows"""
    import itertools
    cat = loader.real('catalogs')
    models = loader.real('models')
    d = tempfile.mkdtemp(prefix='c18t_', dir='/var/tmp')
    try:
        comps, isl, simp = make_catalog(models, False, 2)
        for k, present in enumerate(itertools.product((0, 1), repeat=3)):
            if not any(present):
                continue
            items = (comps if present[0] else []) + ([isl] if present[1] else []) + ([simp] if present[2] else [])
            fn = os.path.join(d, 'set%d.csv' % k)
            cat.save_catalog(fn, items)
            for suffix, pz, n in (('_comp', present[0], len(comps)), ('_isle', present[1], 1), ('_simp', present[2], 1)):
                p = os.path.join(d, 'set%d%s.csv' % (k, suffix))
                if bool(pz) != os.path.exists(p):
                    return True, 'type-file-%s' % ('missing' if pz else 'unexpected'), 'catalogue with (components, islands, simples) present = %s: file %s %s' % (present, os.path.basename(p), 'not written' if pz else 'written')
                if pz and len(cat.load_table(p)) != n:
                    return True, 'type-file-rows', '%s holds %d rows for %d sources' % (os.path.basename(p), len(cat.load_table(p)), n)
        return False, None, None
    except Exception as e:
        return True, 'raises-%s' % type(e).__name__, repr(e)[:300]
    finally:
        shutil.rmtree(d, ignore_errors=True)


def run(rep):
    cat, models = sym_mods()
    thorough = rep.tier == 'thorough'
    rep.assume('astropy Table / ascii / FITS writers and readers are cut in the symbolic runs and real in the replay oracle',
               'string lengths of ra_str (11) and dec_str (11 when non-finite, else 12) come from the formats decided in C17')
    rep.kernel('K-classify', functions=[FM + ':classify_catalog', F + ':write_catalog'], bounds='catalogues of 0-%d objects, the class of each object a solver variable over {SimpleSource, IslandSource, ComponentSource, a ComponentSource subclass, unrelated}' % (4 if thorough else 3),
               stubs=['isinstance() sees a solver-chosen class through __class__', 'astropy Table/ascii.write -> recorder'])
    plans = [(h_classify(cat, models, n), {}) for n in range(0, (5 if thorough else 4))]
    for st, res in core.explore_many(plans, workers=4):
        rep.stats(st)
        handle(rep, res, 'K-classify')
    rep.end_kernel()
    rep.kernel('K-fitscols', functions=[F + ':writeFITSTable'], bounds='tables of 1-3 rows; per row symbolic lengths of ra_str, dec_str (11 or 12), uuid and a free string column (0..64)',
               stubs=['astropy.io.fits -> Column recorder', 'strings -> objects of symbolic length'])
    for nrows in (1, 2, 3):
        st, res = explore(h_fitscols(cat, nrows, None))
        rep.stats(st)
        handle(rep, res, 'K-fitscols')
    rep.end_kernel()
    rep.kernel('K-sqlite', functions=[F + ':writeDB'], bounds='every non-empty subset of the three source types; the output file exists or not and holds any of the tables beforehand (solver variables)',
               stubs=['sqlite3 -> statement recorder, interpreted on a database whose old tables are Boolean variables', 'os.path.exists / os.remove -> symbolic file system', "SQLite's documented column-affinity rules"],
               outside=['sqlite3 itself (real in the oracle)'])
    sdone = False
    for st, res in core.explore_many([(h_sqlite(cat, models, pz), {}) for pz in ((1, 0, 0), (0, 1, 0), (0, 0, 1), (1, 1, 0), (1, 0, 1), (0, 1, 1), (1, 1, 1))], workers=4):
        rep.stats(st)
        for r in res:
            for ob in r['obligations']:
                rep.count(ob['result'], ob['name'])
                if ob['result'] == 'sat' and not sdone:
                    bad, cls, detail = oracle_sqlite()
                    if rep.finding('C18/K-sqlite/%s' % (cls or ob['name'].split(':')[-1]), dict(fmt='db'), detail or ob['name'], reproduced=bad) != 'not-reproduced':
                        sdone = True
        if res:
            rep.sample(dict(kernel='K-sqlite', paths=len(res), obligations=[(o['name'].split(':')[-1], o['result']) for o in res[0]['obligations']][:8]))
    bad, cls, detail = oracle_sqlite()
    rep.validated_runs(2)
    if bad:
        rep.finding('C18/K-sqlite/%s' % cls, dict(fmt='db'), detail)
    rep.end_kernel()
    rep.kernel('K-replay-oracle', functions=[F + ':save_catalog', F + ':load_table'], bounds='a 6-source mixed catalogue through real csv / fits / vot files, with and without a first row whose declination is undefined',
               assumes=['concrete executions: value fidelity is library behaviour, checked here only on one catalogue'])
    bad, cls, detail = oracle_subsets()
    rep.validated_runs(7)
    if bad:
        rep.finding('C18/K-classify/%s' % cls, dict(fmt='subsets'), detail)
    for fmt in ('fits', 'csv', 'vot'):
        for fnd in (False, True):
            bad, cls, detail = oracle(fmt, fnd)
            rep.validated_runs(1)
            if bad:
                rep.finding('C18/K-fitscols/%s' % cls if fmt == 'fits' else 'C18/K-io/%s' % cls, dict(fmt=fmt, first_nan_dec=fnd), detail)
    rep.end_kernel()
    rep.not_decided += ['numeric columns equal to full double precision for csv/tab/tex/VOTable (astropy)', 'sqlite3 itself (K-sqlite decides the statements writeDB issues; the library is real in the oracle only)', 'NaN preservation through each writer']


def handle(rep, res, kname):
    done = set()
    for r in res:
        for ob in r['obligations']:
            rep.count(ob['result'], ob['name'])
            if ob['result'] == 'sat' and ob['name'].split(':')[-1] not in done:
                bad, cls, detail = oracle('fits', True)
                if not bad:
                    bad, cls, detail = oracle('csv', False)
                wit_ = dict(fmt='fits', first_nan_dec=True)
                if not bad:
                    bad, cls, detail = oracle_subsets()
                    wit_ = dict(fmt='subsets')
                if rep.finding('C18/%s/%s' % (kname, cls or ob['name'].split(':')[-1]), wit_, detail or ob['name'], reproduced=bad) != 'not-reproduced':
                    done.add(ob['name'].split(':')[-1])
    if res:
        rep.sample(dict(kernel=kname, paths=len(res), obligations=[(o['name'].split(':')[-1], o['result']) for o in res[0]['obligations']][:8]))


def replay(w):
    wit = w['witness']
    if wit.get('fmt') == 'subsets':
        bad, cls, detail = oracle_subsets()
        return bad, '%s: %s' % (cls, detail)
    if wit.get('fmt') == 'db':
        bad, cls, detail = oracle_sqlite()
        return bad, '%s: %s' % (cls, detail)
    bad, cls, detail = oracle(wit.get('fmt', 'fits'), bool(wit.get('first_nan_dec', True)))
    return bad, '%s: %s' % (cls, detail)


if __name__ == '__main__':
    main(sys.modules[__name__])
