"""C01 closed-loop recovery of an injected Gaussian (partial: the deterministic halves around the optimiser).
The optimiser, island detection on a rendered image and BANE cannot be encoded; the numeric tolerances of the
statement are NOT decided. Decided are necessary conditions that the classic convention errors break:
K-forward : the real ntwodgaussian_lmfit / do_lmfit residual: the model is the sum of rotated Gaussians in sigma
            units, theta CCW from the first (row) axis in degrees, and the residual at the injected parameters is
            identically zero (also after whitening), so the truth is a global minimiser of what the optimiser sees
K-backward: the real result_to_components (+ fix_shape, pa_limit, pix2sky_ellipse, get_beamarea_pix) on a symbolic
            fitted model: FITS 1-based position, FWHM = sigma*2sqrt(2ln2)*scale, PA East of North in (-90,90],
            a >= b, peak = amp, int_flux = peak*a*b/(psf_a*psf_b)
The Jacobian handed to the optimiser is C04; rendering/subtraction is C14; pixel<->sky conversion is C16."""
import math
import os
import shutil
import sys
import tempfile

import numpy as real_np
import z3

from symx import core, loader, nz, slicer
from symx.core import SN, SB, real, angle_deg, explore
from symx.report import main
from checks import C16, r2c

PID = 'C01'
F = 'AegeanTools/source_finder.py'
FF = 'AegeanTools/fitting.py'


def oracle_exponent(x, y, P):
    amp, xo, yo, sx, sy, th = P
    co, si = th.radians()._cs()
    dx, dy = core.lift(x) - xo.e, core.lift(y) - yo.e
    u = dx * co + dy * si
    v = dx * si - dy * co
    return -(u * u / (sx.e * sx.e) + v * v / (sy.e * sy.e)) / 2


def h_forward(mods, n, withB):
    fit = mods['fitting']

    def h(c):
        model = r2c.Model()
        model['components'] = r2c.Par(n, False)
        P = []
        for j in range(n):
            ps = []
            for nm in r2c.NAMES:
                v = angle_deg('c%d_%s' % (j, nm)) if nm == 'theta' else real('c%d_%s' % (j, nm))
                model['c%d_%s' % (j, nm)] = r2c.Par(v)
                ps.append(v)
            c.assume(ps[3].e > 0)
            c.assume(ps[4].e > 0)
            P.append(ps)
        npix = 2
        xs = real_np.array([real('x%d' % k) for k in range(npix)], dtype=object)
        ys = real_np.array([real('y%d' % k) for k in range(npix)], dtype=object)
        f = fit.ntwodgaussian_lmfit(model)
        out = f(xs, ys)
        tag = 'forward[n=%d]' % n
        c.oblige(tag + ':one value per pixel', z3.BoolVal(getattr(out, 'shape', None) == (npix,)))
        for k in range(npix):
            val = core.lift(out[k])
            used = [(nm, E, g) for nm, (E, g) in c.exps.items() if nm in core.vars_of(val)]
            c.oblige(tag + ':pixel %d is a sum of one exponential per component' % k, z3.BoolVal(len(used) == n))
            if len(used) != n:
                continue
            # match exponentials to components by exponent identity
            total = None
            for j in range(n):
                g_or = oracle_exponent(xs[k], ys[k], P[j])
                Eor = SN(g_or).exp()
                t = P[j][0].e * Eor.e
                total = t if total is None else total + t
            r2c.ident(c, tag + ':pixel %d == sum_j amp_j exp(-(u^2/sx^2 + v^2/sy^2)/2), theta CCW from the first axis in degrees' % k, val, total)
        # the residual the optimiser sees: zero at the injected parameters, also after whitening
        captured = {}

        class LM:
            @staticmethod
            def minimize(residual, params, kws=None, Dfun=None, **kw):
                captured['residual'] = residual
                captured['Dfun'] = Dfun
                raise core.Cut()
        fit.lmfit = LM
        data = real_np.empty((1, npix), dtype=object)
        for k in range(npix):
            data[0, k] = out[k]           # a noise-free image of exactly this model
        B = None
        if withB:
            B = real_np.empty((npix, npix), dtype=object)
            for a in range(npix):
                for b in range(npix):
                    B[a, b] = real('B_%d_%d' % (a, b))
        # the model is evaluated by do_lmfit at the pixel indices of the finite data; use a 1 x npix image at (0, k)
        model2 = r2c.Model()
        model2['components'] = r2c.Par(n, False)
        for j in range(n):
            for nm, v in zip(r2c.NAMES, P[j]):
                model2['c%d_%s' % (j, nm)] = r2c.Par(v)
        f2 = fit.ntwodgaussian_lmfit(model2)
        img = real_np.empty((1, npix), dtype=object)
        vals = f2(real_np.zeros(npix, dtype=int), real_np.arange(npix))
        for k in range(npix):
            img[0, k] = vals[k]
        try:
            fit.do_lmfit(img, model2, B=B)
        except core.Cut:
            pass
        finally:
            import lmfit as real_lmfit
            fit.lmfit = real_lmfit
        ok = 'residual' in captured
        c.oblige(tag + ':do_lmfit hands a residual function and the analytic Jacobian to lmfit.minimize', z3.BoolVal(ok and captured.get('Dfun') is fit.lmfit_jacobian))
        if ok:
            res = captured['residual'](model2)
            c.oblige(tag + (':whitened' if withB else '') + ' residual is identically zero at the injected parameters', z3.And([core.lift(r) == 0 for r in real_np.asarray(res, dtype=object).ravel()]))
        return dict()
    return h


def h_backward(mods):
    def h(c):
        S = r2c.setup(c, mods, ncomp=1)
        sf = S['sf']
        V, fl, CC = S['V'], S['fl'], S['CC']
        sx, sy = V['c0_sx'], V['c0_sy']
        calls = []
        sf.fix_shape = lambda source: calls.append(('fix_shape', source.a, source.b, source.pa))
        sf.pa_limit = lambda pa: (calls.append(('pa_limit', pa)), pa)[1]
        XMIN, YMIN = 7, 11
        isl = mods['models'].IslandFittingData(3, i=None, scalars=(5, 4, None), offsets=(XMIN, XMIN + 9, YMIN, YMIN + 9), doislandflux=False)
        src, = S['finder'].result_to_components(r2c.Res(), S['model'], isl, 0)
        tag = 'backward'
        # FITS pixel: helper pixel (row, col) = (xo + xmin + 1, yo + ymin + 1); Flat takes (X=col, Y=row)
        row = V['c0_xo'].e + XMIN + 1
        col = V['c0_yo'].e + YMIN + 1
        (ra_o, dec_o), = fl.all_pix2world([[SN(col), SN(row)]], 1)
        wrapped = bool(SB(ra_o.e < 0))
        r2c.ident(c, tag + ':ra == sky position of the 1-based FITS pixel (col = yo+ymin+1, row = xo+xmin+1)%s' % (' + 360 when negative' if wrapped else ''), src.ra.e, ra_o.e + (360 if wrapped else 0))
        r2c.ident(c, tag + ':dec', src.dec.e, dec_o.e)
        r2c.ident(c, tag + ':peak_flux == amp', core.lift(src.peak_flux), V['c0_amp'].e)
        # fix_shape / pa_limit are decided on their own (C03 K-normalise); here: called once each, in this order, on the converted ellipse
        okc = [x[0] for x in calls] == ['fix_shape', 'pa_limit']
        c.oblige(tag + ':fix_shape then pa_limit applied once to the converted ellipse', z3.BoolVal(okc))
        if okc:
            _, a0, b0, pa0 = calls[0]
            r2c.ident(c, tag + ':axis from sx == sigma_x * 2sqrt(2ln2) * pixel scale * 3600 arcsec', a0.e, fl.k.e * sx.e * CC.e * 3600)
            r2c.ident(c, tag + ':axis from sy == sigma_y * 2sqrt(2ln2) * pixel scale * 3600 arcsec', b0.e, fl.k.e * sy.e * CC.e * 3600)
            # PA East of North of the sx axis: pixel direction theta pushed through the map
            th = V['c0_theta']
            cth, sth = th.radians()._cs()
            dX, dY = sth, cth                  # helper (row, col) vector (cos, sin) -> FITS (X=col, Y=row)
            east = fl.k.e * (fl.crho * fl.sig.e * dX - fl.srho * dY)
            north = fl.k.e * (fl.srho * fl.sig.e * dX + fl.crho * dY)
            px_, py_ = core.direction(pa0, c)
            r2c.ident(c, tag + ':pa is the bearing East of North of the sx axis', px_ * east - py_ * north, z3.RealVal(0))
            c.oblige(tag + ':pa_limit receives the (possibly swapped) pa and its result is stored', z3.BoolVal(calls[1][1] is src.pa))
        pa, pb = S['psf']
        r2c.ident(c, tag + ':int_flux == peak * a * b / (psf_a * psf_b) (sky units)', core.lift(src.int_flux), V['c0_amp'].e * (src.a.e * src.b.e) / ((fl.k.e * pa.e * 3600) * (fl.k.e * pb.e * 3600)))
        c.oblige(tag + ':island and component numbers', z3.BoolVal(src.island == 3 and src.source == 0))
        return dict()
    return h


def h_bounds(fac):
    """the fit bounds on the two sigmas must not depend on which image axis the island is long in: sx/sy lie along/across
    theta (free over all angles), not along image rows/columns"""
    def h(c):
        xs, ys = core.integer('xsize'), core.integer('ysize')
        c.assume(xs.e >= 1)
        c.assume(ys.e >= 1)
        pa_, pb_ = real('pixbeam_a'), real('pixbeam_b')
        c.assume(pb_.e > 0)
        c.assume(pa_.e >= pb_.e)
        F2C = real('FWHM2CC')
        c.assume(F2C.e > z3.RealVal('0.42'))
        c.assume(F2C.e < z3.RealVal('0.43'))

        class Dat:
            def __init__(self, shape):
                self.shape = shape

        class PB:
            a, b, pa = pa_, pb_, real('pixbeam_pa')
        import math as real_math

        class M:
            @staticmethod
            def sqrt(v):
                return real_math.sqrt(v) if not isinstance(v, SN) else v.sqrt()
        g = dict(core.BUILTINS, FWHM2CC=F2C, math=M, np=loader.NPProxy())
        f = fac(g)
        b1 = f(Dat((xs, ys)), PB())
        b2 = f(Dat((ys, xs)), PB())
        names = ['sx_min', 'sx_max', 'sy_min', 'sy_max']
        c.oblige('bounds:the sigma bounds are the same for an island and its transpose', z3.And([core.lift(u) == core.lift(v) for u, v in zip(b1, b2)]))
        c.oblige('bounds:lower bounds below the psf, upper bounds above it', z3.And(core.lift(b1[0]) <= pb_.e * F2C.e, core.lift(b1[2]) <= pb_.e * F2C.e, core.lift(b1[1]) >= pa_.e * F2C.e, core.lift(b1[3]) >= pa_.e * F2C.e))
        return dict()
    return h


def h_ampbounds(fac, bpix):
    """the amplitude limits handed to the optimiser leave room for the true peak: for a beam-sized (or larger) source the
    brightest pixel is at most a factor 2**(2/b**2) below the peak (peak on a pixel corner, b = minor FWHM of the pixel beam),
    whatever the brightest pixel value, the local rms and the clip levels are"""
    from fractions import Fraction
    drop = Fraction(2.0 ** (2.0 / bpix ** 2)).limit_denominator(10 ** 9)

    def h(c):
        amp, rms, ic, oc = real('amp'), real('rms'), real('innerclip'), real('outerclip')
        c.assume(rms.e >= 0)
        c.assume(oc.e > 0)
        c.assume(ic.e >= oc.e)
        c.assume(amp.e != 0)

        class RmsImg:
            def __getitem__(self, k):
                return rms

        class PB:
            a, b, pa = bpix * 1.0, bpix * 1.0, 0.0
        f = fac(dict(core.BUILTINS, np=loader.NPProxy(), math=math))
        lo, hi = f(amp, PB(), RmsImg(), 3, 4, ic, oc)
        L = core.lift
        true_peak = amp.e * z3.RealVal(str(drop))
        tag = 'amp-bounds[beam %g px]' % bpix
        c.oblige(tag + ':the limits bracket the brightest pixel', z3.And(L(lo) <= amp.e, amp.e <= L(hi)))
        c.oblige(tag + ':the limits admit the peak of a corner-centred beam-sized source (brightest pixel x 2**(2/b**2))', z3.And(L(lo) <= true_peak, true_peak <= L(hi)))
        return dict()
    return h


# ------------------------------------------------------------------ replay oracle: the property's own closed loop (noise-free)
def closed_loop(seed=0, trials=3, elongated=None, docov=True):
    """inject an isolated Gaussian with a real WCS, run the real blind finder with forced bkg/rms, compare"""
    import logging
    import random
    from astropy.io import fits
    sfm = loader.real('source_finder')
    wh = loader.real('wcs_helpers')
    rng = random.Random(seed)
    d = tempfile.mkdtemp(prefix='c01_', dir='/var/tmp')
    try:
        for t in range(trials):
            proj = rng.choice(['SIN', 'TAN', 'ZEA', 'ARC', 'STG'])
            N = 96
            hdr = fits.Header()
            hdr['NAXIS'] = 2
            hdr['NAXIS1'] = hdr['NAXIS2'] = N
            hdr['CTYPE1'], hdr['CTYPE2'] = 'RA---' + proj, 'DEC--' + proj
            hdr['CRVAL1'], hdr['CRVAL2'] = rng.uniform(0, 360), rng.uniform(-75, 75)
            hdr['CRPIX1'] = hdr['CRPIX2'] = N / 2
            scale = rng.uniform(5, 20) / 3600
            hdr['CDELT1'], hdr['CDELT2'] = -scale, scale
            bm = 4.0 * scale
            hdr['BMAJ'], hdr['BMIN'], hdr['BPA'] = bm, bm, 0.0
            special = elongated if isinstance(elongated, dict) and t == 0 else None
            if elongated and t == 0 and not special:
                hdr['BMAJ'], hdr['BMIN'], hdr['BPA'] = bm * 1.05, bm, elongated[1]
            helper = wh.WCSHelper.from_header(hdr)
            r0, c0 = N / 2 + rng.uniform(-8, 8), N / 2 + rng.uniform(-8, 8)
            if special and special.get('corner'):
                # true peak on a pixel corner: as far from every pixel centre as it can be (helper coordinates are 1-based pixel centres)
                r0, c0 = math.floor(r0) + 0.5, math.floor(c0) + 0.5
            ra, dec = helper.pix2sky((r0 + 1, c0 + 1))
            a, b, pa = bm * rng.uniform(1.2, 2.0) * 3600, bm * rng.uniform(1.0, 1.15) * 3600, rng.uniform(-85, 85)
            if elongated and t == 0 and not special:
                a, b, pa = bm * 4.0 * 3600, bm * 1.0 * 3600, elongated[0]
            peak = rng.choice([1, -1]) * rng.uniform(5, 50)
            rmsv, clips = abs(peak) / 500.0, (10, 8)
            if special:
                # corners of the quantifier: clearly elongated sources off the pixel axes; resolved sources just above the seed clip
                a, b, pa = bm * special.get('ratio', 3.0) * 3600, bm * 1.0 * 3600, special.get('pa', 45.0)
                if special.get('snr'):
                    rmsv, clips = abs(peak) / special['snr'], (5, 4)
                if special.get('hisnr'):
                    rmsv, clips = abs(peak) / special['hisnr'], (10, 8)
                if special.get('beam_ratio'):
                    # elongated beam (BPA 0), source axes compared with the beam's axis by axis: a >= bmaj, b >= bmin
                    hdr['BMAJ'], hdr['BMIN'], hdr['BPA'] = bm * special['beam_ratio'], bm, 0.0
                    helper = wh.WCSHelper.from_header(hdr)
                    a, b = bm * special['beam_ratio'] * special.get('ratio', 1.5) * 3600, bm * special.get('minor', 1.05) * 3600
                if special.get('beam_pix'):
                    # beam sampling: FWHM of the (circular) beam in pixels
                    bm = special['beam_pix'] * scale
                    hdr['BMAJ'], hdr['BMIN'] = bm, bm
                    helper = wh.WCSHelper.from_header(hdr)
                    a, b = bm * special.get('ratio', 3.0) * 3600, bm * 1.0 * 3600
            xo, yo, sx, sy, th = helper.sky2pix_ellipse((ra, dec), a / 3600, b / 3600, pa)
            s = 2 * math.sqrt(2 * math.log(2))
            x, y = real_np.mgrid[0:N, 0:N].astype(float)
            tt = math.radians(th)
            u = (x - (xo - 1)) * math.cos(tt) + (y - (yo - 1)) * math.sin(tt)
            v = (x - (xo - 1)) * math.sin(tt) - (y - (yo - 1)) * math.cos(tt)
            img = peak * real_np.exp(-0.5 * ((u / (sx / s)) ** 2 + (v / (sy / s)) ** 2))
            fn = os.path.join(d, 'inj%d.fits' % t)
            fits.PrimaryHDU(img.astype(real_np.float64), header=hdr).writeto(fn, overwrite=True)
            finder = sfm.SourceFinder(log=logging.getLogger('c01'))
            srcs = finder.find_sources_in_image(fn, rms=rmsv, bkg=0.0, nonegative=False, cores=1, innerclip=clips[0], outerclip=clips[1], docov=docov)
            if len(srcs) != 1:
                # independent look at the injected image: how many pixels are maxima of their 3x3 neighbourhood above the flood clip?
                # (a sampled ridge at an angle to the pixel axes can have more than one, although the Gaussian has a single maximum)
                ai = abs(img)
                nmax = int(sum(1 for i in range(1, N - 1) for j in range(1, N - 1) if ai[i, j] > clips[1] * rmsv and ai[i, j] >= ai[i - 1:i + 2, j - 1:j + 2].max()))
                cls = 'component-count'
                if nmax > 1 and len(srcs) == nmax:
                    cls = 'component-per-pixel-maximum'
                return True, cls, '%d components for one injected Gaussian (%s, peak %.2f, a %.2f", b %.2f", pa %.1f, %.2f"/pixel; the sampled image has %d pixel(s) that are 3x3 maxima)' % (len(srcs), proj, peak, a, b, pa, scale * 3600, nmax)
            g = srcs[0]
            px = helper.sky2pix((g.ra, g.dec))
            dpix = math.hypot(px[0] - (r0 + 1), px[1] - (c0 + 1))
            dpa = abs(((g.pa - pa + 90) % 180) - 90)
            intf = peak * a * b / ((hdr['BMAJ'] * 3600) * (hdr['BMIN'] * 3600))
            errs = dict(position_pix=dpix, peak=abs(g.peak_flux / peak - 1), a=abs(g.a / a - 1), b=abs(g.b / b - 1), pa_deg=dpa, int_flux=abs(g.int_flux / intf - 1))
            lim = dict(position_pix=0.02, peak=1e-3, a=5e-3, b=5e-3, pa_deg=0.5, int_flux=1e-2)
            for k in errs:
                if errs[k] > lim[k]:
                    return True, 'recovery:' + k, 'injected (%s proj, dec0 %.1f, peak %.2f, a %.2f", b %.2f", pa %.1f): recovered %s off by %.4g (limit %g); all %s' % (proj, hdr['CRVAL2'], peak, a, b, pa, k, errs[k], lim[k], {q: round(w, 5) for q, w in errs.items()})
        return False, None, None
    except Exception as e:
        return True, 'raises-%s' % type(e).__name__, repr(e)[:300]
    finally:
        shutil.rmtree(d, ignore_errors=True)


def forced_rms_oracle():
    """option set 'noise forced, background estimated internally': a source on a constant pedestal; the pedestal must be found
    and removed (reported background ~ pedestal, peak ~ injected)"""
    import logging
    from astropy.io import fits
    sfm = loader.real('source_finder')
    d = tempfile.mkdtemp(prefix='c01f_', dir='/var/tmp')
    try:
        N = 56
        rng = real_np.random.default_rng(8)
        y, x = real_np.mgrid[0:N, 0:N].astype(float)
        ped, peak = 0.03, 1.0
        img = peak * real_np.exp(-((y - 28.3) ** 2 / (2 * 3.4 ** 2) + (x - 27.6) ** 2 / (2 * 2.6 ** 2))) + ped + rng.normal(0, 1e-4, (N, N))
        hdr = fits.Header()
        hdr['CTYPE1'], hdr['CTYPE2'] = 'RA---SIN', 'DEC--SIN'
        hdr['CRVAL1'], hdr['CRVAL2'] = 30., -40.
        hdr['CRPIX1'] = hdr['CRPIX2'] = N / 2
        hdr['CDELT1'], hdr['CDELT2'] = -1 / 360, 1 / 360
        hdr['BMAJ'] = hdr['BMIN'] = 5.0 / 360
        hdr['BPA'] = 0.0
        fn = os.path.join(d, 'p.fits')
        fits.PrimaryHDU(img.astype(real_np.float64), header=hdr).writeto(fn)
        out = {}
        for label, kw in (('both forced', dict(rms=2e-3, bkg=ped)), ('noise forced, background internal', dict(rms=2e-3))):
            f = sfm.SourceFinder(log=logging.getLogger('c01'))
            srcs = f.find_sources_in_image(fn, cores=1, innerclip=10, outerclip=8, docov=False, max_summits=3, **kw)
            if len(srcs) != 1:
                return True, 'forced-rms-count', '%s: %d components for one source on a pedestal' % (label, len(srcs))
            out[label] = srcs[0]
        a, b = out['both forced'], out['noise forced, background internal']
        if abs(b.background - ped) > 0.3 * ped or abs(b.peak_flux / a.peak_flux - 1) > 0.02 or abs(b.a / a.a - 1) > 0.03:
            return True, 'forced-rms-background', 'source on a pedestal of %.3f: with the noise forced and the background left to Aegean the reported background is %.4f, peak %.4f (both forced: %.4f), a %.2f (both forced: %.2f)' % (ped, b.background, b.peak_flux, a.peak_flux, b.a, a.a)
        return False, None, None
    except Exception as e:
        return True, 'raises-%s' % type(e).__name__, repr(e)[:300]
    finally:
        shutil.rmtree(d, ignore_errors=True)


def run(rep):
    mods = r2c.sym_sf()
    thorough = rep.tier == 'thorough'
    rep.assume('floats as reals', 'conformal first-order WCS (scale, rotation, handedness, reference all symbolic); projection distortion outside',
               'CC2FHWM / FWHM2CC replaced by a symbolic constant CC in (2,3) with FWHM2CC = 1/CC; their numeric value is checked separately')
    rep.kernel('K-constants', functions=[F], bounds='module constants')
    sfr = loader.real('source_finder')
    okc = abs(sfr.CC2FHWM - 2 * math.sqrt(2 * math.log(2))) < 1e-14 and abs(sfr.FWHM2CC * sfr.CC2FHWM - 1) < 1e-15
    rep.count('unsat' if okc else 'sat', 'constant:CC2FHWM == 2 sqrt(2 ln 2) and FWHM2CC == 1/CC2FHWM')
    if not okc:
        bad, cls, detail = closed_loop(1, 2)
        rep.finding('C01/K-constants/fwhm-sigma', dict(seed=1), detail or 'CC2FHWM = %r' % sfr.CC2FHWM, reproduced=bad)
    rep.end_kernel()
    rep.kernel('K-forward', functions=[FF + ':ntwodgaussian_lmfit', FF + ':elliptical_gaussian', FF + ':do_lmfit'], bounds='1-%d components, 2 symbolic pixels, all real parameters with sx, sy > 0; symbolic whitening matrix' % (3 if thorough else 2),
               stubs=['lmfit.Parameters -> record class', 'lmfit.minimize -> cut capturing the residual function and Dfun'],
               outside=['the optimiser (MINPACK): convergence to the minimiser, the numeric tolerances of the statement'])
    plans = []
    for n in ((1, 2, 3) if thorough else (1, 2)):
        for wb in (False, True):
            plans.append((h_forward(mods, n, wb), dict(wall_s=600)))
    done = False
    for h, kw in plans:
        st, res = explore(h, **kw)
        rep.stats(st)
        done = handle(rep, res, 'K-forward', done)
    rep.end_kernel()
    rep.kernel('K-backward', functions=[F + ':SourceFinder.result_to_components', F + ':fix_shape', F + ':pa_limit', 'AegeanTools/wcs_helpers.py:WCSHelper.pix2sky_ellipse', 'AegeanTools/wcs_helpers.py:WCSHelper.get_beamarea_pix'],
               bounds='one fitted component with all parameters symbolic, island offsets (7, 11), conformal WCS; fix_shape / pa_limit cut here (recorded) and decided in C03 K-normalise',
               stubs=['bkg/rms images -> opaque reads', 'np.median/std of the residual -> symbols', 'dec2hms/dec2dms -> constants (C17)', 'errors() real (its outputs are C03)'],
               outside=['projection distortion', 'psf maps'])
    st, res = explore(h_backward(mods), wall_s=900)
    rep.stats(st)
    done = handle(rep, res, 'K-backward', done)
    rep.end_kernel()
    # the derivatives handed to the optimiser (decided in full in C04): here one component, all 64 free-parameter subsets
    from checks import C04
    import random
    rep.kernel('K-jacobian', functions=[FF + ':jacobian', FF + ':elliptical_gaussian'], bounds='one component, one symbolic pixel, all 64 subsets of free parameters (the full kernel is C04 K-rows)',
               assumes=['oracle: chain-rule derivative of the term produced by executing the real model function'])
    fit4 = C04.sym_fitting()
    st, res = explore(C04.h_rows(fit4, 1, [0], ['all']))
    rep.stats(st)
    jdone = False
    for r in res:
        for ob in r['obligations']:
            rep.count(ob['result'], ob['name'])
            if ob['result'] == 'sat' and not jdone:
                rng = random.Random(rep.seed)
                free = (r['out'] or {}).get('free', [])
                vary = [{p: ((0, p) in free) for p in C04.NAMES}]
                bad, cls, detail = C04.num_jac_check(C04.default_vals(1, rng), 1, vary)
                if not bad:
                    bad, cls, detail = C04.num_jac_check(C04.default_vals(1, rng), 1, [{p: True for p in C04.NAMES}])
                if rep.finding('C01/K-jacobian/%s' % (cls or 'row'), dict(jacobian=True), detail or ob['name'], reproduced=bad) != 'not-reproduced':
                    jdone = True
    rep.end_kernel()
    rep.kernel('K-bounds', functions=[F + ':SourceFinder.estimate_lmfit_parinfo'], bounds='all island sizes xsize, ysize >= 1 and pixel beams a >= b > 0; amplitude limits: all brightest-pixel values of either sign, rms >= 0, innerclip >= outerclip > 0, circular pixel beams of 2.5, 3, 4, 5, 6, 8, 16 pixels FWHM',
               assumes=['slice: the statements assigning sx_min/sx_max/sy_min/sy_max (backward-closed)', 'adequacy of the bounds for every source is NOT decided; only that they do not depend on the image axis the island is long in'])
    try:
        fac, text = slicer.slice_function(F, 'estimate_lmfit_parinfo', targets=['sx_min', 'sx_max', 'sy_min', 'sy_max'], params=['data', 'pixbeam'], cls='SourceFinder',
                                          returns=['sx_min', 'sx_max', 'sy_min', 'sy_max'], flatten_loops=True)
        st, res = explore(h_bounds(fac))
        rep.stats(st)
        for r in res:
            for ob in r['obligations']:
                rep.count(ob['result'], ob['name'])
                if ob['result'] == 'sat':
                    bad, cls, detail = None, None, None
                    for el in ((0.0, 90.0), (90.0, 0.0), (90.0, 45.0), (0.0, 45.0)):
                        bad, cls, detail = closed_loop(5, 1, elongated=el)
                        if bad:
                            break
                    rep.finding('C01/K-bounds/%s' % (cls or ob['name'].split(':')[-1]), dict(seed=5, elongated=list(el)), detail or ob['name'], reproduced=bool(bad))
            rep.sample(dict(kernel='K-bounds', slice=text[:700], obligations=[(o['name'], o['result']) for o in r['obligations']]))
    except slicer.AnchorMissing as e:
        rep.inconc('anchor-missing %s' % e)
    try:
        fac2, text2 = slicer.slice_function(F, 'estimate_lmfit_parinfo', targets=['amp_min', 'amp_max'], params=['amp', 'pixbeam', 'rmsimg', 'xo', 'yo', 'innerclip', 'outerclip'], cls='SourceFinder',
                                            returns=['amp_min', 'amp_max'], flatten_loops=True)
        adone = False
        for bpix in (2.5, 3.0, 4.0, 5.0, 6.0, 8.0, 16.0):
            st, res = explore(h_ampbounds(fac2, bpix))
            rep.stats(st)
            for r in res:
                for ob in r['obligations']:
                    rep.count(ob['result'], ob['name'])
                    if ob['result'] == 'sat' and not adone:
                        bad, cls, detail = None, None, None
                        for hs in (500.0, 5000.0, 50000.0):
                            sp = dict(pa=30.0, ratio=1.3, corner=True, hisnr=hs, beam_pix=max(3.0, bpix))
                            bad, cls, detail = closed_loop(11, 1, elongated=sp)
                            if bad:
                                break
                        if rep.finding('C01/K-bounds/amplitude-limit(beam=%gpx):%s' % (bpix, cls or 'admits-peak'), dict(seed=11, special=sp), detail or ob['name'], reproduced=bool(bad)) != 'not-reproduced':
                            adone = True
            if res:
                rep.sample(dict(kernel='K-bounds', beam_pix=bpix, slice=text2[:500], obligations=[(o['name'], o['result']) for o in res[0]['obligations']]))
    except slicer.AnchorMissing as e:
        rep.inconc('anchor-missing %s' % e)
    rep.end_kernel()
    bad, cls, detail = closed_loop(rep.seed, 3)
    rep.validated_runs(3)
    if bad:
        rep.finding('C01/K-closed-loop/%s' % cls, dict(seed=rep.seed), detail)
    for el in ((0.0, 90.0), (90.0, 0.0)):
        bad, cls, detail = closed_loop(5, 1, elongated=el)
        rep.validated_runs(1)
        if bad:
            rep.finding('C01/K-closed-loop/%s' % cls, dict(seed=5, elongated=list(el)), detail)
    bad, cls, detail = forced_rms_oracle()
    rep.validated_runs(2)
    if bad:
        rep.finding('C01/K-closed-loop/%s' % cls, dict(forced_rms=True), detail)
    # corners of the quantifier: elongated sources off the pixel axes; resolved sources just above the seed clip
    for name, sp, sd in (('diagonal', dict(pa=45.0, ratio=3.0), 5), ('diagonal', dict(pa=-40.0, ratio=3.5), 6), ('faint-resolved-5.8-sigma', dict(pa=0.0, ratio=3.0, snr=5.8), 5),
                         ('faint-resolved-5.6-sigma', dict(pa=0.0, ratio=3.0, snr=5.6), 5)):
        bad, cls, detail = closed_loop(sd, 1, elongated=sp)
        rep.validated_runs(1)
        if bad:
            rep.finding('C01/K-closed-loop/%s:%s' % (name, cls), dict(seed=sd, special=sp), detail)
    # beam-sized sources whose true peak lies on a pixel corner, coarse to fine beam sampling, high signal to noise: the brightest
    # pixel is then up to 2**(2/b**2) below the peak (b = beam FWHM in pixels) and the fit needs room for that
    for bp in (3.0, 4.0, 5.0, 6.0):
        for hs in (500.0, 5000.0):
            sp = dict(pa=30.0, ratio=1.3, corner=True, hisnr=hs, beam_pix=bp)
            bad, cls, detail = closed_loop(11, 1, elongated=sp)
            rep.validated_runs(1)
            if bad:
                rep.finding('C01/K-closed-loop/corner-centred(beam=%gpx,snr=%g):%s' % (bp, hs, cls), dict(seed=11, special=sp), detail)
    # elongated beams: sources across, along and oblique to the beam whose minor axis is narrower than the beam's major axis
    for br in (1.3, 1.6, 2.0):
        for spa in (90.0, 75.0, 0.0, 45.0):
            sp = dict(pa=spa, ratio=1.5, minor=1.05, beam_ratio=br)
            bad, cls, detail = closed_loop(12, 1, elongated=sp)
            rep.validated_runs(1)
            if bad:
                rep.finding('C01/K-closed-loop/elongated-beam(ratio=%g,source pa=%g):%s' % (br, spa, cls), dict(seed=12, special=sp), detail)
    # orientation x axis-ratio sweep (every 15 degrees); thorough: more ratios and positions, and many random injections
    ratios, seeds = ((1.5, 2.5, 3.0, 3.5, 4.0), (5, 6, 7, 8, 9)) if thorough else ((1.5, 2.5, 3.5), (5, 6, 7))
    for pa_ in range(-90, 90, 15):
        for ratio in ratios:
            for sd in seeds:
                sp = dict(pa=float(pa_), ratio=ratio)
                bad, cls, detail = closed_loop(sd, 1, elongated=sp)
                rep.validated_runs(1)
                if bad:
                    name = 'sampled-ridge' if cls == 'component-per-pixel-maximum' else 'sweep(pa=%d,ratio=%.1f,seed=%d)' % (pa_, ratio, sd)
                    rep.finding('C01/K-closed-loop/%s:%s' % (name, cls), dict(seed=sd, special=sp), detail)
    if thorough:
        for sd in range(1000 * rep.seed, 1000 * rep.seed + 300):
            docov = sd % 2 == 0
            bad, cls, detail = closed_loop(sd, 3, docov=docov)
            rep.validated_runs(3)
            if bad:
                rep.finding('C01/K-closed-loop/random(seed=%d,docov=%s):%s' % (sd, docov, cls), dict(seed=sd, trials=3, docov=docov), detail)
    rep.not_decided += ['the closed loop itself (optimiser convergence, island detection on the rendered image): exercised only by the noise-free replay oracle on a few random injections',
                        'noise case (within 5 reported standard errors)', 'internally estimated background/noise (BANE)', 'adequacy of the parameter bounds of estimate_lmfit_parinfo']


def handle(rep, res, kname, done):
    for r in res:
        for ob in r['obligations']:
            rep.count(ob['result'], ob['name'])
            if ob['result'] == 'sat' and not done:
                bad, cls, detail = closed_loop(3, 4)
                if rep.finding('C01/%s/%s' % (kname, cls or ob['name'].split(':')[-1]), dict(seed=3, obligation=ob['name']), detail or ob['name'], reproduced=bad) != 'not-reproduced':
                    done = True
        if r['status'] == 'ok' and r['obligations']:
            rep.sample(dict(kernel=kname, obligations=[(o['name'].split(':', 1)[-1][:70], o['result'], o.get('normaliser', '')[:30]) for o in r['obligations']][:10]))
    return done


def replay(w):
    if w['witness'].get('jacobian'):
        from checks import C04
        import random
        bad, cls, detail = C04.num_jac_check(C04.default_vals(1, random.Random(1)), 1, [{p: True for p in C04.NAMES}])
        return bad, '%s: %s' % (cls, detail)
    if w['witness'].get('forced_rms'):
        bad, cls, detail = forced_rms_oracle()
        return bad, '%s: %s' % (cls, detail)
    if w['witness'].get('special'):
        bad, cls, detail = closed_loop(int(w['witness'].get('seed', 5)), 1, elongated=dict(w['witness']['special']))
        return bad, '%s: %s' % (cls, detail)
    if w['witness'].get('elongated'):
        bad, cls, detail = closed_loop(int(w['witness'].get('seed', 5)), 1, elongated=tuple(w['witness']['elongated']))
        return bad, '%s: %s' % (cls, detail)
    bad, cls, detail = closed_loop(int(w['witness'].get('seed', 3)), int(w['witness'].get('trials', 4)), docov=bool(w['witness'].get('docov', True)))
    return bad, '%s: %s' % (cls, detail)


if __name__ == '__main__':
    main(sys.modules[__name__])
