"""shared harness: the real SourceFinder.result_to_components on a symbolic fitted model (used by C01, C03, C05).
Private package copy, record Params, opaque bkg/rms images, conformal first-order WCS (checks.C16.Flat), the
named float constants CC2FHWM / FWHM2CC replaced by a symbolic constant with their defining relation."""
import numpy as real_np
import z3

from symx import core, loader, nz
from symx.core import SN, SB, real, angle_deg
from checks import C16

F = 'AegeanTools/source_finder.py'
NAMES = ['amp', 'xo', 'yo', 'sx', 'sy', 'theta']


class Par:
    def __init__(self, value, vary=True, stderr=None):
        self.value = value
        self.vary = vary
        self.stderr = stderr
        self.min = None
        self.max = None

    def set(self, value=None, max=None, min=None, vary=None):
        if value is not None:
            self.value = value
        if max is not None:
            self.max = max

    def __deepcopy__(self, memo):
        p = Par(self.value, self.vary, self.stderr)
        return p


class Model(dict):
    def add(self, name, value=None, vary=True, min=None, max=None):
        self[name] = Par(value, vary)
        self[name].min, self[name].max = min, max


class Opaque:
    """an image whose reads return fresh symbolic values"""
    def __init__(self, name, shape=(64, 64)):
        self.name = name
        self.shape = shape
        self.reads = []

    def __getitem__(self, i):
        if isinstance(i, tuple) and all(isinstance(x, slice) for x in i):
            o = Opaque(self.name, self.shape)
            o.reads = self.reads
            return o
        self.reads.append(i)
        return real('%s_at_%d' % (self.name, len(self.reads)))


class Res:
    residual = real_np.array([0.0, 0.0])


class NPf(loader.NPProxy):
    def median(self, a):
        return real('res_median')

    def std(self, a, *args, **kw):
        if isinstance(a, real_np.ndarray) and a.dtype != object:
            return real('res_std')
        return loader.NPProxy.std(self, a, *args, **kw)


def sym_sf():
    mods = loader.load_private(['angle_tools', 'wcs_helpers', 'fitting', 'models', 'source_finder'])
    sf, wh, fit, at = mods['source_finder'], mods['wcs_helpers'], mods['fitting'], mods['angle_tools']
    for m in (sf, wh, fit, at):
        loader.patch(m, np=NPf(sym_pi=True))
    sf.dec2hms = lambda x: 'HMS'
    sf.dec2dms = lambda x: 'DMS'
    return mods


def setup(c, mods, ncomp=1, stderr_mode=None, cut_errors=True):
    """returns dict with finder, model, helper, variables"""
    sf, wh, fit = mods['source_finder'], mods['wcs_helpers'], mods['fitting']
    CC = real('CC')
    c.assume(CC.e > 2)
    c.assume(CC.e < 3)
    sf.CC2FHWM = CC
    sf.FWHM2CC = 1 / CC
    fl = C16.Flat(c)
    C16.install_flat(wh, fl)
    fit.gcd, fit.bear = wh.gcd, wh.bear
    helper = wh.WCSHelper.__new__(wh.WCSHelper)
    helper.wcs = fl
    helper.ra_dec_order = True
    helper.psf_file = None
    helper.refpix = (100.0, 80.0)
    helper.pixscale = (-0.001, 0.001)
    helper.beam = None
    pa_, pb_ = real('psfa'), real('psfb')
    c.assume(pa_.e > 0)
    c.assume(pb_.e > 0)
    helper._psf_a, helper._psf_b, helper._psf_theta = pa_, pb_, angle_deg('psft')
    model = Model()
    model['components'] = Par(ncomp, False)
    V = {}
    for j in range(ncomp):
        for n in NAMES:
            nm = 'c%d_%s' % (j, n)
            v = angle_deg(nm) if n == 'theta' else real(nm)
            V[nm] = v
            model[nm] = Par(v, True)
            e = real('e_' + nm)
            c.assume(e.e > 0)
            model[nm].stderr = e
            V['e_' + nm] = e
        model['c%d_flags' % j] = Par(0, False)
        c.assume(V['c%d_sx' % j].e > 0)
        c.assume(V['c%d_sy' % j].e > 0)
    if cut_errors:
        sf.errors = lambda source, model, wcshelper: source      # fitting.errors is decided separately (C03 K-errors)
    else:
        sf.errors = fit.errors

    class LB:
        a, b, pa = real('lb_a'), real('lb_b'), real('lb_pa')
    helper.get_skybeam = lambda ra, dec: LB()
    finder = sf.SourceFinder(log=loader.NullLog())
    gd = finder.global_data
    gd.rmsimg = Opaque('rms')
    gd.bkgimg = Opaque('bkg')
    gd.wcshelper = helper
    gd.psfhelper = helper
    gd.blank = False
    return dict(finder=finder, model=model, helper=helper, fl=fl, V=V, CC=CC, psf=(pa_, pb_), sf=sf, fit=fit, wh=wh)


POS = C16.POS + ['CC', 'psfa', 'psfb', 'c0_sx', 'c0_sy', 'c1_sx', 'c1_sy']


def ident(c, name, lhs, rhs, **kw):
    return nz.identity(c, name, lhs, rhs, positive=POS, unit=['sig'], **kw)
