"""C14 AeRes model images are the catalogue's Gaussians (partial: the deterministic rendering kernel).
The real AeRes.make_model runs with sky2pix_ellipse stubbed to return symbolic pixel-frame ellipse parameters;
box corners are concretised by bounded case split; every pixel value is compared with the oracle Gaussian."""
import math
from fractions import Fraction
import sys

import numpy as real_np
import z3

from symx import core, loader, nz
from symx.core import SN, SB, real, angle_deg, explore
from symx.report import main

PID = 'C14'
F = 'AegeanTools/AeRes.py'
TRUE_F2C = 1 / (2 * math.sqrt(2 * math.log(2)))


class NP(loader.NPProxy):
    def zeros(self, shape, dtype=None):
        a = real_np.empty(shape, dtype=object)
        a[...] = 0.0
        return a


def sym_aeres():
    mods = loader.load_private(['fitting', 'AeRes'])
    ae, fit = mods['AeRes'], mods['fitting']
    loader.patch(fit)
    loader.patch(ae, np=NP())
    const = ae.FWHM2CC
    return ae, fit, const


class Src:
    def __init__(self, k):
        self.ra, self.dec = real('ra%d' % k), real('dec%d' % k)
        self.a, self.b, self.pa = real('a%d' % k), real('b%d' % k), real('pa%d' % k)
        self.peak_flux = real('peak%d' % k)
        self.local_rms = real('lrms%d' % k)
        self.island, self.source = k, 0


class WH:
    def __init__(self, n):
        self.P = [(real('XO%d' % k), real('YO%d' % k), real('SX%d' % k), real('SY%d' % k), angle_deg('TH%d' % k)) for k in range(n)]
        self.calls = []
        self.srcs = None

    def _which(self, pos):
        if self.srcs is not None:
            for k, s_ in enumerate(self.srcs):
                if pos[0] is s_.ra:
                    return k
        return len(self.calls)

    def sky2pix_ellipse(self, pos, a, b, pa):
        k = self._which(pos)
        self.calls.append((pos, a, b, pa))
        return self.P[k]

    def sky2pix(self, pos):
        # the pixel position of the source alone (1-based, as sky2pix_ellipse reports it)
        k = self._which(pos)
        return [self.P[k][0], self.P[k][1]]


def oracle_exponent(c, P, i, j, F2C):
    XO, YO, SX, SY, TH = P
    cs = TH.radians()._cs()
    co, si = cs
    dx = i - (XO.e - 1)
    dy = j - (YO.e - 1)
    u = dx * co + dy * si
    v = dx * si - dy * co
    sgx = SX.e * F2C
    sgy = SY.e * F2C
    return -(u * u / (sgx * sgx) + v * v / (sgy * sgy)) / 2


def split_terms(c, val):
    """a rendered pixel is 0.0 + sum_k peak_k * E_k: return {E name: coefficient term} by differentiating wrt each E"""
    e = core.lift(val)
    out = {}
    for nm, (E, g) in c.exps.items():
        if nm in core.vars_of(e):
            out[nm] = (E, g)
    return out


def h_single(ae, R, C, bigbox, F2C_sym):
    def h(c):
        c.index_range = (-1, max(R, C) + 1)
        F2C = real('FWHM2CC')
        c.assume(F2C.e > z3.RealVal('0.42'))
        c.assume(F2C.e < z3.RealVal('0.43'))
        ae.FWHM2CC = F2C
        wh = WH(1)
        XO, YO, SX, SY, TH = wh.P[0]
        c.assume(SX.e > 0)
        c.assume(SY.e > 0)
        if bigbox:
            c.assume(SX.e >= 4 * max(R, C))
            c.assume(SY.e >= 4 * max(R, C))
        else:
            c.assume(SX.e <= z3.RealVal('3/10'))
            c.assume(SY.e <= z3.RealVal('3/10'))
            c.assume(SX.e >= z3.RealVal('1/10'))
            c.assume(SY.e >= z3.RealVal('1/10'))
        src = Src(0)
        tag = 'make_model[%dx%d,%s]' % (R, C, 'box covers image' if bigbox else 'small source')
        try:
            m = ae.make_model([src], (R, C), wh)
        except (core.Unsupported, core.HarnessError, core.Cut):
            raise
        except Exception as e:
            c.oblige(tag + ':completes without exception', z3.BoolVal(False), info=repr(e))
            return dict(raised=repr(e))
        call = wh.calls[0]
        c.oblige(tag + ':sky2pix_ellipse gets (ra,dec), a/3600, b/3600, pa', z3.And(
            z3.BoolVal(call[0][0] is src.ra and call[0][1] is src.dec),
            core.lift(call[1]) * 3600 == src.a.e, core.lift(call[2]) * 3600 == src.b.e, z3.BoolVal(call[3] is src.pa)))
        rendered = [(i, j) for i in range(R) for j in range(C) if isinstance(m[i, j], SN)]
        onimg = z3.And(XO.e >= z3.RealVal('1/2'), XO.e < R + z3.RealVal('1/2'), YO.e >= z3.RealVal('1/2'), YO.e < C + z3.RealVal('1/2'))
        if not rendered:
            # skipped (or an empty box): the centre must be off the image
            c.oblige(tag + ':a source is skipped only if its centre is off the image', z3.Not(onimg))
            return dict(skipped=True)
        # rendered pixel values
        for (i, j) in rendered:
            val = m[i, j]
            ts = split_terms(c, val)
            if len(ts) != 1:
                c.oblige(tag + ':pixel is peak*exp(.)', z3.BoolVal(False))
                continue
            (nm, (E, g)), = ts.items()
            c.oblige(tag + ':pixel amplitude is the catalogued peak', core.lift(val) == src.peak_flux.e * E)
            rec = nz.identity(c, tag + ':pixel exponent == oracle Gaussian (centre (xo-1,yo-1), sigma=FWHM*FWHM2CC, theta CCW from x)',
                              g, oracle_exponent(c, wh.P[0], i, j, F2C.e), positive=['SX0', 'SY0', 'FWHM2CC'])
        # evaluated out to 5 FWHM-widths: the rendered set is exactly the image part of the box
        #   floor(xo - xoff) <= i < ceil(xo + xoff),  xoff = 5(|FWHMx cos| + |FWHMy sin|)   (and y with sin/cos swapped)
        # (that this box reaches 5 sigma from the centre (xo-1, yo-1) for FWHM >= 0.35 px is arithmetic, see DESIGN)
        co, si = TH.radians()._cs()
        ab = lambda t: z3.If(t >= 0, t, -t)
        xoff = 5 * (ab(SX.e * co) + ab(SY.e * si))
        yoff = 5 * (ab(SX.e * si) + ab(SY.e * co))
        if not bigbox:
            cl = []
            for i in range(R):
                for j in range(C):
                    inbox = z3.And(z3.ToInt(XO.e - xoff) <= i, i < -z3.ToInt(-(XO.e + xoff)), z3.ToInt(YO.e - yoff) <= j, j < -z3.ToInt(-(YO.e + yoff)))
                    cl.append(inbox if (i, j) in rendered else z3.Not(inbox))
            c.oblige(tag + ':rendered pixels == image part of the 5*FWHM box around (xo, yo)', z3.And(cl), timeout_ms=20000)
        if bigbox:
            c.oblige(tag + ':every image pixel rendered when the 5 sigma box covers the image', z3.BoolVal(len(rendered) == R * C))
        return dict(rendered=len(rendered))
    return h


def h_nan(ae, R, C, which):
    """a source whose pixel coordinates are undefined (e.g. on the far side of a SIN/TAN projection) must be ignored"""
    def h(c):
        c.index_range = (-1, max(R, C) + 1)
        F2C = real('FWHM2CC')
        c.assume(F2C.e > z3.RealVal('0.42'))
        c.assume(F2C.e < z3.RealVal('0.43'))
        ae.FWHM2CC = F2C
        wh = WH(1)
        P = list(wh.P[0])
        for k in which:
            P[k] = float('nan')
        wh.P[0] = tuple(P)
        for k in (2, 3):
            if isinstance(P[k], SN):
                c.assume(P[k].e > 0)
        tag = 'make_model[%dx%d, undefined %s]' % (R, C, '/'.join(['xo', 'yo', 'sx', 'sy', 'theta'][k] for k in which))
        try:
            m = ae.make_model([Src(0)], (R, C), wh)
        except (core.Unsupported, core.HarnessError, core.Cut, core.Infeasible):
            raise
        except Exception as e:
            c.oblige(tag + ':handled without error', z3.BoolVal(False), info=repr(e))
            return dict(raised=repr(e))
        untouched = all(isinstance(m[i, j], float) and m[i, j] == 0.0 for i in range(R) for j in range(C))
        c.oblige(tag + ':the source is ignored (model untouched)', z3.BoolVal(bool(untouched)))
        return dict()
    return h


def h_two(ae, R, C, same_shape=False):
    def h(c):
        c.index_range = (-1, max(R, C) + 1)
        F2C = real('FWHM2CC')
        c.assume(F2C.e > z3.RealVal('0.42'))
        c.assume(F2C.e < z3.RealVal('0.43'))
        ae.FWHM2CC = F2C
        wh = WH(2)
        srcs = [Src(0), Src(1)]
        if same_shape:
            # two catalogue rows with the very same (a, b, pa) at different positions: the pixel shape still comes from the WCS
            # at EACH position (plate scale and local north vary across an image)
            srcs[1].a, srcs[1].b, srcs[1].pa = srcs[0].a, srcs[0].b, srcs[0].pa
            wh.srcs = srcs
        for k in range(2):
            XO, YO, SX, SY, TH = wh.P[k]
            c.assume(SX.e >= 4 * max(R, C))
            c.assume(SY.e >= 4 * max(R, C))
            c.assume(XO.e >= 1)
            c.assume(XO.e <= R)
            c.assume(YO.e >= 1)
            c.assume(YO.e <= C)
        m = ae.make_model(srcs, (R, C), wh)
        tag = 'make_model additivity[%dx%d%s]' % (R, C, ', rows sharing (a, b, pa)' if same_shape else '')
        ok = True
        cl = []
        for i in range(R):
            for j in range(C):
                val = m[i, j]
                if not isinstance(val, SN):
                    ok = False
                    continue
                ts = split_terms(c, val)
                if len(ts) != 2:
                    ok = False
                    continue
                names = sorted(ts)
                cl.append(core.lift(val) == srcs[0].peak_flux.e * ts[names[0]][0] + srcs[1].peak_flux.e * ts[names[1]][0])
        c.oblige(tag + ':every pixel is the sum of the two sources', z3.And(cl + [z3.BoolVal(ok)]))
        if same_shape:
            c.oblige(tag + ':the pixel ellipse of every row is asked of the WCS at that row\'s own position', z3.BoolVal(len(wh.calls) == 2 and wh.calls[0][0][0] is srcs[0].ra and wh.calls[1][0][0] is srcs[1].ra))
        return dict()
    return h


def h_mask(ae, R, C, usefrac, nsrc=1):
    if nsrc > 1:
        return h_mask_many(ae, R, C, usefrac, nsrc)

    def h(c):
        c.index_range = (-1, max(R, C) + 1)
        F2C = real('FWHM2CC')
        c.assume(F2C.e > z3.RealVal('0.42'))
        c.assume(F2C.e < z3.RealVal('0.43'))
        ae.FWHM2CC = F2C
        wh = WH(1)
        XO, YO, SX, SY, TH = wh.P[0]
        c.assume(SX.e >= 4 * max(R, C))
        c.assume(SY.e >= 4 * max(R, C))
        c.assume(XO.e >= 1)
        c.assume(XO.e <= R)
        c.assume(YO.e >= 1)
        c.assume(YO.e <= C)
        src = Src(0)
        frac = real('frac') if usefrac else None
        sigma = real('sigma')
        m = ae.make_model([src], (R, C), wh, mask=True, frac=frac, sigma=sigma)
        tag = 'make_model mask mode[%dx%d,%s]' % (R, C, 'frac' if usefrac else 'sigma')
        cl = []
        for i in range(R):
            for j in range(C):
                blank = isinstance(m[i, j], float) and m[i, j] != m[i, j]
                g = oracle_exponent(c, wh.P[0], i, j, F2C.e)
                E = SN(g).exp()
                modelv = src.peak_flux.e * E.e
                thr = frac.e * src.peak_flux.e if usefrac else sigma.e * src.local_rms.e
                cl.append((modelv >= thr) if blank else z3.Not(modelv >= thr))
                if not blank and not (m[i, j] == 0.0):
                    cl.append(z3.BoolVal(False))
        c.oblige(tag + ':blank <=> model >= threshold, others untouched', z3.And(cl))
        return dict()
    return h


def h_mask_many(ae, R, C, usefrac, nsrc):
    """several sources with overlapping evaluation boxes: concrete ellipses (so the model values are numbers), SYMBOLIC
    threshold parameter: a pixel is blank iff some source's model reaches that source's threshold there, whatever the order"""
    ells = [(1.2, 1.1, 9.0, 8.0, 0.0), (2.4, 1.7, 8.5, 8.2, 30.0), (0.8, 2.3, 10.0, 9.0, -50.0)][:nsrc]

    def h(c):
        ae.FWHM2CC = TRUE_F2C

        class H:
            def __init__(self):
                self.k = 0

            def sky2pix_ellipse(self, pos, a, b, pa):
                self.k += 1
                return ells[self.k - 1]

            def sky2pix(self, pos):
                return list(ells[min(self.k, len(ells) - 1)][:2])
        srcs = [Src(k) for k in range(nsrc)]
        for k, s_ in enumerate(srcs):
            s_.peak_flux = 2.0 + k
            s_.local_rms = 0.25 * (1 + k)
        par = real('frac') if usefrac else real('sigma')
        c.assume(par.e > 0)
        m = ae.make_model(srcs, (R, C), H(), mask=True, frac=(par if usefrac else None), sigma=(par if not usefrac else 4))
        tag = 'make_model mask mode[%dx%d,%s,%d sources]' % (R, C, 'frac' if usefrac else 'sigma', nsrc)
        cl = []
        for i in range(R):
            for j in range(C):
                blank = isinstance(m[i, j], float) and m[i, j] != m[i, j]
                over = []
                for k, s_ in enumerate(srcs):
                    xo, yo, sx, sy, th = ells[k]
                    val = float(gauss_oracle((R, C), xo - 1, yo - 1, sx, sy, th, s_.peak_flux)[i, j])
                    thr = par.e * core.const(s_.peak_flux) if usefrac else par.e * core.const(s_.local_rms)
                    over.append(core.const(val) >= thr)
                    # thresholds within rounding distance of a model value are outside the claim (floats as reals)
                    c.assume(z3.Or(core.const(val) * z3.RealVal('999999/1000000') > thr, core.const(val) * z3.RealVal('1000001/1000000') < thr))
                anyover = z3.Or(over)
                cl.append(anyover if blank else z3.Not(anyover))
                if not blank and not (isinstance(m[i, j], (int, float)) and m[i, j] == 0.0):
                    cl.append(z3.BoolVal(False))
        c.oblige(tag + ':blank <=> some source\'s model >= its threshold there (any threshold value), others untouched', z3.And(cl))
        return dict()
    return h


# ------------------------------------------------------------------------------------------------
def gauss_oracle(shape, xo0, yo0, fwx, fwy, theta, peak):
    """independent pixel-frame Gaussian: centre (xo0, yo0) 0-based (row, col), FWHMs, theta CCW from the row axis"""
    x, y = real_np.mgrid[0:shape[0], 0:shape[1]].astype(float)
    s = 2 * math.sqrt(2 * math.log(2))
    t = math.radians(theta)
    u = (x - xo0) * math.cos(t) + (y - yo0) * math.sin(t)
    v = (x - xo0) * math.sin(t) - (y - yo0) * math.cos(t)
    return peak * real_np.exp(-0.5 * ((u / (fwx / s)) ** 2 + (v / (fwy / s)) ** 2))


def replay_case(w):
    """real make_model with a real WCSHelper; oracle renders from the helper's own sky2pix_ellipse result"""
    from astropy.io import fits
    ae = loader.real('AeRes')
    wh = loader.real('wcs_helpers')
    models = loader.real('models')
    R, C = int(w.get('R', 20)), int(w.get('C', 24))
    hdr = fits.Header()
    hdr['NAXIS'] = 2
    hdr['NAXIS1'], hdr['NAXIS2'] = C, R
    hdr['CTYPE1'], hdr['CTYPE2'] = 'RA---SIN', 'DEC--SIN'
    hdr['CRVAL1'], hdr['CRVAL2'] = 45.0, -30.0
    hdr['CRPIX1'], hdr['CRPIX2'] = C / 2.0, R / 2.0
    hdr['CDELT1'], hdr['CDELT2'] = -1.0 / 180, 1.0 / 180
    hdr['BMAJ'], hdr['BMIN'], hdr['BPA'] = 3.0 / 180, 3.0 / 180, 0.0
    helper = wh.WCSHelper.from_header(hdr)
    # a catalogue entry on the far side of the projection has undefined pixel coordinates: it must not touch the model
    far = models.ComponentSource()
    far.ra, far.dec, far.peak_flux, far.a, far.b, far.pa, far.local_rms = (45.0 + 180.0) % 360, 30.0, 1.0, 60.0, 45.0, 0.0, 0.1
    try:
        mfar = real_np.array(ae.make_model([far], (R, C), helper), dtype=float)
    except Exception as e:
        return True, 'far-side-source-raises', 'a source 180 deg from the image centre raised %r' % (e,)
    if not real_np.all(mfar == 0):
        return True, 'far-side-source-rendered', 'a source 180 deg from the image centre changed %d model pixels (%d NaN)' % (int((mfar != 0).sum()), int(real_np.isnan(mfar).sum()))
    rows = w.get('centres') or [(R - 0.8, 5.0), (0.3, 7.0), (8.0, C - 0.7), (9.5, 0.2), (10.0, 12.0)]
    worst = None
    for (r0, c0) in rows:        # 0-based pixel centre (row, col)
        ra, dec = helper.pix2sky((r0 + 1, c0 + 1))
        src = models.ComponentSource()
        src.ra, src.dec, src.peak_flux = ra, dec, 2.0
        src.a, src.b, src.pa = float(w.get('a', 60.0)), float(w.get('b', 45.0)), float(w.get('pa', 30.0))
        src.local_rms = 0.1
        m = real_np.array(ae.make_model([src], (R, C), helper), dtype=float)
        xo, yo, sx, sy, th = helper.sky2pix_ellipse([ra, dec], src.a / 3600, src.b / 3600, src.pa)
        want = gauss_oracle((R, C), xo - 1, yo - 1, sx, sy, th, src.peak_flux)
        err = float(real_np.abs(m - want).max()) / abs(src.peak_flux)
        if err > 1e-4:
            on = (-0.5 <= r0 < R - 0.5) and (-0.5 <= c0 < C - 0.5)
            cls = 'on-image-source-dropped' if (on and not real_np.any(m)) else 'model-differs'
            return True, cls, 'source centred at 0-based (row, col)=(%.2f, %.2f) of a %dx%d image: model differs from the Gaussian oracle by %.3g of the peak' % (r0, c0, R, C, err)
    return False, None, None


CANNED = [dict(R=40, C=40, xo=20.3, yo=21.1, sx=8.0, sy=2.0, th=t) for t in (0.0, 45.0, 80.0, 90.0, -75.0, 135.0)] + \
         [dict(R=40, C=40, xo=20.3, yo=21.1, sx=2.0, sy=8.0, th=t) for t in (0.0, 10.0, 90.0)] + \
         [dict(R=30, C=30, xo=14.2, yo=16.1, sx=5.0, sy=3.0, th=25.0, peak=-0.8), dict(R=30, C=20, xo=1.2, yo=10.0, sx=4.0, sy=3.0, th=30.0), dict(R=30, C=20, xo=29.9, yo=19.8, sx=4.0, sy=3.0, th=-20.0),
          dict(R=20, C=30, xo=10.0, yo=0.7, sx=6.0, sy=2.0, th=60.0)]


def replay_pixel(pr):
    """the real make_model with a helper that hands back the given pixel-frame ellipse (1-based centre, FWHMs in pixels, angle
    in degrees): the model must equal the independent Gaussian to 1e-4 of the peak on every image pixel"""
    ae = loader.real('AeRes')
    models = loader.real('models')
    R, C = int(pr['R']), int(pr['C'])

    class H:
        def sky2pix_ellipse(self, pos, a, b, pa):
            return pr['xo'], pr['yo'], pr['sx'], pr['sy'], pr['th']

        def sky2pix(self, pos):
            return [pr['xo'], pr['yo']]
    src = models.ComponentSource()
    pk = float(pr.get('peak', 2.0))
    src.ra, src.dec, src.peak_flux, src.a, src.b, src.pa, src.local_rms = 10.0, -20.0, pk, 60.0, 45.0, 0.0, 0.1
    try:
        m = real_np.array(ae.make_model([src], (R, C), H()), dtype=float)
    except Exception as e:
        return True, 'raises-%s' % type(e).__name__, 'make_model raised %r for pixel ellipse %s' % (e, pr)
    on = 0.5 <= pr['xo'] < R + 0.5 and 0.5 <= pr['yo'] < C + 0.5
    want = gauss_oracle((R, C), pr['xo'] - 1, pr['yo'] - 1, pr['sx'], pr['sy'], pr['th'], pk) if on else real_np.zeros((R, C))
    err = float(real_np.abs(m - want).max()) / abs(pk)
    if err > 1e-4:
        return True, 'model-differs', 'pixel ellipse centre (%.3f, %.3f) FWHM (%.3f, %.3f) px angle %.2f deg on a %dx%d image: model differs from the Gaussian by %.3g of the peak' % (pr['xo'], pr['yo'], pr['sx'], pr['sy'], pr['th'], R, C, err)
    return False, None, None


def params_of_model(m, R, C):
    """pixel ellipse of source 0 from a solver model (trig atoms give the angle)"""
    try:
        def f(k):
            v = m[k]
            return float(Fraction(str(v))) if not isinstance(v, (int, float)) else float(v)
        co = [k for k in m if k.startswith('c_') and 'TH0' in k]
        si = [k for k in m if k.startswith('s_') and 'TH0' in k]
        th = math.degrees(math.atan2(f(si[0]), f(co[0]))) if co and si else f('TH0')
        pr_ = dict(R=R, C=C, xo=f('XO0'), yo=f('YO0'), sx=f('SX0'), sy=f('SY0'), th=th)
        try:
            pk_ = f('peak0')
            if pk_ != 0:
                pr_['peak'] = pk_
        except Exception:
            pass
        return pr_
    except Exception:
        return None


def replay_mask():
    """real make_model in mask mode on three neighbouring sources, both catalogue orders, frac and sigma thresholds: the blanked
    pixels are the union of the pixels where a source's own Gaussian reaches its own threshold"""
    ae = loader.real('AeRes')
    models = loader.real('models')
    R, C = 60, 70
    ells = [(20.3, 21.1, 6.0, 4.0, 20.0), (20.9, 43.2, 5.0, 5.0, 0.0), (41.5, 30.4, 7.0, 3.5, -40.0), (52.0, 60.0, 4.0, 4.0, 0.0)]
    for order in ((0, 1, 2, 3), (3, 2, 1, 0), (1, 0, 3, 2)):
        for kw in (dict(frac=0.5), dict(frac=None, sigma=4), dict(frac=None, sigma=10), dict(frac=0.02)):
            srcs = []
            for k in order:
                s_ = models.ComponentSource()
                s_.ra, s_.dec, s_.peak_flux, s_.a, s_.b, s_.pa, s_.local_rms = 10.0 + k, -20.0, 3.0 + k, 60.0, 45.0, 0.0, 0.05 * (1 + k)
                srcs.append(s_)

            class H:
                def sky2pix_ellipse(self, pos, a, b, pa):
                    return ells[int(round(pos[0] - 10.0))]

                def sky2pix(self, pos):
                    return list(ells[int(round(pos[0] - 10.0))][:2])
            m = real_np.array(ae.make_model(srcs, (R, C), H(), mask=True, **kw), dtype=float)
            want = real_np.zeros((R, C), dtype=bool)
            for k in order:
                xo, yo, sx, sy, th = ells[k]
                g = gauss_oracle((R, C), xo - 1, yo - 1, sx, sy, th, 3.0 + k)
                thr = kw['frac'] * (3.0 + k) if kw.get('frac') is not None else kw['sigma'] * 0.05 * (1 + k)
                # only inside the 5-FWHM evaluation box of the source (the model is not evaluated beyond it)
                x, y = real_np.mgrid[0:R, 0:C]
                t = math.radians(th)
                xoff = 5 * (abs(sx * math.cos(t)) + abs(sy * math.sin(t)))
                yoff = 5 * (abs(sx * math.sin(t)) + abs(sy * math.cos(t)))
                box = (x >= math.floor(xo - xoff)) & (x < math.ceil(xo + xoff)) & (y >= math.floor(yo - yoff)) & (y < math.ceil(yo + yoff))
                near = abs(g - thr) < 1e-6 * thr
                want |= (g >= thr) & box & ~near
            got = ~real_np.isfinite(m)
            nearany = real_np.zeros((R, C), dtype=bool)
            missing, extra = int((want & ~got).sum()), int((got & ~want).sum())
            if missing or extra > 8:
                return True, 'mask-union', 'mask mode %s, catalogue order %s: %d pixels where a source reaches its threshold are not blank, %d blank pixels beyond (of %d expected)' % (kw, list(order), missing, extra, int(want.sum()))
    return False, None, None


def replay_distorted():
    """a header with SIP distortion terms: the model of a source must be centred where the full FITS WCS (astropy
    all_world2pix) puts its sky position, also far from the reference pixel"""
    from astropy.io import fits
    from astropy.wcs import WCS
    import warnings
    ae = loader.real('AeRes')
    wh = loader.real('wcs_helpers')
    models = loader.real('models')
    N = 400
    hdr = fits.Header()
    hdr['NAXIS'] = 2
    hdr['NAXIS1'] = hdr['NAXIS2'] = N
    hdr['CTYPE1'], hdr['CTYPE2'] = 'RA---TAN-SIP', 'DEC--TAN-SIP'
    hdr['CRVAL1'], hdr['CRVAL2'] = 80.0, -25.0
    hdr['CRPIX1'] = hdr['CRPIX2'] = N / 2.0
    hdr['CDELT1'], hdr['CDELT2'] = -2.0 / 3600, 2.0 / 3600
    hdr['A_ORDER'] = hdr['B_ORDER'] = 2
    hdr['A_2_0'], hdr['A_0_2'], hdr['B_2_0'], hdr['B_1_1'] = 4e-5, -3e-5, 5e-5, 2e-5
    hdr['BMAJ'], hdr['BMIN'], hdr['BPA'] = 8.0 / 3600, 8.0 / 3600, 0.0
    with warnings.catch_warnings():
        warnings.simplefilter('ignore')
        w = WCS(hdr, naxis=2)
        helper = wh.WCSHelper.from_header(hdr)
        for (r0, c0) in ((200.0, 200.0), (40.0, 45.0), (350.0, 60.0), (330.0, 360.0)):
            ra, dec = w.all_pix2world([[c0 + 1, r0 + 1]], 1)[0]
            src = models.ComponentSource()
            src.ra, src.dec, src.peak_flux, src.a, src.b, src.pa, src.local_rms = float(ra), float(dec), 5.0, 12.0, 12.0, 0.0, 0.1
            m = real_np.array(ae.make_model([src], (N, N), helper), dtype=float)
            if not real_np.any(m):
                return True, 'distorted-wcs-source-dropped', 'TAN-SIP image: source at 0-based (row, col) = (%.1f, %.1f) is not modelled' % (r0, c0)
            # flux-weighted centre of the model
            x, y = real_np.mgrid[0:N, 0:N]
            cr, cc = float((m * x).sum() / m.sum()), float((m * y).sum() / m.sum())
            if math.hypot(cr - r0, cc - c0) > 0.3:
                return True, 'distorted-wcs-position', 'TAN-SIP image: the model of a source that the FITS WCS puts at 0-based (row, col) = (%.2f, %.2f) is centred at (%.2f, %.2f)' % (r0, c0, cr, cc)
    return False, None, None


def replay_any(model, R, C):
    cands = []
    pr = params_of_model(model or {}, R, C)
    if pr:
        cands.append(pr)
    for pr in cands + CANNED:
        bad, cls, detail = replay_pixel(pr)
        if bad:
            return bad, cls, detail, dict(kind='pixel', params=pr)
    bad, cls, detail = replay_case({})
    return bad, cls, detail, dict(kind='render')


def run(rep):
    ae, fit, const = sym_aeres()
    thorough = rep.tier == 'thorough'
    rep.assume('floats as reals; the float32 model array is an object array in the symbolic run',
               'sky2pix_ellipse is a stub returning symbolic (xo, yo, FWHMx, FWHMy, theta): its correctness is C16; composition with the fit is C01')
    rep.kernel('K-constants', functions=[F], bounds='module constant FWHM2CC', assumes=['FWHM2CC is replaced by a symbolic constant in the other kernels; its value is checked here'])
    okc = abs(const - TRUE_F2C) < 1e-15
    rep.count('unsat' if okc else 'sat', 'constant:FWHM2CC == 1/(2 sqrt(2 ln 2))')
    if not okc:
        bad, cls, detail = replay_case({})
        rep.finding('C14/K-constants/FWHM2CC', dict(kind='render'), 'AeRes.FWHM2CC = %r' % const, reproduced=bad)
    rep.end_kernel()
    shapes = [(2, 3), (3, 2)] + ([(3, 4), (4, 3)] if thorough else [])
    rep.kernel('K-render', functions=[F + ':make_model', 'AegeanTools/fitting.py:elliptical_gaussian'],
               bounds='images %s; one source with symbolic centre, FWHMs, angle, peak; (a) box covering the image (FWHM >= 4*size) (b) 3x3 image with small sources 0.1 <= FWHM <= 0.3 px, box corners concretised by case split in [-1, size+1]' % shapes,
               stubs=['wcshelper.sky2pix_ellipse -> symbolic values', 'np.zeros -> object array', 'np.mgrid real on the concretised corners'],
               outside=['float32 rounding', 'sky2pix_ellipse (C16)'])
    plans = []
    meta = []
    for R, C in shapes:
        plans.append((h_single(ae, R, C, True, None), dict(wall_s=600)))
        meta.append(('single', R, C))
    plans.append((h_single(ae, 3, 3, False, None), dict(wall_s=900, max_paths=4000)))
    meta.append(('single-small', 3, 3))
    for which in ((0,), (1,), (0, 1), (0, 1, 2, 3, 4)):
        plans.append((h_nan(ae, 2, 3, which), dict(wall_s=300)))
        meta.append(('undefined-coordinates', 2, 3))
    plans.append((h_two(ae, 2, 2), dict(wall_s=600)))
    meta.append(('two', 2, 2))
    plans.append((h_two(ae, 1, 2, same_shape=True), dict(wall_s=600)))
    meta.append(('two-same-shape', 1, 2))
    plans.append((h_mask(ae, 1, 2, True), dict(wall_s=600)))
    meta.append(('mask', 1, 2))
    plans.append((h_mask(ae, 2, 1, False), dict(wall_s=600)))
    meta.append(('mask', 2, 1))
    plans.append((h_mask(ae, 3, 3, True, nsrc=3), dict(wall_s=120)))
    meta.append(('mask-many', 3, 3))
    plans.append((h_mask(ae, 3, 3, False, nsrc=2), dict(wall_s=120)))
    meta.append(('mask-many', 3, 3))
    found = set()
    for (kind, R, C), (st, res) in zip(meta, core.explore_many(plans, workers=8)):
        rep.stats(st)
        for r in res:
            for ob in r['obligations']:
                rep.count(ob['result'], ob['name'])
                if ob['result'] == 'sat' and ob['name'] not in found:
                    if kind.startswith('mask'):
                        bad, cls, detail = replay_mask()
                        wit = dict(kind='mask')
                    else:
                        bad, cls, detail, wit = replay_any(ob.get('model'), R, C)
                    if rep.finding('C14/K-render/%s' % (cls or ob['name'].split(':')[-1]), wit, detail or ob['name'], reproduced=bad) != 'not-reproduced':
                        found.add(ob['name'])
        if res:
            rep.sample(dict(kernel='K-render', plan=kind, shape=(R, C), paths=st.paths, first=[(o['name'].split(':')[-1], o['result']) for o in res[0]['obligations']][:6]))
    rep.end_kernel()
    bad, cls, detail = replay_case({})
    rep.validated_runs(5)
    if bad:
        rep.finding('C14/K-render/%s' % cls, dict(kind='render'), detail, kernel='K-render')
    bad, cls, detail = replay_distorted()
    rep.validated_runs(4)
    if bad:
        rep.finding('C14/K-render/%s' % cls, dict(kind='distorted'), detail, kernel='K-render')
    bad, cls, detail = replay_mask()
    rep.validated_runs(12)
    if bad:
        rep.finding('C14/K-render/%s' % cls, dict(kind='mask'), detail, kernel='K-render')
    for pr in CANNED:
        bad, cls, detail = replay_pixel(pr)
        rep.validated_runs(1)
        if bad:
            rep.finding('C14/K-render/%s' % cls, dict(kind='pixel', params=pr), detail, kernel='K-render')
            break
    rep.not_decided += ['residual < 1e-3 of the peak after subtracting the catalogue Aegean extracted (needs the fit)', 'FITS I/O and column renaming of make_residual/load_sources', 'add-then-subtract restores the image (float32 rounding)']


def replay(w):
    if w['witness'].get('kind') == 'distorted':
        bad, cls, detail = replay_distorted()
        return bad, '%s: %s' % (cls, detail)
    if w['witness'].get('kind') == 'mask':
        bad, cls, detail = replay_mask()
        return bad, '%s: %s' % (cls, detail)
    if w['witness'].get('kind') == 'pixel':
        bad, cls, detail = replay_pixel(w['witness']['params'])
        return bad, '%s: %s' % (cls, detail)
    bad, cls, detail = replay_case(w['witness'])
    return bad, '%s: %s' % (cls, detail)


if __name__ == '__main__':
    main(sys.modules[__name__])
