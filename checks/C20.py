"""C20 image bands tile the image exactly and keep its astrometry.
Slices of the real load_image_band (validation chain, row_min/row_max arithmetic, header update) run on
bit-precise symbolic ints/floats (the arithmetic is rounding-sensitive) and on symbolic reals (header)."""
import os
import shutil
import sys
import tempfile
import time

import z3

from symx import core, fp, loader, slicer
from symx.core import SN, explore
from symx.report import main

PID = 'C20'
F = 'AegeanTools/fits_tools.py'


class AegeanErrorStub(Exception):
    pass


def solve(rep, name, cons, neg, timeout_ms):
    s = z3.Solver()
    s.set('timeout', timeout_ms)
    s.add(cons)
    t = time.time()
    reach = str(s.check())
    s.add(neg)
    r = str(s.check())
    dt = time.time() - t
    if reach != 'sat':
        rep.count('vacuous' if reach == 'unsat' else 'unknown', name, queries=2, solver_s=dt)
        return reach, None
    rep.count(r if r in ('sat', 'unsat') else 'unknown', name, queries=2, solver_s=dt)
    return r, (s.model() if r == 'sat' else None)


# ------------------------------------------------------------------------------------------------
def oracle_bands(rows, n, kind='plain', cols=3):
    """property-level oracle on the REAL load_image_band: bands 0..n-1 of a rows x cols image are consecutive,
    cover every row once, carry the right pixels and a header that maps band pixels to the full image's sky."""
    import numpy as np
    from astropy.io import fits
    from astropy.wcs import WCS
    ft = loader.real('fits_tools')
    d = tempfile.mkdtemp(prefix='c20_', dir='/var/tmp')
    try:
        img = (np.arange(rows, dtype=np.float32)[:, None] * 10 + np.arange(cols, dtype=np.float32)[None, :])
        hdr = fits.Header()
        hdr['CTYPE1'], hdr['CTYPE2'] = 'RA---SIN', 'DEC--SIN'
        hdr['CRVAL1'], hdr['CRVAL2'] = 10.0, -30.0
        hdr['CRPIX1'], hdr['CRPIX2'] = 2.0, rows / 2.0
        hdr['CDELT1'], hdr['CDELT2'] = -0.01, 0.01
        data = img
        if kind == 'cube':
            data = img[None, :, :]
        if kind == 'cube4':
            # (stokes, channel, row, col) with three channels; channel 1 is asked for
            data = np.stack([img + 1000 * k for k in range(3)])[None].astype(np.float32)
        if kind == 'scaled':
            hdr['BSCALE'] = 0.5      # stored values are physical / 0.5
        fn = os.path.join(d, 'a.fits')
        if kind == 'scaled':
            fits.PrimaryHDU((data / 0.5).astype(np.float32), header=hdr).writeto(fn)
            with fits.open(fn, mode='update', do_not_scale_image_data=True) as hl_:
                hl_[0].header['BSCALE'] = 0.5
        else:
            fits.PrimaryHDU(data, header=hdr).writeto(fn)
        if kind == 'compressed':
            cfn = os.path.join(d, 'c.fits')
            ft.compress(fn, 2, cfn)
            full = ft.expand(cfn)[0]
            img = np.array(full.data)
            fullw = WCS(full.header, naxis=2)
            fn = cfn
        else:
            fullw = WCS(fits.getheader(fn), naxis=2)
        nxt = 0
        for i in range(n):
            try:
                bd, bh = ft.load_image_band(fn, band=(i, n), cube_index=1) if kind == 'cube4' else ft.load_image_band(fn, band=(i, n))
            except Exception as e:
                return True, 'raises', 'band (%d,%d) of %d rows: %r' % (i, n, rows, e)
            bd = np.array(bd)
            if kind == 'cube4':
                if bd.ndim != 2 or bd.shape[1] != cols:
                    return True, 'band-shape-' + kind, 'band (%d,%d) of a (1,3,%d,%d) file comes back with shape %s' % (i, n, rows, cols, bd.shape)
                bd = bd - 1000
            bd = np.squeeze(bd)
            if bd.ndim == 1:
                bd = bd.reshape(-1, cols) if bd.size else bd.reshape(0, cols)
            h = bd.shape[0]
            if not np.array_equal(bd, img[nxt:nxt + h]):
                return True, 'pixels', 'band (%d,%d) of %d rows does not equal rows %d..%d' % (i, n, rows, nxt, nxt + h)
            if int(bh['NAXIS2']) != h:
                return True, 'naxis2-' + kind, 'band (%d,%d) of %d rows: header NAXIS2=%s for %d data rows' % (i, n, rows, bh['NAXIS2'], h)
            if h > 0:
                bw = WCS(bh, naxis=2)
                a = bw.all_pix2world([[1, 0]], 0)
                b = fullw.all_pix2world([[1, nxt]], 0)
                if abs(a - b).max() > 1e-9:
                    return True, 'astrometry-' + kind, 'band (%d,%d) of %d rows [%s]: band pixel (1,0) -> %s but full pixel (1,%d) -> %s' % (i, n, rows, kind, a, nxt, b)
                if int(bh['NAXIS2']) != h:
                    return True, 'naxis2-' + kind, 'band (%d,%d): NAXIS2=%s for %d rows' % (i, n, bh['NAXIS2'], h)
            nxt += h
        if nxt != rows:
            return True, 'last-band-short', 'rows=%d bands=%d: bands cover rows [0,%d) only' % (rows, n, nxt)
        # reading bands must not change what a later read of the whole file returns (same process, same file)
        wd, whd = ft.load_image_band(fn, cube_index=1) if kind == 'cube4' else ft.load_image_band(fn)
        wd = np.squeeze(np.array(wd))
        if kind == 'cube4':
            wd = wd - 1000
        if wd.shape != img.shape or not np.array_equal(wd, img) or int(whd['NAXIS2']) != rows:
            return True, 'whole-file-after-bands-' + kind, 'after reading %d bands, the whole %s file comes back with shape %s (NAXIS2=%s) instead of %s' % (n, kind, wd.shape, whd['NAXIS2'], img.shape)
        return False, None, None
    finally:
        shutil.rmtree(d, ignore_errors=True)


def oracle_invalid(i, n):
    ft = loader.real('fits_tools')
    exc = loader.real('exceptions').AegeanError
    valid = n >= 1 and 0 <= i < n
    try:
        ft.load_image_band('/nonexistent/file.fits', band=(i, n))
        raised = None
    except exc:
        raised = 'AegeanError'
    except Exception as e:
        raised = type(e).__name__     # valid specs proceed to open the (missing) file
    if valid and raised == 'AegeanError':
        return True, 'valid-rejected', 'band (%d,%d) rejected' % (i, n)
    if not valid and raised != 'AegeanError':
        return True, 'invalid-accepted', 'band (%d,%d) not rejected with AegeanError (%s)' % (i, n, raised)
    return False, None, None


# ------------------------------------------------------------------------------------------------
def k_valid(rep):
    rep.kernel('K-valid', functions=[F + ':load_image_band'], bounds='all integers (i, n), unbounded (linear integer arithmetic)',
               stubs=['AegeanError -> stub exception class'], assumes=['slice: the raise-only if/elif chain at the top of load_image_band'])
    try:
        fac, text = slicer.slice_function(F, 'load_image_band', targets=[], params=['band'], raises='AegeanError')
    except slicer.AnchorMissing as e:
        rep.inconc('anchor-missing %s' % e)
        return
    f = fac(dict(AegeanError=AegeanErrorStub))

    def h(c):
        i, n = core.integer('i'), core.integer('n')
        valid = z3.And(n.e >= 1, i.e >= 0, i.e < n.e)
        try:
            f((i, n))
            c.oblige('valid:accepted-implies-valid', valid)
            return 'accepted'
        except AegeanErrorStub:
            c.oblige('valid:rejected-implies-invalid', z3.Not(valid))
            return 'rejected'
    st, res = explore(h)
    rep.stats(st)
    for r in res:
        for ob in r['obligations']:
            rep.count(ob['result'], ob['name'])
            if ob['result'] == 'sat':
                i, n = int(ob['model'].get('i', 0)), int(ob['model'].get('n', 0))
                bad, cls, detail = oracle_invalid(i, n)
                rep.finding('C20/K-valid/%s' % (cls or ob['name']), dict(kind='invalid', i=i, n=n), detail or 'model i=%d n=%d' % (i, n), reproduced=bad)
        rep.sample(dict(kernel='K-valid', path=r['trace'], outcome=r['out'], obligations=[(o['name'], o['result']) for o in r['obligations']]))
    if not any(r['out'] == 'rejected' for r in res) or not any(r['out'] == 'accepted' for r in res):
        rep.finding('C20/K-valid/no-validation', dict(kind='invalid', i=-1, n=1), 'validation chain never rejects/accepts', reproduced=oracle_invalid(-1, 1)[0] or oracle_invalid(3, 2)[0] or oracle_invalid(0, 0)[0])
    rep.end_kernel()


_ROWS_F = None
MAXROWS = 20000


def _rows_worker(args):
    n, to = args
    f = _ROWS_F
    rows, i = z3.BitVec('rows', 32), z3.BitVec('i', 32)
    hdr = {'NAXIS2': fp.FInt(rows)}
    rmin, rmax = f(hdr, (fp.FInt(i), n))
    rmin2, _ = f(hdr, (fp.FInt(i + 1), n))
    rmin0, _ = f(hdr, (0, n))
    _, rmaxl = f(hdr, (n - 1, n))
    out = []
    for v in (rmin, rmax, rmin0, rmaxl):
        if isinstance(v, int):
            continue
        if not isinstance(v, fp.FInt):
            return [('rows:integer-valued rows', 'sat', dict(rows=5, n=n), 0.0)]
    b = lambda v: v.bv if isinstance(v, fp.FInt) else z3.BitVecVal(v, 32)
    base = [rows >= 1, rows <= MAXROWS, i >= 0, i < n]
    obs = [('rows:first-band-starts-at-0', b(rmin0) != 0),
           ('rows:last-band-ends-at-rows', b(rmaxl) != rows),
           ('rows:consecutive row_max(i)==row_min(i+1)', z3.And(i + 1 < n, b(rmax) != b(rmin2))),
           ('rows:0<=row_min<=row_max', z3.Not(z3.And(b(rmin) >= 0, b(rmin) <= b(rmax))))]
    for name, neg in obs:
        s = z3.Solver()
        s.set('timeout', to)
        s.add(base)
        s.add(z3.simplify(neg))
        t = time.time()
        r = str(s.check())
        m = None
        if r == 'sat':
            mm = s.model()
            m = dict(rows=mm.eval(rows, model_completion=True).as_long(), n=n, i=mm.eval(i, model_completion=True).as_long())
        out.append((name, r, m, time.time() - t))
    return out


def k_rows(rep, tier):
    global _ROWS_F
    rep.kernel('K-rows', functions=[F + ':load_image_band'],
               bounds='rows in [1,%d] symbolic, band index i symbolic in [0,n), band count n enumerated 1..64 (one query set per n); python ints as 32-bit vectors (no wrap in range), floats as IEEE binary64 RNE, int() as RTZ' % MAXROWS,
               assumes=['slice: the statements assigning row_min and row_max', 'NAXIS2 is a python int'])
    try:
        lo, hi = slicer.names_by_role(F, 'load_image_band', 'section-rows') or ('row_min', 'row_max')
        fac, text = slicer.slice_function(F, 'load_image_band', targets=[lo, hi], params=['header', 'band'], returns=[lo, hi], closure=True, closure_exclude=['header', 'band', 'hdulist', 'compressed'])
    except slicer.AnchorMissing as e:
        rep.inconc('anchor-missing %s' % e)
        return
    _ROWS_F = fac(dict(fp.BUILTINS))
    rep.sample(dict(kernel='K-rows', slice=text))
    import multiprocessing as mp
    to = 40000 if tier == 'quick' else 600000
    try:
        with mp.get_context('fork').Pool(16) as pool:
            results = pool.map(_rows_worker, [(n, to) for n in range(1, 65)], chunksize=1)
    except Exception as e:
        rep.inconc('K-rows: the row arithmetic slice is not executable on bit-precise values (%r); the concrete replay oracle below still runs' % (e,))
        rep.end_kernel()
        return
    done = set()
    for n, res in zip(range(1, 65), results):
        for name, r, m, dt in res:
            rep.count(r if r in ('sat', 'unsat') else 'unknown', '%s [n=%d]' % (name, n), queries=1, solver_s=dt)
            if r == 'sat' and name not in done:
                bad, cls, detail = oracle_bands(m['rows'], m['n'])
                if rep.finding('C20/K-rows/%s' % (cls or name), dict(kind='rows', rows=m['rows'], n=m['n']), detail or 'model %s' % m, reproduced=bad) != 'not-reproduced':
                    done.add(name)
        if n in (1, 7, 49, 64):
            rep.sample(dict(kernel='K-rows', n=n, results=[(a, b_, c) for a, b_, c, _ in res]))
    rep.end_kernel()


class FakeData:
    def __init__(self):
        self.slices = []

    def __getitem__(self, idx):
        self.slices.append(idx)
        return ('data', idx)

    def __imul__(self, o):
        return self


class FakeHDU:
    def __init__(self, header):
        self.header = header
        self.data = FakeData()


def k_header(rep):
    rep.kernel('K-header', functions=[F + ':load_image_band'],
               bounds='all integer row_min<=row_max, real CRPIX2; plain and compressed control paths',
               stubs=['fits.open/section -> cut (FakeHDU)', 'linear pixel axis: a band pixel y maps to full pixel y+row_min iff CRPIX2_band == CRPIX2 - row_min and no other WCS key changes'],
               assumes=['slice: row arithmetic replaced by symbolic ints; statements assigning header[...] and the return statements kept with their enclosing ifs'])
    try:
        lo, hi = slicer.names_by_role(F, 'load_image_band', 'section-rows') or ('row_min', 'row_max')
        fac, text = slicer.slice_function(F, 'load_image_band', targets=["header['NAXIS2']", "header['CRPIX2']", 'return', 'data'],
                                          params=['header', 'hdulist', 'compressed', lo, hi, 'NAXIS', 'a', 'hdu_index', 'cube_index', 'band'])
    except slicer.AnchorMissing as e:
        rep.inconc('anchor-missing %s' % e)
        return
    f = fac(dict(core.BUILTINS, Exception=Exception))
    rep.sample(dict(kernel='K-header', slice=text))
    for compressed in (False, True):
        for naxis in ((2, 3, 4) if not compressed else (2,)):
            def h(c, compressed=compressed, naxis=naxis):
                rmin, rmax = core.integer('row_min'), core.integer('row_max')
                c.assume(rmin.e >= 0)
                c.assume(rmin.e <= rmax.e)
                crpix2 = core.real('CRPIX2')
                keys = {'NAXIS': naxis, 'NAXIS1': core.integer('NAXIS1'), 'NAXIS2': core.integer('NAXIS2'), 'CRPIX1': core.real('CRPIX1'),
                        'CRPIX2': crpix2, 'CDELT2': core.real('CDELT2'), 'CRVAL2': core.real('CRVAL2')}
                before = dict(keys)
                hdr = dict(keys)
                hl = [FakeHDU(hdr)]

                class Sec:
                    section = FakeData()
                a = [Sec(), Sec()]
                out = f(hdr, hl, compressed, rmin, rmax, naxis, a, 0, 0, (core.integer('band_i'), core.integer('band_n')))
                if not (isinstance(out, tuple) and len(out) == 2):
                    raise core.Unsupported('unexpected return shape')
                data, oh = out
                c.oblige('header:CRPIX2 shifted by row_min', core.lift(oh['CRPIX2']) == crpix2.e - rmin.e)
                c.oblige('header:NAXIS2 == band height', core.lift(oh['NAXIS2']) == rmax.e - rmin.e)
                same = [k for k in before if k not in ('CRPIX2', 'NAXIS2')]
                c.oblige('header:other keys untouched', z3.And([core.lift(oh[k]) == core.lift(before[k]) for k in same]))
                src = hl[0].data if compressed else a[0].section
                sl = src.slices[-1] if src.slices else None
                rowsl = None
                if sl is not None:
                    rowsl = sl[-2] if isinstance(sl, tuple) and len(sl) >= 2 else None
                ok = rowsl is not None and isinstance(rowsl, slice) and rowsl.start is rmin and rowsl.stop is rmax
                c.oblige('header:rows [row_min:row_max] read', z3.BoolVal(bool(ok)))
                return dict(compressed=compressed, naxis=naxis)
            st, res = explore(h)
            rep.stats(st)
            for r in res:
                for ob in r['obligations']:
                    rep.count(ob['result'], ob['name'] + (':compressed' if compressed else ':plain'))
                    if ob['result'] == 'sat':
                        kind = 'compressed' if compressed else ('cube' if naxis == 3 else 'plain')
                        bad, cls, detail = oracle_bands(7, 2, kind)
                        rep.finding('C20/K-header/%s' % (cls or ob['name']), dict(kind='bands', rows=7, n=2, filekind=kind), detail or ob['name'], reproduced=bad)
                rep.sample(dict(kernel='K-header', case=r['out'], obligations=[(o['name'], o['result']) for o in r['obligations']]))
    rep.end_kernel()


def k_validate(rep, seed):
    """executor validation / property-level runs of the real function for a few (rows, n) incl. the classic rounding pairs"""
    import random
    rng = random.Random(seed)
    cases = [(4, 49, 'plain'), (115, 7, 'plain'), (10, 3, 'cube'), (9, 2, 'compressed'), (11, 4, 'scaled')] + [(rng.randint(1, 300), rng.randint(1, 64), 'plain') for _ in range(6)]
    rep.kernel('K-replay-oracle', functions=[F + ':load_image_band', F + ':compress', F + ':expand'], bounds='%d concrete (rows, n, kind) cases through real FITS I/O' % len(cases),
               assumes=['pixel equality for plain/cube/compressed files is plumbing through astropy: checked on concrete files only (not solver-decided)'])
    for R, N, kind in cases:
        bad, cls, detail = oracle_bands(R, N, kind)
        rep.validated_runs(1)
        if bad:
            rep.finding('C20/K-rows/%s' % cls if kind == 'plain' else 'C20/K-header/%s' % cls, dict(kind='bands', rows=R, n=N, filekind=kind), detail, kernel='K-replay-oracle')
    rep.end_kernel()


# ------------------------------------------------------------------------------------------------
# K-exec: the whole real load_image_band on a symbolic FITS file
# ------------------------------------------------------------------------------------------------
class Axis:
    def __init__(self, kind, lo, hi):
        self.kind, self.lo, self.hi = kind, lo, hi

    def length(self):
        return self.hi - self.lo


class SArr:
    """a view into the file's pixel array: which index range of which file axis each of its axes covers, which file axes
    were fixed by an integer index, and the factors it was multiplied by"""
    def __init__(self, axes, fixed=None, scaled=None):
        self.axes, self.fixed, self.scaled = list(axes), dict(fixed or {}), list(scaled or [])

    @property
    def shape(self):
        return tuple(a.length() for a in self.axes)

    @property
    def ndim(self):
        return len(self.axes)

    def _bound(self, v, ax, default):
        if v is None:
            return default
        if isinstance(v, SN):
            neg = v < 0
            if bool(neg):
                raise core.Unsupported('negative slice bound')
        elif v < 0:
            raise core.Unsupported('negative slice bound')
        return core.sym_min(ax.lo + v, ax.hi)        # python slicing clamps to the axis length

    def __getitem__(self, key):
        key = key if isinstance(key, tuple) else (key,)
        if any(k is Ellipsis for k in key):
            raise core.Unsupported('ellipsis index')
        key = key + (slice(None),) * (len(self.axes) - len(key))
        if len(key) != len(self.axes):
            raise IndexError('too many indices for array: array is %d-dimensional, but %d were indexed' % (len(self.axes), len(key)))
        axes, fixed = [], dict(self.fixed)
        for k, ax in zip(key, self.axes):
            if isinstance(k, slice):
                if k.step not in (None, 1):
                    raise core.Unsupported('slice step')
                axes.append(Axis(ax.kind, self._bound(k.start, ax, ax.lo), self._bound(k.stop, ax, ax.hi)))
            else:
                inr = (k >= 0) & (k < ax.length()) if isinstance(k, SN) or isinstance(ax.length(), SN) else (0 <= k < ax.length())
                if not bool(inr):
                    raise IndexError('index %s is out of bounds for axis with size %s' % (k, ax.length()))
                fixed[ax.kind] = ax.lo + k
        return SArr(axes, fixed, self.scaled)

    def __imul__(self, o):
        self.scaled = self.scaled + [o]
        return self

    def __mul__(self, o):
        return SArr(self.axes, self.fixed, self.scaled + [o])
    __rmul__ = __mul__

    def copy(self):
        return SArr(self.axes, self.fixed, self.scaled)

    def astype(self, *a, **k):
        return self


class ExecNP(loader.NPProxy):
    def squeeze(self, a, axis=None):
        if not isinstance(a, SArr):
            return loader.real_np.squeeze(a) if axis is None else loader.real_np.squeeze(a, axis)
        keep, fixed = [], dict(a.fixed)
        for ax in a.axes:
            ln = ax.length()
            one = (ln == 1) if isinstance(ln, SN) else (ln == 1)
            if bool(one):
                fixed.setdefault(ax.kind, ax.lo)
            else:
                keep.append(ax)
        return SArr(keep, fixed, a.scaled)

    def array(self, a, *args, **kw):
        return a if isinstance(a, SArr) else loader.NPProxy.array(self, a, *args, **kw)
    asarray = array


KINDS = ('plain', 'cube', 'cube4', 'scaled', 'compressed')


def h_exec(ft, kind, n, bands):
    """bands: list of band numbers to load in this path (each through the whole real function, from a fresh header)"""
    def h(c):
        H, W, NC = core.integer('H'), core.integer('W'), core.integer('NC')
        for v, hi in ((H, 20000), (W, 8), (NC, 4)):
            c.assume(v.e >= 1)
            c.assume(v.e <= hi)
        ci = core.integer('cube_index') if kind in ('cube', 'cube4') else 0
        if kind in ('cube', 'cube4'):
            c.assume(z3.And(ci.e >= 0, ci.e < NC.e))
        naxis = {'plain': 2, 'scaled': 2, 'compressed': 2, 'cube': 3, 'cube4': 4}[kind]
        base = {'NAXIS': naxis, 'NAXIS1': W, 'NAXIS2': H, 'CRPIX1': core.real('CRPIX1'), 'CRPIX2': core.real('CRPIX2'), 'CDELT1': core.real('CDELT1'), 'CDELT2': core.real('CDELT2'),
                'CRVAL1': core.real('CRVAL1'), 'CRVAL2': core.real('CRVAL2'), 'CTYPE1': 'RA---SIN', 'CTYPE2': 'DEC--SIN'}
        if naxis >= 3:
            base['NAXIS3'] = NC
        if naxis == 4:
            base['NAXIS4'] = 1
        if kind == 'scaled':
            base['BSCALE'] = core.real('BSCALE')
        filehdr = dict(base)
        if kind == 'compressed':
            # what is on disk is the compressed grid; expand() hands back the full-size image and header
            filehdr.update({'BN_CFAC': 2, 'BN_NPX1': W, 'BN_NPX2': H, 'BN_RPX1': 0, 'BN_RPX2': 0, 'NAXIS1': core.integer('Wc'), 'NAXIS2': core.integer('Hc')})

        def full():
            ax = [Axis('row', 0, H), Axis('col', 0, W)]
            if naxis >= 3:
                ax = [Axis('chan', 0, NC)] + ax
            if naxis == 4:
                ax = [Axis('stokes', 0, 1)] + ax
            return SArr(ax)

        class HDU:
            def __init__(self, header, expanded=False):
                self.header = header
                self.data = full() if (expanded or kind != 'compressed') else SArr([Axis('crow', 0, filehdr['NAXIS2']), Axis('ccol', 0, filehdr['NAXIS1'])])
                self.section = self.data

        class HL(list):
            def __enter__(self):
                return self

            def __exit__(self, *a):
                return False

            def close(self):
                pass

        class Fits:
            @staticmethod
            def getheader(fn, *a, **k):
                return dict(filehdr)

            @staticmethod
            def open(fn, *a, **k):
                return HL([HDU(dict(filehdr))])
        ft.fits = Fits
        ft.expand = lambda datafile, outfile=None: HL([HDU(dict(base), expanded=True)])
        got = []
        L = core.lift
        for i in bands:
            tag = 'load_image_band[%s,band (%d,%d)]' % (kind, i, n)
            try:
                out = ft.load_image_band('f.fits', band=(i, n), cube_index=ci) if kind in ('cube', 'cube4') else ft.load_image_band('f.fits', band=(i, n))
            except (core.Unsupported, core.HarnessError, core.Cut, core.Infeasible):
                raise
            except Exception as e:
                c.oblige(tag + ':a valid band loads without error', z3.BoolVal(False), info=repr(e)[:200])
                return dict(raised=repr(e)[:200])
            ok = isinstance(out, tuple) and len(out) == 2 and isinstance(out[0], SArr)
            c.oblige(tag + ':returns (pixels, header)', z3.BoolVal(ok))
            if not ok:
                return dict()
            data, oh = out
            kinds = [a.kind for a in data.axes]
            c.oblige(tag + ':pixels are a 2-D (rows, columns) array of the image plane', z3.BoolVal(kinds == ['row', 'col']), info=str(kinds))
            if kinds != ['row', 'col']:
                return dict(kinds=kinds)
            lo, hi = data.axes[0].lo, data.axes[0].hi
            c.oblige(tag + ':all columns', z3.And(L(data.axes[1].lo) == 0, L(data.axes[1].hi) == W.e))
            c.oblige(tag + ':rows within the image', z3.And(L(lo) >= 0, L(lo) <= L(hi), L(hi) <= H.e))
            if naxis >= 3:
                c.oblige(tag + ':the requested plane of the cube', z3.BoolVal('chan' in data.fixed) if 'chan' not in data.fixed else L(data.fixed['chan']) == L(ci))
            if kind == 'scaled':
                c.oblige(tag + ':stored values multiplied by BSCALE exactly once', z3.BoolVal(len(data.scaled) == 1 and data.scaled[0] is base['BSCALE']))
            else:
                c.oblige(tag + ':pixels not rescaled', z3.BoolVal(not data.scaled))
            c.oblige(tag + ':header NAXIS2 == band height and NAXIS1 == width', z3.And(L(oh['NAXIS2']) == L(hi) - L(lo), L(oh['NAXIS1']) == W.e))
            c.oblige(tag + ':header CRPIX2 shifted by the first row of the band', L(oh['CRPIX2']) == base['CRPIX2'].e - L(lo))
            same = [k for k in ('CRPIX1', 'CDELT1', 'CDELT2', 'CRVAL1', 'CRVAL2') if k in oh]
            c.oblige(tag + ':other WCS keywords untouched', z3.And([z3.BoolVal(len(same) == 5)] + [L(oh[k]) == L(base[k]) for k in same] + [z3.BoolVal(oh.get('CTYPE1') == 'RA---SIN' and oh.get('CTYPE2') == 'DEC--SIN')]))
            got.append((i, lo, hi))
        for (i, lo, hi), (j, lo2, hi2) in zip(got, got[1:]):
            c.oblige('load_image_band[%s,n=%d]:band %d starts where band %d ends' % (kind, n, j, i), L(hi) == L(lo2))
        for (i, lo, hi) in got:
            if i == 0:
                c.oblige('load_image_band[%s,n=%d]:band 0 starts at row 0' % (kind, n), L(lo) == 0)
            if i == n - 1:
                c.oblige('load_image_band[%s,n=%d]:the last band ends at the last row' % (kind, n), L(hi) == H.e)
        return dict(kind=kind, n=n, bands=bands)
    return h


def k_exec(rep, thorough):
    ns = list(range(1, 9)) if not thorough else list(range(1, 65))
    rep.kernel('K-exec', functions=[F + ':load_image_band', F + ':is_compressed'],
               bounds='the WHOLE function on a symbolic file: rows 1..20000, columns 1..8, channels 1..4 and cube index symbolic integers; band counts n in %s with every band number (runs of adjacent bands in one path); plain / 3-D / 4-D / BSCALE / compressed files' % ns,
               stubs=['astropy fits.getheader / fits.open / .section -> header dict and a view object that records which index range of which file axis every axis covers (python slice clamping, integer indexing, np.squeeze with a case split on length == 1)',
                      'expand() -> full-size image and header (contract: the header it returns describes the expanded image)'],
               assumes=['python integers (no float rounding here: K-rows decides the arithmetic bit-precisely)'], outside=['pixel values (views only)', 'more than 8 bands in the quick tier'])
    ft = loader.load_private(['fits_tools'])['fits_tools']
    loader.patch(ft, np=ExecNP())
    plans, meta = [], []
    for kind in KINDS:
        for n in ns:
            groups = [[i, i + 1] for i in range(0, n - 1)] or [[0]]
            if n > 16:
                # longer runs of consecutive bands per path (fewer paths): every adjacent pair is still covered
                groups = [list(range(i, min(i + 9, n))) for i in range(0, n - 1, 8)]
            for g in groups:
                plans.append((h_exec(ft, kind, n, g), dict(wall_s=300)))
                meta.append((kind, n))
    done = set()
    for (kind, n), (st, res) in zip(meta, core.explore_many(plans, workers=16)):
        rep.stats(st)
        for r in res:
            for ob in r['obligations']:
                rep.count(ob['result'], ob['name'])
                if ob['result'] == 'sat' and (kind, ob['name'].split(':')[-1]) not in done:
                    m = ob.get('model') or {}
                    rows = int(m.get('H', 7) or 7)
                    cols = int(m.get('W', 3) or 3)
                    cands = [(rows, n, cols)] + [(r_, n, c_) for r_, c_ in ((7, 3), (n, 3), (n + 1, 5), (9, 2))]
                    bad = cls = detail = None
                    for r_, n_, c_ in cands:
                        c_ = max(2, c_)
                        try:
                            bad, cls, detail = oracle_bands(r_, n_, kind, cols=c_)
                        except Exception as e:          # e.g. compress() itself refuses a degenerate image: not this property
                            bad, cls, detail = False, None, 'oracle not applicable: %r' % (e,)
                        if bad:
                            rows, cols = r_, c_
                            break
                    if rep.finding('C20/K-exec/%s' % (cls or ob['name'].split(':')[-1]), dict(kind='bands', rows=rows, n=n, filekind=kind, cols=cols), detail or ob['name'], reproduced=bool(bad)) != 'not-reproduced':
                        done.add((kind, ob['name'].split(':')[-1]))
        if res and n in (1, 3, 8):
            rep.sample(dict(kernel='K-exec', kind=kind, n=n, paths=st.paths, obligations=[(o['name'].split(':')[-1], o['result']) for o in res[0]['obligations']][:6]))
    rep.end_kernel()


def run(rep):
    rep.assume('slices are regenerated from the working tree by anchors (names), never line numbers')
    k_valid(rep)
    k_rows(rep, rep.tier)
    k_header(rep)
    k_exec(rep, rep.tier == 'thorough')
    k_validate(rep, rep.seed)
    rep.not_decided += ['pixel equality through astropy section[] / BSCALE scaling (concrete replay only)', '4-D files beyond the slice plumbing']


def replay(w):
    wit = w['witness']
    if wit.get('kind') == 'invalid':
        bad, cls, detail = oracle_invalid(int(wit['i']), int(wit['n']))
    else:
        bad, cls, detail = oracle_bands(int(wit['rows']), int(wit['n']), wit.get('filekind', 'plain'), cols=int(wit.get('cols', 3)))
    return bad, '%s: %s' % (cls, detail)


if __name__ == '__main__':
    main(sys.modules[__name__])
