"""C20 image bands tile the image exactly and keep its astrometry.
Slices of the real load_image_band (validation chain, row_min/row_max arithmetic, header update) run on
bit-precise symbolic ints/floats (the arithmetic is rounding-sensitive) and on symbolic reals (header)."""
import os
import shutil
import sys
import tempfile
import time

import z3

from symx import core, fp, loader, slicer
from symx.core import SN, explore
from symx.report import main

PID = 'C20'
F = 'AegeanTools/fits_tools.py'


class AegeanErrorStub(Exception):
    pass


def solve(rep, name, cons, neg, timeout_ms):
    s = z3.Solver()
    s.set('timeout', timeout_ms)
    s.add(cons)
    t = time.time()
    reach = str(s.check())
    s.add(neg)
    r = str(s.check())
    dt = time.time() - t
    if reach != 'sat':
        rep.count('vacuous' if reach == 'unsat' else 'unknown', name, queries=2, solver_s=dt)
        return reach, None
    rep.count(r if r in ('sat', 'unsat') else 'unknown', name, queries=2, solver_s=dt)
    return r, (s.model() if r == 'sat' else None)


# ------------------------------------------------------------------------------------------------
def oracle_bands(rows, n, kind='plain', cols=3):
    """property-level oracle on the REAL load_image_band: bands 0..n-1 of a rows x cols image are consecutive,
    cover every row once, carry the right pixels and a header that maps band pixels to the full image's sky."""
    import numpy as np
    from astropy.io import fits
    from astropy.wcs import WCS
    ft = loader.real('fits_tools')
    d = tempfile.mkdtemp(prefix='c20_', dir='/var/tmp')
    try:
        img = (np.arange(rows, dtype=np.float32)[:, None] * 10 + np.arange(cols, dtype=np.float32)[None, :])
        hdr = fits.Header()
        hdr['CTYPE1'], hdr['CTYPE2'] = 'RA---SIN', 'DEC--SIN'
        hdr['CRVAL1'], hdr['CRVAL2'] = 10.0, -30.0
        hdr['CRPIX1'], hdr['CRPIX2'] = 2.0, rows / 2.0
        hdr['CDELT1'], hdr['CDELT2'] = -0.01, 0.01
        data = img
        if kind == 'cube':
            data = img[None, :, :]
        if kind == 'scaled':
            hdr['BSCALE'] = 0.5      # stored values are physical / 0.5
        fn = os.path.join(d, 'a.fits')
        if kind == 'scaled':
            fits.PrimaryHDU((data / 0.5).astype(np.float32), header=hdr).writeto(fn)
            with fits.open(fn, mode='update', do_not_scale_image_data=True) as hl_:
                hl_[0].header['BSCALE'] = 0.5
        else:
            fits.PrimaryHDU(data, header=hdr).writeto(fn)
        if kind == 'compressed':
            cfn = os.path.join(d, 'c.fits')
            ft.compress(fn, 2, cfn)
            full = ft.expand(cfn)[0]
            img = np.array(full.data)
            fullw = WCS(full.header, naxis=2)
            fn = cfn
        else:
            fullw = WCS(fits.getheader(fn), naxis=2)
        nxt = 0
        for i in range(n):
            try:
                bd, bh = ft.load_image_band(fn, band=(i, n))
            except Exception as e:
                return True, 'raises', 'band (%d,%d) of %d rows: %r' % (i, n, rows, e)
            bd = np.squeeze(np.array(bd))
            if bd.ndim == 1:
                bd = bd.reshape(-1, cols) if bd.size else bd.reshape(0, cols)
            h = bd.shape[0]
            if not np.array_equal(bd, img[nxt:nxt + h]):
                return True, 'pixels', 'band (%d,%d) of %d rows does not equal rows %d..%d' % (i, n, rows, nxt, nxt + h)
            if int(bh['NAXIS2']) != h:
                return True, 'naxis2-' + kind, 'band (%d,%d) of %d rows: header NAXIS2=%s for %d data rows' % (i, n, rows, bh['NAXIS2'], h)
            if h > 0:
                bw = WCS(bh, naxis=2)
                a = bw.all_pix2world([[1, 0]], 0)
                b = fullw.all_pix2world([[1, nxt]], 0)
                if abs(a - b).max() > 1e-9:
                    return True, 'astrometry-' + kind, 'band (%d,%d) of %d rows [%s]: band pixel (1,0) -> %s but full pixel (1,%d) -> %s' % (i, n, rows, kind, a, nxt, b)
                if int(bh['NAXIS2']) != h:
                    return True, 'naxis2-' + kind, 'band (%d,%d): NAXIS2=%s for %d rows' % (i, n, bh['NAXIS2'], h)
            nxt += h
        if nxt != rows:
            return True, 'last-band-short', 'rows=%d bands=%d: bands cover rows [0,%d) only' % (rows, n, nxt)
        return False, None, None
    finally:
        shutil.rmtree(d, ignore_errors=True)


def oracle_invalid(i, n):
    ft = loader.real('fits_tools')
    exc = loader.real('exceptions').AegeanError
    valid = n >= 1 and 0 <= i < n
    try:
        ft.load_image_band('/nonexistent/file.fits', band=(i, n))
        raised = None
    except exc:
        raised = 'AegeanError'
    except Exception as e:
        raised = type(e).__name__     # valid specs proceed to open the (missing) file
    if valid and raised == 'AegeanError':
        return True, 'valid-rejected', 'band (%d,%d) rejected' % (i, n)
    if not valid and raised != 'AegeanError':
        return True, 'invalid-accepted', 'band (%d,%d) not rejected with AegeanError (%s)' % (i, n, raised)
    return False, None, None


# ------------------------------------------------------------------------------------------------
def k_valid(rep):
    rep.kernel('K-valid', functions=[F + ':load_image_band'], bounds='all integers (i, n), unbounded (linear integer arithmetic)',
               stubs=['AegeanError -> stub exception class'], assumes=['slice: the raise-only if/elif chain at the top of load_image_band'])
    try:
        fac, text = slicer.slice_function(F, 'load_image_band', targets=[], params=['band'], raises='AegeanError')
    except slicer.AnchorMissing as e:
        rep.inconc('anchor-missing %s' % e)
        return
    f = fac(dict(AegeanError=AegeanErrorStub))

    def h(c):
        i, n = core.integer('i'), core.integer('n')
        valid = z3.And(n.e >= 1, i.e >= 0, i.e < n.e)
        try:
            f((i, n))
            c.oblige('valid:accepted-implies-valid', valid)
            return 'accepted'
        except AegeanErrorStub:
            c.oblige('valid:rejected-implies-invalid', z3.Not(valid))
            return 'rejected'
    st, res = explore(h)
    rep.stats(st)
    for r in res:
        for ob in r['obligations']:
            rep.count(ob['result'], ob['name'])
            if ob['result'] == 'sat':
                i, n = int(ob['model'].get('i', 0)), int(ob['model'].get('n', 0))
                bad, cls, detail = oracle_invalid(i, n)
                rep.finding('C20/K-valid/%s' % (cls or ob['name']), dict(kind='invalid', i=i, n=n), detail or 'model i=%d n=%d' % (i, n), reproduced=bad)
        rep.sample(dict(kernel='K-valid', path=r['trace'], outcome=r['out'], obligations=[(o['name'], o['result']) for o in r['obligations']]))
    if not any(r['out'] == 'rejected' for r in res) or not any(r['out'] == 'accepted' for r in res):
        rep.finding('C20/K-valid/no-validation', dict(kind='invalid', i=-1, n=1), 'validation chain never rejects/accepts', reproduced=oracle_invalid(-1, 1)[0] or oracle_invalid(3, 2)[0] or oracle_invalid(0, 0)[0])
    rep.end_kernel()


_ROWS_F = None
MAXROWS = 20000


def _rows_worker(args):
    n, to = args
    f = _ROWS_F
    rows, i = z3.BitVec('rows', 32), z3.BitVec('i', 32)
    hdr = {'NAXIS2': fp.FInt(rows)}
    rmin, rmax = f(hdr, (fp.FInt(i), n))
    rmin2, _ = f(hdr, (fp.FInt(i + 1), n))
    rmin0, _ = f(hdr, (0, n))
    _, rmaxl = f(hdr, (n - 1, n))
    out = []
    for v in (rmin, rmax, rmin0, rmaxl):
        if isinstance(v, int):
            continue
        if not isinstance(v, fp.FInt):
            return [('rows:integer-valued rows', 'sat', dict(rows=5, n=n), 0.0)]
    b = lambda v: v.bv if isinstance(v, fp.FInt) else z3.BitVecVal(v, 32)
    base = [rows >= 1, rows <= MAXROWS, i >= 0, i < n]
    obs = [('rows:first-band-starts-at-0', b(rmin0) != 0),
           ('rows:last-band-ends-at-rows', b(rmaxl) != rows),
           ('rows:consecutive row_max(i)==row_min(i+1)', z3.And(i + 1 < n, b(rmax) != b(rmin2))),
           ('rows:0<=row_min<=row_max', z3.Not(z3.And(b(rmin) >= 0, b(rmin) <= b(rmax))))]
    for name, neg in obs:
        s = z3.Solver()
        s.set('timeout', to)
        s.add(base)
        s.add(z3.simplify(neg))
        t = time.time()
        r = str(s.check())
        m = None
        if r == 'sat':
            mm = s.model()
            m = dict(rows=mm.eval(rows, model_completion=True).as_long(), n=n, i=mm.eval(i, model_completion=True).as_long())
        out.append((name, r, m, time.time() - t))
    return out


def k_rows(rep, tier):
    global _ROWS_F
    rep.kernel('K-rows', functions=[F + ':load_image_band'],
               bounds='rows in [1,%d] symbolic, band index i symbolic in [0,n), band count n enumerated 1..64 (one query set per n); python ints as 32-bit vectors (no wrap in range), floats as IEEE binary64 RNE, int() as RTZ' % MAXROWS,
               assumes=['slice: the statements assigning row_min and row_max', 'NAXIS2 is a python int'])
    try:
        lo, hi = slicer.names_by_role(F, 'load_image_band', 'section-rows') or ('row_min', 'row_max')
        fac, text = slicer.slice_function(F, 'load_image_band', targets=[lo, hi], params=['header', 'band'], returns=[lo, hi], closure=True, closure_exclude=['header', 'band', 'hdulist', 'compressed'])
    except slicer.AnchorMissing as e:
        rep.inconc('anchor-missing %s' % e)
        return
    _ROWS_F = fac(dict(fp.BUILTINS))
    rep.sample(dict(kernel='K-rows', slice=text))
    import multiprocessing as mp
    to = 40000 if tier == 'quick' else 600000
    try:
        with mp.get_context('fork').Pool(16) as pool:
            results = pool.map(_rows_worker, [(n, to) for n in range(1, 65)], chunksize=1)
    except Exception as e:
        rep.inconc('K-rows: the row arithmetic slice is not executable on bit-precise values (%r); the concrete replay oracle below still runs' % (e,))
        rep.end_kernel()
        return
    done = set()
    for n, res in zip(range(1, 65), results):
        for name, r, m, dt in res:
            rep.count(r if r in ('sat', 'unsat') else 'unknown', '%s [n=%d]' % (name, n), queries=1, solver_s=dt)
            if r == 'sat' and name not in done:
                bad, cls, detail = oracle_bands(m['rows'], m['n'])
                if rep.finding('C20/K-rows/%s' % (cls or name), dict(kind='rows', rows=m['rows'], n=m['n']), detail or 'model %s' % m, reproduced=bad) != 'not-reproduced':
                    done.add(name)
        if n in (1, 7, 49, 64):
            rep.sample(dict(kernel='K-rows', n=n, results=[(a, b_, c) for a, b_, c, _ in res]))
    rep.end_kernel()


class FakeData:
    def __init__(self):
        self.slices = []

    def __getitem__(self, idx):
        self.slices.append(idx)
        return ('data', idx)

    def __imul__(self, o):
        return self


class FakeHDU:
    def __init__(self, header):
        self.header = header
        self.data = FakeData()


def k_header(rep):
    rep.kernel('K-header', functions=[F + ':load_image_band'],
               bounds='all integer row_min<=row_max, real CRPIX2; plain and compressed control paths',
               stubs=['fits.open/section -> cut (FakeHDU)', 'linear pixel axis: a band pixel y maps to full pixel y+row_min iff CRPIX2_band == CRPIX2 - row_min and no other WCS key changes'],
               assumes=['slice: row arithmetic replaced by symbolic ints; statements assigning header[...] and the return statements kept with their enclosing ifs'])
    try:
        lo, hi = slicer.names_by_role(F, 'load_image_band', 'section-rows') or ('row_min', 'row_max')
        fac, text = slicer.slice_function(F, 'load_image_band', targets=["header['NAXIS2']", "header['CRPIX2']", 'return', 'data'],
                                          params=['header', 'hdulist', 'compressed', lo, hi, 'NAXIS', 'a', 'hdu_index', 'cube_index', 'band'])
    except slicer.AnchorMissing as e:
        rep.inconc('anchor-missing %s' % e)
        return
    f = fac(dict(core.BUILTINS, Exception=Exception))
    rep.sample(dict(kernel='K-header', slice=text))
    for compressed in (False, True):
        for naxis in ((2, 3, 4) if not compressed else (2,)):
            def h(c, compressed=compressed, naxis=naxis):
                rmin, rmax = core.integer('row_min'), core.integer('row_max')
                c.assume(rmin.e >= 0)
                c.assume(rmin.e <= rmax.e)
                crpix2 = core.real('CRPIX2')
                keys = {'NAXIS': naxis, 'NAXIS1': core.integer('NAXIS1'), 'NAXIS2': core.integer('NAXIS2'), 'CRPIX1': core.real('CRPIX1'),
                        'CRPIX2': crpix2, 'CDELT2': core.real('CDELT2'), 'CRVAL2': core.real('CRVAL2')}
                before = dict(keys)
                hdr = dict(keys)
                hl = [FakeHDU(hdr)]

                class Sec:
                    section = FakeData()
                a = [Sec(), Sec()]
                out = f(hdr, hl, compressed, rmin, rmax, naxis, a, 0, 0, (core.integer('band_i'), core.integer('band_n')))
                if not (isinstance(out, tuple) and len(out) == 2):
                    raise core.Unsupported('unexpected return shape')
                data, oh = out
                c.oblige('header:CRPIX2 shifted by row_min', core.lift(oh['CRPIX2']) == crpix2.e - rmin.e)
                c.oblige('header:NAXIS2 == band height', core.lift(oh['NAXIS2']) == rmax.e - rmin.e)
                same = [k for k in before if k not in ('CRPIX2', 'NAXIS2')]
                c.oblige('header:other keys untouched', z3.And([core.lift(oh[k]) == core.lift(before[k]) for k in same]))
                src = hl[0].data if compressed else a[0].section
                sl = src.slices[-1] if src.slices else None
                rowsl = None
                if sl is not None:
                    rowsl = sl[-2] if isinstance(sl, tuple) and len(sl) >= 2 else None
                ok = rowsl is not None and isinstance(rowsl, slice) and rowsl.start is rmin and rowsl.stop is rmax
                c.oblige('header:rows [row_min:row_max] read', z3.BoolVal(bool(ok)))
                return dict(compressed=compressed, naxis=naxis)
            st, res = explore(h)
            rep.stats(st)
            for r in res:
                for ob in r['obligations']:
                    rep.count(ob['result'], ob['name'] + (':compressed' if compressed else ':plain'))
                    if ob['result'] == 'sat':
                        kind = 'compressed' if compressed else ('cube' if naxis == 3 else 'plain')
                        bad, cls, detail = oracle_bands(7, 2, kind)
                        rep.finding('C20/K-header/%s' % (cls or ob['name']), dict(kind='bands', rows=7, n=2, filekind=kind), detail or ob['name'], reproduced=bad)
                rep.sample(dict(kernel='K-header', case=r['out'], obligations=[(o['name'], o['result']) for o in r['obligations']]))
    rep.end_kernel()


def k_validate(rep, seed):
    """executor validation / property-level runs of the real function for a few (rows, n) incl. the classic rounding pairs"""
    import random
    rng = random.Random(seed)
    cases = [(4, 49, 'plain'), (115, 7, 'plain'), (10, 3, 'cube'), (9, 2, 'compressed'), (11, 4, 'scaled')] + [(rng.randint(1, 300), rng.randint(1, 64), 'plain') for _ in range(6)]
    rep.kernel('K-replay-oracle', functions=[F + ':load_image_band', F + ':compress', F + ':expand'], bounds='%d concrete (rows, n, kind) cases through real FITS I/O' % len(cases),
               assumes=['pixel equality for plain/cube/compressed files is plumbing through astropy: checked on concrete files only (not solver-decided)'])
    for R, N, kind in cases:
        bad, cls, detail = oracle_bands(R, N, kind)
        rep.validated_runs(1)
        if bad:
            rep.finding('C20/K-rows/%s' % cls if kind == 'plain' else 'C20/K-header/%s' % cls, dict(kind='bands', rows=R, n=N, filekind=kind), detail, kernel='K-replay-oracle')
    rep.end_kernel()


def run(rep):
    rep.assume('slices are regenerated from the working tree by anchors (names), never line numbers')
    k_valid(rep)
    k_rows(rep, rep.tier)
    k_header(rep)
    k_validate(rep, rep.seed)
    rep.not_decided += ['pixel equality through astropy section[] / BSCALE scaling (concrete replay only)', '4-D files beyond the slice plumbing']


def replay(w):
    wit = w['witness']
    if wit.get('kind') == 'invalid':
        bad, cls, detail = oracle_invalid(int(wit['i']), int(wit['n']))
    else:
        bad, cls, detail = oracle_bands(int(wit['rows']), int(wit['n']), wit.get('filekind', 'plain'))
    return bad, '%s: %s' % (cls, detail)


if __name__ == '__main__':
    main(sys.modules[__name__])
