"""C02 islands are exactly the seeded, flood-thresholded 8-connected pixel groups.
The real find_islands (and PixelIsland.calc_bounding_box/set_mask) run on symbolic pixel values, thresholds,
background and noise; per path the flood mask is concrete (real scipy label), values stay symbolic."""
import itertools
import sys
from fractions import Fraction

import numpy as real_np
import z3

from symx import core, loader
from symx.core import real, explore
from symx.report import main
from checks import islands as I

PID = 'C02'


def h_islands(sf, R, C, nan, bkgmode):
    nan = set(nan)

    def h(c):
        im = I.make_image(R, C, nan)
        flood, seed = real('flood'), real('seed')
        c.assume(flood.e > 0)
        c.assume(seed.e >= flood.e)
        if bkgmode == 'zero':
            bkg = real_np.zeros((R, C))
            rms = real_np.ones((R, C))
        elif bkgmode == 'scalar':
            b, s = real('bkg'), real('rms')
            c.assume(s.e > 0)
            bkg = real_np.empty((R, C), dtype=object)
            rms = real_np.empty((R, C), dtype=object)
            bkg[:] = b
            rms[:] = s
        else:   # per-pixel
            bkg = real_np.empty((R, C), dtype=object)
            rms = real_np.empty((R, C), dtype=object)
            for r in range(R):
                for cc in range(C):
                    bkg[r, cc] = real('bkg_%d_%d' % (r, cc))
                    rms[r, cc] = real('rms_%d_%d' % (r, cc))
                    c.assume(rms[r, cc].e > 0)
        tag = 'find_islands[%dx%d,nan=%d,bkg=%s]' % (R, C, len(nan), bkgmode)
        try:
            isl = sf.find_islands(im, bkg, rms, seed_clip=seed, flood_clip=flood)
        except (core.Unsupported, core.HarnessError, core.Cut):
            raise
        except Exception as e:
            c.oblige(tag + ':completes without exception', z3.BoolVal(False), info=repr(e))
            return dict(mask=[], islands=0, comps=0, raised=repr(e))
        snr = I.snr_terms(R, C, nan, bkg, rms)
        mask = [[((r, cc) not in nan) and c.decide(snr[(r, cc)] >= flood.e) for cc in range(C)] for r in range(R)]
        comps = I.components(mask)
        got = []
        shape_ok = True
        for i in isl:
            box, pix = I.island_pixels(i)
            if isinstance(pix, str):
                shape_ok = False
                continue
            got.append((box, pix))
        c.oblige(tag + ':box and mask agree', z3.BoolVal(shape_ok))
        gp = [p for _, p in got]
        c.oblige(tag + ':every reported island is one whole 8-connected flood group', z3.BoolVal(all(p in comps for p in gp) and shape_ok))
        c.oblige(tag + ':islands disjoint, no blank member', z3.BoolVal(len(set(x for p in gp for x in p)) == sum(len(p) for p in gp) and not any(x in nan for p in gp for x in p)))
        c.oblige(tag + ':boxes tight', z3.BoolVal(all(box == I.tight_box(pix) for box, pix in got)))
        order = [comps.index(p) for p in gp if p in comps]
        c.oblige(tag + ':scan order', z3.BoolVal(order == sorted(order)))
        for comp in comps:
            own = z3.Or([snr[p] > seed.e for p in comp])
            kept = comp in gp
            c.oblige(tag + ':kept <=> own pixel above seed', own if kept else z3.Not(own), info=dict(comp=comp, kept=kept))
        return dict(mask=[''.join('#' if x else '.' for x in row) for row in mask], islands=len(isl), comps=len(comps))
    return h


def fr(x, default=0.0):
    try:
        return float(x)
    except Exception:
        return default


def replay_case(w):
    sf = loader.real('source_finder')
    R, C = int(w['R']), int(w['C'])
    im = real_np.array(w['im'], dtype=float).reshape(R, C)
    bkg = real_np.array(w['bkg'], dtype=float).reshape(R, C)
    rms = real_np.array(w['rms'], dtype=float).reshape(R, C)
    seed, flood = float(w['seed']), float(w['flood'])
    try:
        isl = sf.find_islands(im, bkg, rms, seed_clip=seed, flood_clip=flood)
    except Exception as e:
        return True, 'raises-%s' % type(e).__name__, repr(e)
    exp = I.real_oracle(im, bkg, rms, seed, flood)
    return I.compare_real(isl, exp)


def witness(m, R, C, nan, bkgmode):
    im = [[(float('nan') if (r, c) in nan else fr(m.get('v_%d_%d' % (r, c), 0))) for c in range(C)] for r in range(R)]
    if bkgmode == 'zero':
        bkg = [[0.0] * C for _ in range(R)]
        rms = [[1.0] * C for _ in range(R)]
    elif bkgmode == 'scalar':
        bkg = [[fr(m.get('bkg', 0))] * C for _ in range(R)]
        rms = [[fr(m.get('rms', 1), 1.0)] * C for _ in range(R)]
    else:
        bkg = [[fr(m.get('bkg_%d_%d' % (r, c), 0)) for c in range(C)] for r in range(R)]
        rms = [[fr(m.get('rms_%d_%d' % (r, c), 1), 1.0) for c in range(C)] for r in range(R)]
    return dict(R=R, C=C, im=im, bkg=bkg, rms=rms, seed=fr(m.get('seed', 5)), flood=fr(m.get('flood', 4)))


def run(rep):
    sf, models = I.sym_finder()
    thorough = rep.tier == 'thorough'
    rep.assume('floats as reals (ties at the thresholds are exact in the solver; replays use the model\'s rationals rounded to doubles)',
               'monotonicity in the seed threshold and "no component from a failing group" are corollaries of kept <=> own-pixel-above-seed, which is decided for every seed')
    plans = []
    meta = []

    def add(R, C, nan, mode, **kw):
        plans.append((h_islands(sf, R, C, nan, mode), kw))
        meta.append((R, C, tuple(nan), mode))
    add(1, 1, (), 'percell')
    add(1, 3, (), 'percell')
    add(2, 2, (), 'percell')
    add(2, 2, (), 'scalar')
    for k in (1, 2):
        for nan in itertools.combinations([(r, c) for r in range(2) for c in range(3)], k):
            add(2, 3, nan, 'zero')
    add(2, 3, (), 'scalar')
    add(3, 2, (), 'zero')
    rep.kernel('K-islands', functions=[I.F + ':find_islands', I.FM + ':PixelIsland.calc_bounding_box', I.FM + ':PixelIsland.set_mask'],
               bounds='grids 1x1, 1x3, 2x2 (per-pixel symbolic bkg/rms: zero-valued pixels reachable), 2x3 with every pattern of 1-2 blank pixels, 3x2, 3x3 complete%s; every pixel value, flood, seed symbolic with 0<flood<=seed; bkg/rms zero/one, scalar-symbolic or per-pixel-symbolic as listed' % (', 3x3 with one blank pixel, 3x4' if thorough else ''),
               stubs=['scipy.ndimage.label/find_objects: the real library on the path-concrete flood mask', 'np.any/isfinite/nan_to_num on object arrays -> proxy'],
               outside=['grids larger than 3x4 (the defect classes are local: seed test, box, mask)', 'fitting of the islands'])
    small = core.explore_many(plans, workers=16)
    big = []
    st33, res33 = explore(h_islands(sf, 3, 3, (), 'zero'), workers=16, wall_s=600 if not thorough else 3000)
    plans_all = list(zip(meta, small)) + [((3, 3, (), 'zero'), (st33, res33))]
    if thorough:
        for nan in [((1, 1),), ((0, 0),), ((0, 1),)]:
            st, res = explore(h_islands(sf, 3, 3, nan, 'zero'), workers=16, wall_s=1500)
            plans_all.append(((3, 3, nan, 'zero'), (st, res)))
        st, res = explore(h_islands(sf, 3, 4, (), 'zero'), workers=16, wall_s=3000)
        plans_all.append(((3, 4, (), 'zero'), (st, res)))
    seen_fp = set()
    nrep = {}
    for (R, C, nan, mode), (st, res) in plans_all:
        rep.stats(st)
        nshown = 0
        for r in res:
            for ob in r['obligations']:
                rep.count(ob['result'], ob['name'])
                if ob['result'] == 'sat':
                    kind = ob['name']
                    nrep[kind] = nrep.get(kind, 0) + 1
                    if nrep[kind] > 12:
                        continue        # the same obligation kind on the same grid was already replayed 12 times
                    w = witness(ob['model'], R, C, set(nan), mode)
                    bad, cls, detail = replay_case(w)
                    fp = 'C02/K-islands/%s' % (cls or ob['name'].split(':')[-1])
                    if bad and fp in seen_fp:
                        rep.cur['sat_reproduced'] += 1
                        continue
                    if rep.finding(fp, w, detail or ob['name'], reproduced=bad) != 'not-reproduced':
                        seen_fp.add(fp)
            if nshown < 1 and r['out'] and r['out'].get('comps'):
                rep.sample(dict(grid='%dx%d' % (R, C), blank=list(nan), bkg=mode, path_mask=r['out']['mask'], islands=r['out']['islands'],
                                obligations=[(o['name'].split(':')[-1], o['result']) for o in r['obligations']]))
                nshown += 1
    rep.end_kernel()
    # executor validation: concrete images through the symbolic copy's source (real module) vs oracle
    import random
    rng = random.Random(rep.seed)
    sfr = loader.real('source_finder')
    for _ in range(60):
        R, C = rng.randint(1, 6), rng.randint(1, 6)
        im = real_np.array([[rng.choice([0, 0, 3, 4.5, 6, -5, -7, float('nan')]) for _ in range(C)] for _ in range(R)], dtype=float)
        w = dict(R=R, C=C, im=im.tolist(), bkg=[[0.0] * C] * R, rms=[[1.0] * C] * R, seed=5.0, flood=4.0)
        bad, cls, detail = replay_case(w)
        rep.validated_runs(1)
        if bad:
            rep.finding('C02/K-islands/%s' % cls, w, detail, kernel='K-islands')
            break
    # rounding edge: a pixel whose signal-to-noise QUOTIENT is one ulp below the flood clip while value >= clip * rms as a
    # PRODUCT: it is not a member, so it must not link its neighbours either
    for w in rounding_edge_cases():
        bad, cls, detail = replay_case(w)
        rep.validated_runs(1)
        if bad:
            rep.finding('C02/K-islands/rounding-edge:%s' % cls, w, detail, kernel='K-islands')
            break
    bad, cls, detail = many_groups_oracle()
    rep.validated_runs(1)
    if bad:
        rep.finding('C02/K-islands/%s' % cls, dict(kind='many-groups'), detail, kernel='K-islands')


def rounding_edge_cases(n=6):
    import random
    rng = random.Random(11)
    out = []
    for flood in (4.3, 3.7, 2.9):
        tries = 0
        while len([o for o in out if o['flood'] == flood]) < n // 3 and tries < 200000:
            tries += 1
            r = rng.uniform(0.5, 2.0)
            v = flood * r
            if v / r < flood:            # product says "at the clip", quotient says "below"
                im = [[10.0 * 1.0, v, 1.2 * flood, 0.0, 0.0]]
                rms = [[1.0, r, 1.0, 1.0, 1.0]]
                out.append(dict(R=1, C=5, im=im, bkg=[[0.0] * 5], rms=rms, seed=flood + 2.0, flood=flood))
                out.append(dict(R=3, C=3, im=[[10.0, 0.0, 0.0], [0.0, v, 0.0], [0.0, 0.0, 1.2 * flood]], bkg=[[0.0] * 3] * 3, rms=[[1.0, 1.0, 1.0], [1.0, r, 1.0], [1.0, 1.0, 1.0]], seed=flood + 2.0, flood=flood))
    return out


def many_groups_oracle(N=1500, seed=3):
    """a large noise image with far more flood-level groups than 16 bits can number: the seeded islands returned are exactly the
    8-connected flood groups that hold a pixel above the seed clip (counted independently with 32-bit labels)"""
    from scipy import ndimage
    sf = loader.real('source_finder')
    rng = real_np.random.default_rng(seed)
    im = rng.normal(0, 1, (N, N)).astype(real_np.float32)
    for k in range(40):
        r, c_ = int(rng.integers(5, N - 5)), int(rng.integers(5, N - 5))
        im[r - 1:r + 2, c_ - 1:c_ + 2] += 8.0
    bkg = real_np.zeros((N, N), dtype=real_np.float32)
    rms = real_np.ones((N, N), dtype=real_np.float32)
    snr = real_np.abs(im.astype(float))
    lab, n = ndimage.label(snr >= 2.0, structure=real_np.ones((3, 3)), output=real_np.int32)
    seeded = set(int(x) for x in real_np.unique(lab[snr > 4.0])) - {0}
    try:
        isl = list(sf.find_islands(im, bkg, rms, seed_clip=4.0, flood_clip=2.0))
    except Exception as e:
        return True, 'raises-%s' % type(e).__name__, repr(e)[:200]
    got = set()
    for i in isl:
        (x0, x1), (y0, y1) = i.bounding_box
        m = i.mask
        sub = lab[x0:x1, y0:y1][~real_np.asarray(m, dtype=bool)]
        ids = set(int(v) for v in real_np.unique(sub)) - {0}
        if len(ids) != 1:
            return True, 'island-not-one-group', 'an island covers flood groups %s' % sorted(ids)[:5]
        got |= ids
    if got != seeded:
        return True, 'many-groups', '%d flood groups (%d of them seeded) in a %dx%d image: %d seeded islands returned, %d missing (first missing label %s)' % (n, len(seeded), N, N, len(got), len(seeded - got), min(seeded - got) if seeded - got else None)
    return False, None, None


def replay(w):
    if w['witness'].get('kind') == 'many-groups':
        bad, cls, detail = many_groups_oracle()
        return bad, '%s: %s' % (cls, detail)
    bad, cls, detail = replay_case(w['witness'])
    return bad, '%s: %s' % (cls, detail)


if __name__ == '__main__':
    main(sys.modules[__name__])
