#!/usr/bin/env python3
"""regenerate MANIFEST.json from the table below (keeps it valid and in sync with checks/)"""
import json, os, subprocess
V = os.path.dirname(os.path.dirname(os.path.abspath(__file__)))
CHECKS = {
 'C17': dict(
    text='Bounded symbolic execution of the real angle_tools functions: dec2dms/dec2hms/dec2dec/ra2dec run on a symbolic real x with printed fields as decimal-rounding tokens (field ranges, carry, parse(format(x)) within half a last digit, every x in [-90,90] / [0,360)); gcd/bear/translate run on symbolic angles and the haversine/vector, position-angle and translate distance/bearing identities are decided exactly over the trig atoms. z3 decides each obligation; sympy only normalises.',
    note='floats modelled as reals (FP error of (x-d)*60, 1e-9 deg conditioning, triangle inequality and rhumb functions are outside); decimal rounding of printed fields modelled as any decimal within half a last digit; cos(dec)>0; sympy normaliser and z3 are trusted, cross-checked numerically; every model is replayed on the real functions before it is reported.',
    technique='symbolic execution of the real Python source on z3 terms (own executor), path forking by re-execution, z3 decides negated assertions; models replayed on real code',
    design='4/C17'),
 'C20': dict(
    text='Slices of the real load_image_band (validation chain, row_min/row_max arithmetic, header update, regenerated from the working tree by name anchors) are executed on bit-precise symbolic ints/floats (32-bit vectors, IEEE binary64, int() as RTZ) and symbolic reals. z3 decides for rows in [1,20000] symbolic, band index symbolic, band count enumerated 1..64: first band starts at 0, consecutive bands abut, last band ends at the last row, 0<=row_min<=row_max; invalid (i,n) <=> AegeanError for all integers; CRPIX2/NAXIS2 adjustment on plain and compressed control paths.',
    note='pixel equality through astropy section[]/BSCALE is plumbing checked on concrete files only (replay oracle); 32-bit ints cannot wrap within the stated ranges; slicing drops statements that do not assign the anchored names.',
    technique='AST slice of the real function executed on z3 bit-vector/floating-point terms; z3 (QF_BV/QF_FP/LIA) decides; models replayed through real FITS I/O',
    design='4/C20'),
 'C08': dict(
    text='One inductive step from an arbitrary region state: the real Region methods (union same/coarser/finer with renorm on/off, without, intersect, symmetric_difference, add_pixels+_renorm, get_demoted, get_area, sky_within) run on guarded finite sets whose membership bits are solver variables (all pixels below one level-1 pixel, depth 2-3, thorough 4); z3 decides per path that the deepest-level abstraction equals the set-algebra result, ids are valid integers, no patch is stored twice after renormalisation, caches stay coherent and queries change nothing. Covers histories of any length because every reachable cache/duplicate state is a pre-state.',
    note='universe restricted to one base-pixel subtree (ids are only used through 4p+k, p/4, p%4); healpy.ang2pix/nside2pixarea are the real library on concrete arguments; pickle round trip not decided; counterexamples are rebuilt through the public API and compared with python set algebra before being reported.',
    technique='symbolic execution of the real Python source on guarded finite sets (z3 Booleans), path forking by re-execution, z3 decides; inductive-step formulation of the history quantifier',
    design='4/C08'),
 'C12': dict(
    text='The real Region._uniq, write_fits and write_reg run on symbolic guarded sets (depth 1-3, thorough 4; empty-cache, post-get_demoted, post-get_area and cached states): z3 decides that decoding the NUNIQ list gives exactly the stored (level, pixel) set at all levels, MOCORDER equals the depth, one DS9 polygon is emitted per stored pixel with nest=True/step=1/int ids, and exports leave the region unchanged.',
    note='astropy FITS writing, SkyCoord formatting, healpy.boundaries and pickle are cut in the symbolic runs (arguments recorded) and run for real only in the replay oracle; polygon vertices vs HEALPix corners and .mim fidelity are not decided.',
    technique='symbolic execution of the real Python source on guarded finite sets (z3), z3 decides; I/O libraries cut with argument recorders; models replayed through real astropy/healpy',
    design='4/C12'),
 'C04': dict(
    text='The real fitting.jacobian runs on symbolic parameters and a symbolic pixel with Boolean-symbolic vary flags; each returned row is compared (sympy-normalised residual, z3 verdict) with the chain-rule derivative of the term produced by executing the real elliptical_gaussian, theta in degrees (K=pi/180 symbolic), row count and order checked on every path. lmfit_jacobian is decided as (J/errs).B transposed on symbolic matrices; covar_errors with inv() stubbed by an arbitrary symbolic matrix: the matrix inverted equals J^T J (J^T C^-1 J) and each stderr^2 equals the parameter\'s own global diagonal entry. 1-3 components (4 thorough).',
    note='floats as reals; Bmatrix/LAPACK, the optimiser and the hessian are outside; vary subsets: all 64 for one component, one Boolean-symbolic component x fixed patterns for the others when n>=2 (all 4096 for n=2 in thorough); sympy normaliser trusted, models replayed with central differences / explicit inverse on the real code.',
    technique='symbolic execution of the real Python source on z3 terms (units-aware trig algebra, exp atoms), automatic differentiation of the executed model term as oracle, sympy normalisation then z3 decides',
    design='4/C04'),
 'C02': dict(
    text='The real find_islands (with PixelIsland.calc_bounding_box/set_mask) is executed on images whose every pixel value, the thresholds (0<flood<=seed) and the background/noise are solver variables; every pixel comparison forks, so per path the flood mask is concrete (real scipy label) while values stay symbolic. z3 decides on every feasible path: each reported island is one whole 8-connected flood group, kept iff one of its OWN pixels exceeds the seed, boxes tight and consistent with masks, islands disjoint, no blank member, scan order. Grids 1x1..3x3 complete (2x3 with all 1-2 blank patterns; thorough 3x3 with a blank, 3x4).',
    note='floats as reals (threshold ties exact); grids above 3x4 are outside; monotonicity in the seed and "no component from a failing group" are corollaries of the kept<=>own-seed obligation; models are replayed on the real function against a flood-fill oracle.',
    technique='symbolic execution of the real Python source on z3 terms (own executor), exhaustive path forking by re-execution, z3 decides each obligation; models replayed on real code',
    design='4/C02'),
 'C11': dict(
    text='The real find_islands(region=, wcs=) runs on symbolic pixel values with the WCS (pixel->sky, any origin) and the region membership as UNINTERPRETED functions: z3 decides on every path that an island is kept iff some own pixel (row r, col c) has Inside(W_fits(c+1, r+1)), that kept islands are identical (box, mask, order) to the unrestricted run, and that degrees are handed over. Holding for every interpretation covers every WCS, region and depth. A syntactic scan confirms the fitting functions never read the region.',
    note='wcslib/HEALPix run for real only in the replay (TAN header, depth-14 region built from the model\'s inside-pixels); equality of fitted values follows from island identity plus the scan, the optimiser is not encoded; grids up to 2x3/3x2/1x4 (thorough 3x3, 2x4).',
    technique='symbolic execution of the real Python source with uninterpreted-function stubs (z3 EUF+LRA), path forking by re-execution; models replayed with real astropy WCS and a real Region',
    design='4/C11'),
 'C13': dict(
    text='Three kernels: (a) relational symbolic execution of the real find_islands on (im,bkg) and (-im,-bkg) with shared symbolic pixels: identical islands on every path; (b) the polarity-filter test sliced from find_sources_in_image on a symbolic peak flux: positive-only / negative-only catalogues are disjoint, of the requested sign, and together equal the both-polarities catalogue; (c) the isnegative / summit-selector / peak / amplitude-bound statements sliced from estimate_lmfit_parinfo, run relationally on (data,curve) and (-data,-curve): selections mirror for single-sign islands, peak pixel identical, bounds(-amp) = -bounds(amp) swapped. Mixed-sign islands are asymmetric: recorded as an open known finding.',
    note='equality of fitted values/errors/flags between the two runs needs the optimiser and is not decided; selector kernel: 3x3 island with 2 symbolic pixels; slices keep only the statements assigning the anchored names.',
    technique='relational symbolic execution of the real Python source / AST slices on z3 terms, z3 decides; models replayed on real estimate_lmfit_parinfo / find_islands',
    design='4/C13'),
 'C10': dict(
    text='The real MIMAS.mask_plane, the plane loop of mask_file (I/O faked) and mask_table run with the WCS and the region membership as UNINTERPRETED functions and symbolic pixel values (SymArray turns boolean-mask assignment into per-element ite): z3 decides for every image shape up to 4x3/3x4 (all rows!=cols combinations), 2-D/3-D/4-D data, negate on/off, that element [i,j] is blanked iff its FITS pixel centre (x=j+1,y=i+1) is outside (inside with negate) the region and every other value is untouched; tables of 0-4 rows incl. undefined coordinates and custom column names keep exactly the rows not inside, in order.',
    note='holds for every interpretation of the WCS and region, hence every projection/CRPIX/region/depth; wcslib, astropy Table and FITS I/O are real only in the replay oracle (30x40 SIN image, circular region; 6-row table with NaN coordinates); Region.sky_within false for non-finite input is decided in C08.',
    technique='symbolic execution of the real Python source with uninterpreted-function stubs for WCS and membership (z3 EUF), z3 decides; models replayed with real astropy WCS / Region / Table',
    design='4/C10'),
 'C14': dict(
    text='The real AeRes.make_model runs with sky2pix_ellipse stubbed to symbolic pixel-frame parameters (centre, FWHMs, angle, peak all symbolic); box corners are concretised by bounded case split. z3 decides per path: every rendered pixel equals peak*exp(-(u^2/sx^2+v^2/sy^2)/2) with centre (xo-1,yo-1), sigma=FWHM*FWHM2CC, theta CCW from x (exponent identity via normaliser); the rendered set is exactly the image part of the 5*FWHM box; a source is skipped only when its centre is off the image; two sources add; mask mode blanks exactly {model >= threshold}.',
    note='partial: residual<1e-3 after subtracting an extracted catalogue needs the optimiser; sky2pix_ellipse is C16; float32 and FITS I/O outside; images up to 3x3 (thorough 4x3); FWHM2CC checked as a constant.',
    technique='symbolic execution of the real Python source on z3 terms with bounded index concretisation; sympy normalisation then z3 decides; models replayed with a real WCSHelper against an independent Gaussian renderer',
    design='4/C14'),
 'C07': dict(
    text='Four solver kernels on code extracted from /repo on every run: (1) the stripe-height expression sliced from filter_mc_sharemem (>=1, >= grid step, for all integers); (2) a backward slice of the stripe layout and of the Barrier(parties=)/Pool(processes=) construction executed on symbolic-length lists: equal numbers of starts/ends, stripes abut, cover [0,rows), non-empty, parties = stripes, processes >= parties (a worker blocked in wait() keeps its pool slot) - linear integer arithmetic, unbounded; (3) z3 bounded model checking of the worker protocol whose skeleton (waits, resets, abort-on-failure, shared-map reads/writes) is extracted from the AST, with CPython Barrier and Pool semantics as a transition model: for n<=3 stripes (4 thorough), ALL interleavings, zero or one injected exception at any phase: no deadlock, no BrokenBarrierError without a fault, every read of the shared background ordered after all its writes, masking ordered after all reads, a fault always surfaces; (4) crash point as a solver variable over the try/finally owning the shared memory: every created segment is unlinked.',
    note='Barrier/Pool model is hand-written after CPython 3.12 threading.Barrier / multiprocessing.Pool (validated by forcing solver schedules on the real workers through the env-guarded delay/fault hook, watchdog, /dev/shm listing); worker death by signal, >4 stripes and the numeric effect of the stripe count are outside; bit-precise rounding of the stripe height returns unknown in z3 and is not claimed (not needed: processes >= parties is structural).',
    technique='z3 bounded model checking of a transition system extracted from the AST (finite-domain bit-vector encoding, schedule and fault as solver variables) + symbolic execution of AST slices on symbolic-length lists (LIA); traces replayed on the real multiprocessing code via injected delays/faults',
    design='4/C07'),
 'C06': dict(
    text='Partial (index/dataflow arithmetic and estimator algebra). A backward slice of sigma_filter (row/column node lists, the real nested box(), mgrid targets) runs on symbolic image size, stripe, grid and box: z3 (LIA, node lists of symbolic length, arbitrary node index) decides nodes strictly increasing and bracketing every target pixel (no extrapolation), output shape = stripe shape, every box slice non-empty and inside the data; the rows background-subtracted before pass 2 cover every row an rms box can read and are aligned with the shared map (why adding a constant leaves the noise unchanged); mask rows aligned for both maps. The real sigmaclip runs on symbolic samples (n<=3): constant -> (c,0), shift/scale equivariance, mean within range, 0<=std<=range.',
    note='scipy interpolation is taken by contract (exact at nodes, convex, affine-equivariant); Gaussian-noise statistics, float32, >3 samples in sigmaclip (nlsat does not finish n=4) are outside; the image-level contract (img, img+c, k*img, constant, NaN block; 1-3 stripes) is executed on the real BANE only as the replay oracle.',
    technique='symbolic execution of AST backward slices of the real function on symbolic-length lists (z3 LIA) and of the real sigmaclip on z3 reals (relational, nlsat); models replayed through real BANE runs',
    design='4/C06'),
 'C09': dict(
    text='Partial: the coordinate conventions handed to HEALPix. The real Region.radec2sky/sky2ang/sky2vec/vec2sky/add_circles/add_poly/sky_within and MIMAS.combine_regions run on symbolic positions with healpy replaced by argument recorders that implement only the documented ang2vec/vec2ang formulas: z3 (after trig normalisation) decides theta = pi/2 - dec, phi = ra (no swap), unit vector = (cos d cos a, cos d sin a, sin d), vec2sky inverse directions, radius and centres reach query_disc in radians exactly once (degrees converted once in combine_regions and sky_within(degin)), nside = 2**depth with the depth clamp, nest/inclusive flags, scalar and list inputs pair up.',
    note='the covering / three-pixel / area clauses are healpy C++ and are NOT decided; they are only sampled by the replay oracle (random circles at the poles and the RA wrap, points inside and beyond radius + 3 pixels, both input units).',
    technique='symbolic execution of the real Python source on z3 terms with units-aware trig algebra; recording stubs for the C++ library; sympy normalisation then z3 decides',
    design='4/C09'),
 'C15': dict(
    text='The real fits_tools.compress and expand run on an array of SYMBOLIC shape and a header of symbolic values with the factor enumerated (quick: 11 values incl. 1, primes, 64; thorough: 1..64): slicing/assignment, np.arange/mgrid and RegularGridInterpolator are recorders. z3 (LIA) decides for all rows, cols >= 2 (non-multiples and factor > size included): stored block = ceil(rows/f) x ceil(cols/f) plus closing row/col, sample (i,j) = data[i f, j f], nodes at i*f bracket every target index, original dimensions restored, CRPIX/CDELT or CD round trip in reals, BN_* keywords are exactly those is_compressed tests and expand deletes.',
    note='interpolated values, float32 and file I/O are outside (interpolator taken by contract); the replay oracle runs the real functions on linear images (exact on complete cells, node values, range).',
    technique='symbolic execution of the real Python source on symbolic shapes (z3 linear integer arithmetic), array operations recorded; models replayed through real in-memory HDUs',
    design='4/C15'),
 'C16': dict(
    text='The real WCSHelper.pix2sky/sky2pix with the WCS as uninterpreted functions plus the inverse axiom (FITS 1-based (row,col) -> W(x=col,y=row), round trip identity, origin/axis-order consistency); the real pix2sky_vec/sky2pix_vec/pix2sky_ellipse/sky2pix_ellipse/get_psf_* with a conformal first-order WCS whose scale, rotation, handedness, reference pixel/position and cos(dec0) are all symbolic and first-order planar translate/gcd/bear: full round trips return position, length(s) and angle, lengths are tangent-plane lengths, pa = atan2(East, North). Identities via the trig normaliser, z3 verdict.',
    note='projection distortion (the 1e-3 / 0.01 deg tolerances), skewed CD matrices and psf maps are outside; spherical translate/gcd/bear are C17; the replay oracle runs the real helper on SIN/TAN/ZEA/ARC/STG headers against astropy.',
    technique='symbolic execution of the real Python source on z3 terms (units-aware trig, radicals), uninterpreted-function and conformal-map stubs; sympy normalisation then z3 decides',
    design='4/C16'),
 'C18': dict(
    text='Partial. The real classify_catalog and write_catalog run on objects whose class (SimpleSource / IslandSource / ComponentSource / a subclass / unrelated) is chosen by the solver: buckets hold exactly the sources of each type, order kept, _comp/_isle/_simp files named and filled accordingly. The real writeFITSTable column loop runs on rows whose string lengths are symbolic: every character column is wide enough for every row (first row atypical), uncertainty columns stay floating point with the -1 marker, int/float/bool typing.',
    note='value fidelity through astropy ascii/VOTable/FITS and sqlite is library behaviour and NOT decided; it is exercised on one mixed catalogue (csv, fits, vot) by the replay oracle.',
    technique='symbolic execution of the real Python source with solver-chosen classes (isinstance through __class__) and symbolic string lengths (z3 LIA); I/O libraries cut; models replayed through real files',
    design='4/C18'),
 'C19': dict(
    text='Partial (DBSCAN variant and resize). Embedding lemma: the real embedding lines of regroup_dbscan give |Xi-Xj|^2 = 2-2cos(separation) for symbolic (ra,dec). Grouping: the real regroup_dbscan with DBSCAN replaced by its min_samples=1 contract over FREE symbolic pair distances (every adjacency pattern), n<=3 (4 thorough): every source in exactly one group, groups = connected components, identical partition for every row permutation, numbering 0..m-1 by decreasing peak flux, labels unique, only island/source written. The arcmin->chord conversions sliced from AeReg and priorized_fit_islands; resize(ratio): identity at 1, never shrinks, exact formula.',
    note='scikit-learn DBSCAN is taken by contract; the elliptical variants regroup/regroup_vectorized are outside; >4 sources only in the replay oracle (real DBSCAN, 1-9 sources near poles and RA wrap, negative fluxes).',
    technique='symbolic execution of the real Python source on z3 terms with a contract stub whose comparisons fork; relational runs for permutations; sympy normalisation then z3 decides',
    design='4/C19'),
 'C01': dict(
    text='Partial: the deterministic halves around the optimiser. K-forward: the real ntwodgaussian_lmfit/elliptical_gaussian on symbolic parameters and pixels equals the sum of rotated Gaussians in sigma units with theta CCW from the first axis in degrees, and the residual function do_lmfit hands to lmfit (captured) is identically zero at the injected parameters, also after whitening with a symbolic B. K-backward: the real result_to_components on a symbolic fitted model with a conformal first-order WCS: sky position of the 1-based FITS pixel (col=yo+ymin+1,row=xo+xmin+1), axes = sigma*2sqrt(2ln2)*scale*3600, PA = bearing East of North, peak=amp, int_flux=peak*a*b/(psf_a*psf_b); fix_shape/pa_limit cut here and decided in C03. The Jacobian is C04.',
    note='the closed loop itself (optimiser convergence, island detection, BANE, noise) is NOT decided: it is only exercised by the replay oracle on three random noise-free injections (SIN/TAN/ZEA/ARC/STG) against the statement\'s tolerances; projection distortion outside; CC2FHWM/FWHM2CC symbolic with value checked as constants.',
    technique='symbolic execution of the real Python source on z3 terms (units-aware trig, exp atoms, radicals), conformal-WCS stub; sympy normalisation then z3 decides; replay = real blind source finding on injected Gaussians',
    design='4/C01'),
 'C03': dict(
    text='Partial: per-row invariants and numbering. K-numbering: the istart/group_size/enumerate expressions of the priorized batching extracted from the AST: distinct (group, position) pairs get distinct island numbers for any number of groups (LIA). K-normalise: real fix_shape/pa_limit and the RA wrap: a>=b>0, -90<pa<=90, same ellipse mod 180, 0<=ra<360. K-errors: the real fitting.errors with standard errors ranging over what covar_errors emits (positive, NaN, negative) and an arbitrary WCS: every uncertainty is >=0 and finite or exactly -1, and -1 for parameters that were not free. K-rows: the real result_to_components on two components: numbering 0..n-1, flags = island|model flags within the seven bits, int_flux formula. K-flags: seven single-bit constants, no other flag referenced.',
    note='whole-catalogue reproducibility, island-row/pixel agreement and completion on every image need complete runs and are NOT decided; the replay oracle runs real blind (twice) and priorized (25 islands, two groups) finding on a noise-free field and checks every row invariant of the statement.',
    technique='symbolic execution of the real Python source and AST-extracted expressions on z3 terms (LIA / nonlinear reals), z3 decides; models replayed through real blind + priorized source finding',
    design='4/C03'),
 'C05': dict(
    text='Partial: everything around the fit. K-refit: the real _refit_islands runs to the image cut-out on a symbolic source (1-based pixel position anywhere, FWHM 2-5 px, symbolic integer stage): amp free, position free iff stage>=2, shape free iff stage>=3; bounds contain the values; cut-out indices in range; position in the cut-out + cut-out origin == true pixel (the model is registered with the slice the fit sees); a source is skipped only when off the image. K-copyback: the copy-back loop sliced from the AST: uuid, PRIORIZED, input uncertainties of parameters the stage did not free, paired by index. K-resize-nopsf: the real cluster.resize on sources with undefined psf columns: ratio None/1 raise nothing and change nothing.',
    note='the fit (MINPACK) and the post-fit equalities (0.1 %, 0.01 pixel) are NOT decided; the replay oracle runs real priorized fitting (stages 1-3, with/without psf columns, ratio None/1) on the noise-free model image of the catalogue.',
    technique='symbolic execution of the real Python source up to a cut point (record Parameters, symbolic WCS answers), AST slice of the copy-back loop; z3 decides; models replayed through real priorized fitting',
    design='4/C05'),
}
NA = {}
ALL = ['C%02d' % i for i in range(1, 21)]
def main():
    hooks = json.load(open(os.path.join(V, 'hooks.json'))) if os.path.exists(os.path.join(V, 'hooks.json')) else {}
    m = dict(version=1,
             setup_cmd='./setup.sh',
             hooks=dict(guard='AEGEAN_VERIF', enable='export AEGEAN_VERIF=1 (read at run time by the guarded hook in AegeanTools/BANE.py; no rebuild needed, pure Python)',
                        baseline_off_cmd='./tools/baseline_off.sh', source_commits=hooks.get('source_commits', []), add_only=True),
             engines=[dict(name='symx', path='symx/', serves_properties=sorted(CHECKS), kind_free_text='own symbolic executor: runs the real /repo Python source under CPython on z3-backed scalars, forks paths by re-execution, z3 decides every obligation; sympy normaliser for trig identities; FP/BV mode for rounding-sensitive integer kernels; AST slicer; z3 BMC for the BANE barrier protocol')],
             checks=[], not_applicable=[], notes='See DESIGN.md. Exit codes: 0 held / 1 VIOLATION / 2 harness error. known_findings.json lists open and fixed findings.')
    for pid in ALL:
        if pid in CHECKS:
            c = CHECKS[pid]
            m['checks'].append(dict(property_id=pid, quick_cmd='bin/check %s --tier quick' % pid, thorough_cmd='bin/check %s --tier thorough' % pid,
                                    evidence_file='evidence/%s.json' % pid, replay_cmd_template='bin/check %s --replay {path}' % pid, engine='symx',
                                    level_claimed=dict(category='model_checking', text=c['text'], design_ref=c['design']), level_note=c['note'], technique=c['technique']))
        else:
            m['not_applicable'].append(dict(property_id=pid, reason=NA.get(pid, 'check not built yet in this session (planned, see DESIGN.md section 4)')))
    json.dump(m, open(os.path.join(V, 'MANIFEST.json'), 'w'), indent=1)
    try:
        import jsonschema
        jsonschema.validate(m, json.load(open('/root/.vp/MANIFEST.schema.json')))
        print('MANIFEST valid:', len(m['checks']), 'checks,', len(m['not_applicable']), 'not applicable')
    except ImportError:
        print('written (jsonschema not available)')
main()
