#!/usr/bin/env python3
"""regenerate MANIFEST.json from the table below (keeps it valid and in sync with checks/)"""
import json, os, subprocess
V = os.path.dirname(os.path.dirname(os.path.abspath(__file__)))
CHECKS = {
 'C17': dict(
    text='Bounded symbolic execution of the real angle_tools functions: dec2dms/dec2hms/dec2dec/ra2dec run on a symbolic real x with printed fields as decimal-rounding tokens (field ranges, carry, parse(format(x)) within half a last digit, every x in [-90,90] / [0,360)); gcd/bear/translate run on symbolic angles and the haversine/vector, position-angle and translate distance/bearing identities are decided exactly over the trig atoms. z3 decides each obligation; sympy only normalises.',
    note='floats modelled as reals (FP error of (x-d)*60, 1e-9 deg conditioning, triangle inequality and rhumb functions are outside); decimal rounding of printed fields modelled as any decimal within half a last digit; cos(dec)>0; sympy normaliser and z3 are trusted, cross-checked numerically; every model is replayed on the real functions before it is reported.',
    technique='symbolic execution of the real Python source on z3 terms (own executor), path forking by re-execution, z3 decides negated assertions; models replayed on real code',
    design='4/C17'),
}
NA = {}
ALL = ['C%02d' % i for i in range(1, 21)]
def main():
    hooks = json.load(open(os.path.join(V, 'hooks.json'))) if os.path.exists(os.path.join(V, 'hooks.json')) else {}
    m = dict(version=1,
             setup_cmd='./setup.sh',
             hooks=dict(guard='AEGEAN_VERIF', enable='export AEGEAN_VERIF=1 (read at run time by the guarded hook in AegeanTools/BANE.py; no rebuild needed, pure Python)',
                        baseline_off_cmd='./tools/baseline_off.sh', source_commits=hooks.get('source_commits', []), add_only=True),
             engines=[dict(name='symx', path='symx/', serves_properties=sorted(CHECKS), kind_free_text='own symbolic executor: runs the real /repo Python source under CPython on z3-backed scalars, forks paths by re-execution, z3 decides every obligation; sympy normaliser for trig identities; FP/BV mode for rounding-sensitive integer kernels; AST slicer; z3 BMC for the BANE barrier protocol')],
             checks=[], not_applicable=[], notes='See DESIGN.md. Exit codes: 0 held / 1 VIOLATION / 2 harness error. known_findings.json lists open and fixed findings.')
    for pid in ALL:
        if pid in CHECKS:
            c = CHECKS[pid]
            m['checks'].append(dict(property_id=pid, quick_cmd='bin/check %s --tier quick' % pid, thorough_cmd='bin/check %s --tier thorough' % pid,
                                    evidence_file='evidence/%s.json' % pid, replay_cmd_template='bin/check %s --replay {path}' % pid, engine='symx',
                                    level_claimed=dict(category='model_checking', text=c['text'], design_ref=c['design']), level_note=c['note'], technique=c['technique']))
        else:
            m['not_applicable'].append(dict(property_id=pid, reason=NA.get(pid, 'check not built yet in this session (planned, see DESIGN.md section 4)')))
    json.dump(m, open(os.path.join(V, 'MANIFEST.json'), 'w'), indent=1)
    try:
        import jsonschema
        jsonschema.validate(m, json.load(open('/root/.vp/MANIFEST.schema.json')))
        print('MANIFEST valid:', len(m['checks']), 'checks,', len(m['not_applicable']), 'not applicable')
    except ImportError:
        print('written (jsonschema not available)')
main()
