#!/bin/bash
# tools/check_seeds.sh [seed dirs...]: for every kept seeded change: fresh scratch worktree of /repo HEAD, apply patch.diff,
# run the demonstration (must exit 1), run the check(s) that claim to catch it with REPO_ROOT at the worktree, record the
# outcome in meta.json (field "final"), remove the worktree.
cd /verif
DIRS=${@:-$(ls -d seeded/*/)}
for d in $DIRS; do
  d=${d%/}; name=$(basename $d)
  pid=${name%-*}
  wt=/tmp/wt/final_$name
  git -C /repo worktree remove --force $wt 2>/dev/null
  git -C /repo worktree add -q $wt HEAD || continue
  ( cd $wt && git apply $OLDPWD/$d/patch.diff 2>/dev/null || git apply -3 $OLDPWD/$d/patch.diff 2>/dev/null ) || { echo "$name PATCH-DOES-NOT-APPLY"; git -C /repo worktree remove --force $wt; continue; }
  ( cd $wt && timeout 600 /venv/bin/python /verif/$d/demo.py >/dev/null 2>&1 ); demo=$?
  checks=$(python3-vt -c "import json,re; m=json.load(open('$d/meta.json')); o=[m['property']]+[c for c in sorted(set(re.findall(r'C\d\d', m['caught_by']))) if c!=m['property']]; print(' '.join(o))")
  res=""
  for c in $checks; do
    out=$(REPO_ROOT=$wt timeout 3000 bin/check $c --tier quick 2>&1); rc=$?
    v=$(echo "$out" | grep -c '^VIOLATION')
    res="$res $c:rc=$rc:violations=$v"
    [ $rc -eq 1 ] && break
  done
  echo "$name demo_exit=$demo$res"
  python3-vt - "$d" "$demo" "$res" <<'PY'
import json, sys
d, demo, res = sys.argv[1:4]
m = json.load(open(d + '/meta.json'))
m['final'] = dict(demo_exit_with_patch=int(demo), checks=res.split(), detected=any(':rc=1:' in r for r in res.split()))
json.dump(m, open(d + '/meta.json', 'w'), indent=1)
PY
  git -C /repo worktree remove --force $wt
done
