#!/bin/bash
# tools/try_seed.sh <PROP> <A|B> [extra check ids...]: confirm a seeded change in its scratch worktree (tests pass, demo fails
# with / passes without), then run our check(s) with REPO_ROOT pointing at the patched worktree
ID=$1; X=$2; shift; shift
S=${SEEDROOT:-/tmp/seed}/$ID; WT=${WTROOT:-/tmp/wt}/$ID
OUT=$S/result_$X.txt
{
cd $WT && git checkout -q -- . && git clean -fdq
echo "== demo on clean tree"; /venv/bin/python $S/demo_$X.py >/dev/null 2>&1; echo "exit $?"
git apply $S/patch_$X.diff || { echo "PATCH DOES NOT APPLY"; exit 3; }
if [ -z "$SKIPTESTS" ]; then echo "== tests with patch"; /venv/bin/python -m pytest -q -p no:cacheprovider --timeout=900 tests 2>&1 | tail -1
git checkout -q -- tests; fi
echo "== demo with patch"; /venv/bin/python $S/demo_$X.py 2>&1 | tail -3; echo "exit ${PIPESTATUS[0]}"
for C in $ID "$@"; do
  echo "== check $C with patch"; (cd /verif && REPO_ROOT=$WT timeout 3000 bin/check $C --tier ${TIER:-quick} 2>&1 | grep -E "^(VIOLATION|KNOWN|SUMMARY|HARNESS|  what)" | head -12; echo "exit ${PIPESTATUS[0]}")
done
cd $WT && git checkout -q -- . && git clean -fdq
} 2>&1 | tee $OUT
