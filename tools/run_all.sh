#!/bin/bash
# run every claimed check (quick tier by default) on the unchanged tree and list the outcomes
cd /verif
T=${1:-quick}
for id in $(python3-vt -c "import json; print(' '.join(c['property_id'] for c in json.load(open('MANIFEST.json'))['checks']))"); do
  s=$(date +%s); out=$(bin/check $id --tier $T 2>&1); rc=$?
  echo "$id rc=$rc $(( $(date +%s)-s ))s $(echo "$out" | grep -E '^SUMMARY' | cut -c1-140)"
  echo "$out" | grep -E '^(VIOLATION|HARNESS|KNOWN)' | cut -c1-200
done
python3-vt tools/validate.py
