#!/usr/bin/env python3
"""tools/fixed.py <property> <commit-subject-substring> <fingerprint> <what failed>  -- append a 'fixed' entry"""
import json, subprocess, sys
pid, sub, fpr, what = sys.argv[1:5]
log = subprocess.check_output(['git', '-C', '/repo', 'log', '--format=%h %s']).decode().splitlines()
c = [l.split()[0] for l in log if sub in l][0]
k = json.load(open('/verif/known_findings.json'))
k['fixed'].append(dict(property=pid, commit=c, fingerprint=fpr, line='fixed: property=%s %s %s' % (pid, c, what)))
json.dump(k, open('/verif/known_findings.json', 'w'), indent=1)
print('recorded', pid, c)
