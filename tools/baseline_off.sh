#!/bin/bash
# run the repository's stable baseline with the hook guard OFF, on a scratch copy (the suite rewrites tracked files),
# and compare with /root/.vp/BASELINE.json: every stable_pass test must still pass
T=$(mktemp -d /var/tmp/aegean_baseline.XXXXXX)
trap 'rm -rf "$T"' EXIT
rsync -a --exclude .git /repo/ "$T/repo/"
cd "$T/repo"
unset AEGEAN_VERIF AEGEAN_VERIF_SCHEDULE AEGEAN_VERIF_IDFILE
/venv/bin/python -m pytest -ra -q -p no:cacheprovider --timeout=900 --continue-on-collection-errors --junitxml="$T/junit.xml" "$@" 2>&1 | tail -5
cp "$T/junit.xml" /verif/.baseline_junit.xml 2>/dev/null || true
/venv/bin/python - "$T/junit.xml" <<'PY'
import json, sys, xml.etree.ElementTree as ET
base = json.load(open('/root/.vp/BASELINE.json'))
res = {}
for tc in ET.parse(sys.argv[1]).getroot().iter('testcase'):
    name = '%s::%s' % (tc.get('classname'), tc.get('name'))
    bad = any(ch.tag in ('failure', 'error') for ch in tc)
    skipped = any(ch.tag == 'skipped' for ch in tc)
    res[name] = 'fail' if bad else ('skip' if skipped else 'pass')
missing = [t for t in base['stable_pass'] if res.get(t) != 'pass']
print('BASELINE stable_pass: %d/%d passed with the guard off; total %d tests, %d passed' % (len(base['stable_pass']) - len(missing), len(base['stable_pass']), len(res), sum(v == 'pass' for v in res.values())))
for t in missing:
    print('  NOT PASSING:', t, res.get(t))
sys.exit(1 if missing else 0)
PY
