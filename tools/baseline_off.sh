#!/bin/bash
# run the repository's stable baseline with the hook guard OFF, on a scratch copy (the suite rewrites tracked files)
set -e
T=$(mktemp -d /var/tmp/aegean_baseline.XXXXXX)
trap 'rm -rf "$T"' EXIT
rsync -a --exclude .git /repo/ "$T/repo/"
cd "$T/repo"
unset AEGEAN_VERIF
/venv/bin/python -m pytest -ra -q -p no:cacheprovider --timeout=900 --continue-on-collection-errors --junitxml="$T/junit.xml" "$@" | tail -40
cp "$T/junit.xml" /verif/.baseline_junit.xml 2>/dev/null || true
