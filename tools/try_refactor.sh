#!/bin/bash
# tools/try_refactor.sh <dir with patch_k.diff> <worktree> <k> <check ids...>: behaviour-preserving refactors must not raise alarms
D=$1; WT=$2; K=$3; shift; shift; shift
cd $WT && git checkout -q -- . && git clean -fdq && git apply $D/patch_$K.diff || { echo "PATCH $K DOES NOT APPLY"; exit 3; }
for C in "$@"; do
  echo "== refactor $K check $C"; (cd /verif && REPO_ROOT=$WT timeout 3000 bin/check $C --tier quick 2>&1 | grep -E "^(VIOLATION|KNOWN|SUMMARY|HARNESS|INCONCLUSIVE|  what)" | sort | uniq -c | head -12)
done
cd $WT && git checkout -q -- . && git clean -fdq
