#!/usr/bin/env python3
import json, sys, glob, jsonschema
m = json.load(open('/verif/MANIFEST.json')); jsonschema.validate(m, json.load(open('/root/.vp/MANIFEST.schema.json')))
s = json.load(open('/root/.vp/EVIDENCE.schema.json'))
for c in m['checks']:
    p = '/verif/' + c['evidence_file']
    try:
        e = json.load(open(p)); jsonschema.validate(e, s); print(c['property_id'], 'ok', e['tier'], e['coverage'].get('obligations'), e['coverage'].get('discharged'), e['wall_s'])
    except Exception as ex:
        print(c['property_id'], 'BAD', str(ex)[:200])
