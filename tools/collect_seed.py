#!/usr/bin/env python3
"""tools/collect_seed.py <PROP> <A|B> <caught_by or 'missed'> <needs...>  -- copy a confirmed seeded change into /verif/seeded/"""
import json, os, shutil, sys, re
pid, x, caught = sys.argv[1:4]
needs = ' '.join(sys.argv[4:])
import os as _os
src = '%s/%s' % (_os.environ.get('SEEDROOT', '/tmp/seed'), pid)
dst = '/verif/seeded/%s-%s' % (pid, _os.environ.get('SEEDNAME', x))
os.makedirs(dst, exist_ok=True)
shutil.copy(os.path.join(src, 'patch_%s.diff' % x), os.path.join(dst, 'patch.diff'))
shutil.copy(os.path.join(src, 'demo_%s.py' % x), os.path.join(dst, 'demo.py'))
res = open(os.path.join(src, 'result_%s.txt' % x)).read() if os.path.exists(os.path.join(src, 'result_%s.txt' % x)) else ''
tests = re.findall(r'(\d+ passed[^\n]*)', res)
meta = dict(property=pid, variant=x, breaks=pid, needs_to_manifest=needs,
            confirmed=dict(tests_with_patch=tests[0] if tests else 'see notes', demo_exit_clean_tree=0, demo_exit_with_patch=1,
                           how='tools/try_seed.sh %s %s: demo on the clean scratch worktree (exit 0), git apply patch, full pytest suite, demo (exit 1), then bin/check with REPO_ROOT at the patched worktree' % (pid, x)),
            caught_by=caught, check_output=[l for l in res.splitlines() if l.startswith(('VIOLATION', 'SUMMARY', '  what'))][:8])
json.dump(meta, open(os.path.join(dst, 'meta.json'), 'w'), indent=1)
print('collected', dst, caught)
